"""C15 - data layouts and shaped enumerations obey the shape-castable laws.

The generator works on an abstract syntax of layout trees / enumeration classes / initialisers; the
amaranth objects are *built* from it (worker processes), the same tree is serialised for the Lean
driver `amodel_c15`, which returns Model and Spec values (lean/AmaranthVerif/Driver/C15Main.lean).

abstract syntax (tuples, picklable)
  shape      ("p", width, signed, style)        style: how the shape is written (Shape / unsigned() / int)
  enum       ("enum", eid)                       eid indexes case["enums"]: (kind, width, signed, ((name, value)...))
                                                 kind: "e" (Enum) | "strict" | "conform" | "eject" | "keep" (Flag)
  layout     ("struct", ((name, fs)...), as_class) | ("union", ((name, fs)...), as_class)
             | ("array", fs, n) | ("flex", size, ((key, fs, off)...))
  init       ("none",) | ("int", v, style) | ("map", ((key, init)...), as_seq) | ("bits", raw)
  slices     case["slices"] = [(path, elem_fs, n, ((start, stop, step)...), raw_indices)]: arrays of the layout (itself or nested)
             whose data.Const and view are sliced; expected = Python list slice of the element list, elements placed by the model/Spec
  sequences  {"layout": (struct|union, fields, True), "defaults": ((name, init)...), "ops": ((const|siginit|signal, init)...)}:
             ONE class object declaring defaults, constructions in order; expected = Layout.const(merged_init(...)) from the driver
"""
import os
import random
import traceback
from concurrent.futures import ProcessPoolExecutor

from .. import common
from ..common import errkind

LEVEL = "proof"
EXE = "amodel_c15"

# finding classes (DESIGN.md section 5)
F11 = "F11"      # UnionLayout.const(data.Const) raises TypeError
F12 = "F12"      # signed shaped enumeration as a layout field
F16 = "F16"      # FlagView.__invert__ under EJECT/KEEP complements the whole shape, Python only `_all_bits_`
F17 = "F17"      # RTLIL backend: to_binary(negative member of a signed shaped enumeration) raises ValueError


# ------------------------------------------------------------------------------------------------
# generator (abstract syntax only; runs in the main process, driven by chk.rng)

def gen_enum(rng, for_field=True, unnamed_bits=False):
    r = rng.random()
    if r < 0.55:
        signed = rng.random() < 0.35
        w = rng.randint(1, 4) if not signed else rng.randint(1, 4)
        if rng.random() < 0.04 and not signed:
            w = 0
        lo, hi = (-(1 << (w - 1)), 1 << (w - 1)) if signed else (0, 1 << w)
        dom = list(range(lo, hi))
        k = rng.randint(1, min(4, len(dom)))
        vals = rng.sample(dom, k)
        if 0 in dom and 0 not in vals and rng.random() < 0.6:
            vals[0] = 0
        return ("e", w, signed, tuple((f"M{i}", v) for i, v in enumerate(vals)))
    kind = rng.choice(["strict"] * 5 + ["conform", "eject", "keep"] * 2)
    w = rng.randint(1, 5)
    nbits = rng.randint(1, w)
    bits = sorted(rng.sample(range(w), nbits))
    members = [(f"B{b}", 1 << b) for b in bits]
    if len(bits) >= 2 and rng.random() < 0.35:       # an alias: combination of declared single bits
        sub = rng.sample(bits, 2)
        members.append(("AL", (1 << sub[0]) | (1 << sub[1])))
    if unnamed_bits:
        # multi-bit members over bits that have no single-bit member of their own (`MODE = 12` next to `EN = 1`,
        # `IRQ = 2`): `_flag_mask_` then differs from `_singles_mask_`. Flag stream only: reading arbitrary bit
        # patterns of such a class is outside "member combinations" (Python accepts some and rejects others).
        free = [b for b in range(w) if b not in bits]
        rng.shuffle(free)
        if free:
            k = rng.randint(1, min(2, len(free)))
            mv = 0
            for b in free[:k]:
                mv |= 1 << b
            if rng.random() < 0.3:
                mv |= 1 << rng.choice(bits)               # ... possibly together with a named bit
            if mv & (mv - 1) or rng.random() < 0.5:
                if not (mv & (mv - 1)):                    # a single unnamed bit alone would be a named bit: add one
                    mv |= 1 << rng.choice(bits)
                members.append(("MB", mv))
            if len(free) > k and rng.random() < 0.3:
                mv2 = (1 << free[k]) | (1 << rng.choice(bits))
                members.append(("MB2", mv2))
    rng.shuffle(members)
    return (kind, w, False, tuple(members))


def enum_shape(e):
    return (e[1], e[2])


def gen_fs(rng, depth, enums, budget):
    r = rng.random()
    if depth > 0 and r < 0.5:
        return gen_layout(rng, depth - 1, enums, budget)
    if r < 0.62:
        if enums and rng.random() < 0.5:
            eid = rng.randrange(len(enums))
        else:
            enums.append(gen_enum(rng))
            eid = len(enums) - 1
        return ("enum", eid)
    w = rng.choice([0, 1, 1, 2, 2, 3, 3, 4, 5, 7, 8])
    s = w > 0 and rng.random() < 0.45
    style = rng.choice(["shape", "fn", "int"]) if not s else rng.choice(["shape", "fn"])
    return ("p", w, s, style)


NAMES = ["a", "b", "c", "d", "e2", "f0", "_pad", "x", "y", "len_", "val"]


def gen_layout(rng, depth, enums, budget):
    k = rng.random()
    if k < 0.38:
        n = rng.choice([0, 1, 2, 2, 3, 3, 4])
        names = rng.sample(NAMES, n)
        return ("struct", tuple((nm, gen_fs(rng, depth, enums, budget)) for nm in names), rng.random() < 0.2)
    if k < 0.56:
        n = rng.choice([0, 1, 2, 2, 3])
        names = rng.sample(NAMES, n)
        return ("union", tuple((nm, gen_fs(rng, depth, enums, budget)) for nm in names), rng.random() < 0.2)
    if k < 0.80:
        return ("array", gen_fs(rng, depth, enums, budget), rng.choice([0, 1, 2, 2, 3, 3, 4, 5]))
    n = rng.choice([0, 1, 2, 3, 3, 4])
    fields = []
    end = 0
    keys = rng.sample(NAMES + [0, 1, 2, 3, 7], n)
    for key in keys:
        fs = gen_fs(rng, depth, enums, budget)
        w = fs_width(fs, enums)
        mode = rng.random()
        if mode < 0.45:
            off = end + rng.choice([0, 0, 1, 2])              # after the previous ones, maybe a gap
        elif mode < 0.8 and end > 0:
            off = rng.randint(0, end)                          # overlap something
        else:
            off = rng.randint(0, 6)
        fields.append((key, fs, off))
        end = max(end, off + w)
    size = end + rng.choice([0, 0, 0, 1, 3])
    return ("flex", size, tuple(fields))


def fs_width(fs, enums):
    if fs[0] == "p":
        return fs[1]
    if fs[0] == "enum":
        return enums[fs[1]][1]
    return layout_size(fs, enums)


def layout_size(l, enums):
    """harness-side size, used only to steer generation (never compared)"""
    t = l[0]
    if t == "struct":
        return sum(fs_width(fs, enums) for _n, fs in l[1])
    if t == "union":
        return max([fs_width(fs, enums) for _n, fs in l[1]], default=0)
    if t == "array":
        return fs_width(l[1], enums) * l[2]
    return l[1]


def fields_of(l, enums):
    """[(key, fs, off, w)] in declaration order (steering only)"""
    t = l[0]
    out = []
    if t == "struct":
        off = 0
        for n, fs in l[1]:
            w = fs_width(fs, enums)
            out.append((n, fs, off, w))
            off += w
    elif t == "union":
        for n, fs in l[1]:
            out.append((n, fs, 0, fs_width(fs, enums)))
    elif t == "array":
        w = fs_width(l[1], enums)
        for i in range(l[2]):
            out.append((i, l[1], i * w, w))
    else:
        for k, fs, off in l[2]:
            out.append((k, fs, off, fs_width(fs, enums)))
    return out


def depth_of(l):
    t = l[0]
    if t in ("p", "enum"):
        return 0
    if t in ("struct", "union"):
        return 1 + max([depth_of(fs) for _n, fs in l[1]], default=0)
    if t == "array":
        return 1 + depth_of(l[1])
    return 1 + max([depth_of(fs) for _k, fs, _o in l[2]], default=0)


def all_paths(l, enums, limit=40):
    """every field path (tuple of keys) with the abstract shape of the field"""
    out = []

    def walk(lay, prefix):
        for key, fs, _off, _w in fields_of(lay, enums):
            if len(out) >= limit:
                return
            p = prefix + (key,)
            out.append((p, fs))
            if fs[0] not in ("p", "enum"):
                walk(fs, p)
    walk(l, ())
    return out


def gen_value(rng, fs, enums, malformed=0.0):
    """an initialiser for a field of abstract shape fs"""
    if fs[0] == "p":
        w, s = fs[1], fs[2]
        if rng.random() < malformed:
            return ("map", (), False)                             # TypeError: a mapping for a plain field
        span = 1 << (w + 1)
        v = rng.randint(-span, span) if rng.random() < 0.5 else rng.randint(0, max(0, (1 << w) - 1))
        return ("int", v, rng.choice(["int", "int", "const"]))
    if fs[0] == "enum":
        e = enums[fs[1]]
        if rng.random() < malformed:
            bad = [v for v in range(-2 if e[0] == "e" else 0, (1 << e[1]) + 1) if not enum_valid(e, v)]
            if bad:
                return ("int", rng.choice(bad), "int")
        vals = valid_values(e)
        v = rng.choice(vals) if vals else 0
        return ("int", v, rng.choice(["member", "int"]))
    return gen_init(rng, fs, enums, malformed)


def gen_init(rng, l, enums, malformed=0.0):
    r = rng.random()
    if r < 0.06:
        return ("none",)
    if r < 0.16:
        size = layout_size(l, enums)
        return ("bits", rng.getrandbits(size) if size else 0)
    if rng.random() < malformed / 2:
        return ("int", 1, "int")                                   # TypeError: not a mapping or sequence
    fl = fields_of(l, enums)
    t = l[0]
    if t == "union":
        chosen = rng.sample(fl, min(len(fl), 1 if rng.random() > malformed else 2))
    elif t == "array" and rng.random() < 0.6:
        n = rng.randint(0, len(fl))
        return ("map", tuple((i, gen_value(rng, l[1], enums, malformed)) for i in range(n)), True)
    else:
        chosen = [f for f in fl if rng.random() < 0.8]
        rng.shuffle(chosen)
    kvs = [(key, gen_value(rng, fs, enums, malformed)) for key, fs, _o, _w in chosen]
    if rng.random() < malformed:
        kvs.append(("nosuch", ("int", 0, "int")))                  # ValueError: unknown key
    return ("map", tuple(kvs), False)


def enum_valid(e, v):
    kind, _w, _s, members = e
    if kind == "e":
        return v in [m[1] for m in members]
    mask = 0
    for _n, mv in members:
        mask |= mv
    return v >= 0 and (v & ~mask) == 0


def valid_values(e):
    kind, w, s, members = e
    if kind == "e":
        return [m[1] for m in members]
    return [v for v in range(1 << w) if enum_valid(e, v)]


def has_unnamed_bits(e):
    """a Flag with a multi-bit member containing a bit that has no single-bit member"""
    if e[0] == "e":
        return False
    singles = mask = 0
    for _n, v in e[3]:
        mask |= v
        if v & (v - 1) == 0:
            singles |= v
    return mask != singles


def is_combination(e, v):
    """v is a union of declared members (what the property calls a member combination)"""
    acc = 0
    for _n, mv in e[3]:
        if mv & v == mv:
            acc |= mv
    return v >= 0 and acc == v


def combinations(e):
    return [v for v in range(1 << e[1]) if is_combination(e, v)]


def has_signed_enum_field(l, enums):
    t = l[0]
    if t == "enum":
        return enums[l[1]][2]
    if t == "p":
        return False
    if t in ("struct", "union"):
        return any(has_signed_enum_field(fs, enums) for _n, fs in l[1])
    if t == "array":
        return l[2] >= 0 and has_signed_enum_field(l[1], enums)
    return any(has_signed_enum_field(fs, enums) for _k, fs, _o in l[2])


def has_negative_enum_member(l, enums):
    return any(v < 0 for e in enums for _n, v in e[3])


def bare_union_gets_bits(l, init):
    """does the initialiser hand a data.Const to a bare UnionLayout (top level or nested)? (F11)"""
    if l[0] in ("p", "enum"):
        return False
    if init[0] == "bits":
        return l[0] == "union" and not l[2]
    if init[0] != "map":
        return False
    sub = {}
    if l[0] in ("struct", "union"):
        sub = {n: fs for n, fs in l[1]}
    elif l[0] == "array":
        sub = {i: l[1] for i in range(l[2])}
    else:
        sub = {k: fs for k, fs, _o in l[2]}
    return any(k in sub and bare_union_gets_bits(sub[k], v) for k, v in init[1])


# ------------------------------------------------------------------------------------------------
# serialisation for the driver

def ser_key(k):
    return f"i:{k}" if isinstance(k, int) else f"n:{k}"


def ser_enum(e):
    kind, w, s, members = e
    return f"(enum ({'s' if s else 'u'} {w}) ({' '.join(str(v) for _n, v in members)}) {kind})"


def ser_fs(fs, enums):
    if fs[0] == "p":
        return f"(p ({'s' if fs[2] else 'u'} {fs[1]}))"
    if fs[0] == "enum":
        return ser_enum(enums[fs[1]])
    return ser_layout(fs, enums)


def ser_layout(l, enums):
    t = l[0]
    if t in ("struct", "union"):
        return f"({t}" + "".join(f" ({ser_key(n)} {ser_fs(fs, enums)})" for n, fs in l[1]) + ")"
    if t == "array":
        return f"(array {ser_fs(l[1], enums)} {l[2]})"
    return f"(flex {l[1]}" + "".join(f" ({ser_key(k)} {ser_fs(fs, enums)} {off})" for k, fs, off in l[2]) + ")"


def ser_init(i):
    if i[0] == "none":
        return "none"
    if i[0] == "int":
        return f"(int {i[1]})"
    if i[0] == "bits":
        return f"(bits {i[1]})"
    return "(map" + "".join(f" ({ser_key(k)} {ser_init(v)})" for k, v in i[1]) + ")"


# ------------------------------------------------------------------------------------------------
# amaranth side (worker processes)

class Env:
    """enumeration classes of one case, built once (EnumView compares classes by identity)"""

    def __init__(self, enums):
        self.enums = enums
        self.cache = {}
        self.counter = 0

    def enum_class(self, eid):
        if eid in self.cache:
            return self.cache[eid]
        import enum as py_enum
        from amaranth.hdl import Shape
        from amaranth.lib import enum as aenum
        kind, w, s, members = self.enums[eid]
        base = aenum.Enum if kind == "e" else aenum.Flag
        kw = {}
        if kind != "e":
            kw["boundary"] = getattr(py_enum, kind.upper())
        ns = aenum.EnumType.__prepare__(f"E{eid}", (base,), **kw)
        for n, v in members:
            ns[n] = v
        cls = aenum.EnumType(f"E{eid}", (base,), ns, shape=Shape(w, s), **kw)
        self.cache[eid] = cls
        return cls

    def shape(self, fs):
        from amaranth.hdl import Shape, unsigned, signed
        if fs[0] == "p":
            _t, w, s, style = fs
            if style == "int":
                return w
            if style == "fn":
                return signed(w) if s else unsigned(w)
            return Shape(w, s)
        if fs[0] == "enum":
            return self.enum_class(fs[1])
        return self.layout(fs)

    def layout(self, l):
        from amaranth.lib import data
        t = l[0]
        if t in ("struct", "union"):
            members = {n: self.shape(fs) for n, fs in l[1]}
            if l[2]:
                self.counter += 1
                base = data.Struct if t == "struct" else data.Union
                return type(base)(f"Agg{self.counter}", (base,), {"__annotations__": dict(members)})
            return data.StructLayout(members) if t == "struct" else data.UnionLayout(members)
        if t == "array":
            return data.ArrayLayout(self.shape(l[1]), l[2])
        return data.FlexibleLayout(l[1], {k: data.Field(self.shape(fs), off) for k, fs, off in l[2]})


SLICE_SIM_RAWS = 3


def describe(x):
    """a field value read from a constant or from the simulator, as the driver prints it"""
    import enum as py_enum
    from amaranth.lib import data
    if isinstance(x, data.Const):
        return f"c{x.as_bits()}"
    if isinstance(x, py_enum.Enum):
        return f"m{x.value}"
    if isinstance(x, bool):
        return f"i{int(x)}"
    if isinstance(x, int):
        return f"i{x}"
    return f"?{type(x).__name__}"


def attempt(f):
    try:
        return describe(f())
    except ValueError:
        return "inv"
    except TypeError:
        return "te"
    except Exception as e:      # noqa
        return "err:" + errkind(e)


def build_init(init, obj, cast, fsdescr, env):
    """python initialiser for a field whose amaranth shape object is `obj`"""
    from amaranth.hdl import Const as HConst, Shape
    from amaranth.lib import data
    t = init[0]
    if t == "none":
        return None
    if t == "bits":
        return data.Layout.cast(obj).from_bits(init[1])
    if t == "int":
        if fsdescr[0] == "enum" and init[2] == "member":
            return env.enum_class(fsdescr[1])(init[1])
        if fsdescr[0] == "p" and init[2] == "const":
            return HConst(init[1], Shape.cast(obj))
        return init[1]
    # map
    if fsdescr[0] in ("p", "enum"):
        return {}
    lay = data.Layout.cast(obj)
    sub = sub_descrs(fsdescr)
    items = []
    for k, v in init[1]:
        if k in sub:
            items.append((k, build_init(v, lay[k].shape, None, sub[k], env)))
        else:
            items.append((k, 0))
    if init[2]:
        return [v for _k, v in items]
    return dict(items)


def sub_descrs(l):
    if l[0] in ("struct", "union"):
        return {n: fs for n, fs in l[1]}
    if l[0] == "array":
        return {i: l[1] for i in range(l[2])}
    return {k: fs for k, fs, _o in l[2]}


def observe(case):
    """run one case on the real code; returns a picklable dict of observations"""
    import warnings
    warnings.simplefilter("ignore")
    from amaranth.hdl import Signal, Module, Value, Shape, Const as HConst
    from amaranth.lib import data
    from amaranth.sim import Simulator
    enums = case["enums"]
    env = Env(enums)
    l = case["layout"]
    obs = {}
    try:
        obj = env.layout(l)
        lay = data.Layout.cast(obj)
    except Exception as e:
        obs["build"] = ("error", errkind(e), repr(e)[:160])
        return obs
    obs["build"] = ("ok",)
    # --- placement
    try:
        obs["size"] = lay.size
        obs["iter"] = [(k, f.offset, f.width) for k, f in lay]
        obs["get"] = [(lay[k].offset, lay[k].width) for k, _f in lay]
        obs["shape"] = (Shape.cast(obj).width, Shape.cast(obj).signed)
        if isinstance(lay, data.ArrayLayout) and lay.length:
            obs["neg_index"] = (lay[-1].offset == lay[lay.length - 1].offset)
    except Exception as e:
        obs["placement_error"] = (errkind(e), repr(e)[:160])
        return obs
    keys = [k for k, _f in lay]
    # --- constants: from_bits / as_bits / as_value / fields / the const(from_bits) law
    reads = []
    for raw in case["raws"]:
        r = {}
        try:
            c = obj.from_bits(raw)
            r["fb"] = ("ok", c.as_bits(), HConst.cast(c).value)
        except Exception as e:
            r["fb"] = ("error", errkind(e))
            reads.append(r)
            continue
        try:
            r["law"] = ("ok", HConst.cast(obj.const(c)).value)
        except Exception as e:
            r["law"] = ("error", errkind(e))
        r["fields"] = [attempt(lambda k=k: c[k]) for k in keys]
        reads.append(r)
    obs["reads"] = reads
    for raw in case["bad_raws"]:
        try:
            obj.from_bits(raw)
            obs.setdefault("bad_raws", []).append("ok")
        except Exception as e:
            obs.setdefault("bad_raws", []).append(errkind(e))
    # --- constants from field values
    consts = []
    for init in case["inits"]:
        r = {}
        try:
            pyinit = build_init(init, obj, None, l, env)
        except Exception as e:
            r["const"] = ("harness-error", errkind(e), traceback.format_exc()[-300:])
            consts.append(r)
            continue
        try:
            c = obj.const(pyinit)
            r["const"] = ("ok", c.as_bits())
            r["readback"] = [attempt(lambda k=k: c[k]) for k in keys]
        except Exception as e:
            r["const"] = ("error", errkind(e), repr(e)[:120])
        try:
            s = Signal(obj, init=pyinit)
            r["siginit"] = ("ok", Value.cast(s).init)
        except Exception as e:
            r["siginit"] = ("error", errkind(e), repr(e)[:120])
        consts.append(r)
    obs["consts"] = consts
    # --- slices of array constants
    if case.get("slices"):
        obs["slices"] = observe_const_slices(case, obj)
    # --- simulation of views
    obs["sim"] = simulate(case, env, obj, lay)
    return obs


def slice_result(got):
    """what is observed of a sliced array (a data.Const: from a constant, or read from a view in simulation)"""
    n = len(got)
    return ("ok", n, getattr(got.shape(), "length", None), got.as_bits(), got.as_value().value,
            [attempt(lambda i=i: got[i]) for i in range(n)])


def observe_const_slices(case, obj):
    out = []
    for path, _elem, _n, keys, idx in case["slices"]:
        rows = []
        for key in keys:
            row = []
            for i in idx:
                try:
                    arr = follow(obj.from_bits(case["sim_raws"][i]), path)
                    row.append(slice_result(arr[slice(*key)]))
                except Exception as e:
                    row.append(("error", errkind(e), repr(e)[:120]))
            rows.append(row)
        out.append(rows)
    return out


def follow(view, path):
    x = view
    for k in path:
        x = x[k]
    return x


def simulate(case, env, obj, lay):
    from amaranth.hdl import Signal, Module, Value, Shape, Const as HConst
    from amaranth.lib import data
    from amaranth.sim import Simulator, Period
    from amaranth.back import rtlil
    out = {}
    size = lay.size
    try:
        sig = Signal(obj, name="sig")
    except Exception as e:
        out["signal"] = ("error", errkind(e), repr(e)[:160])
        return out
    out["signal"] = ("ok",)
    try:
        like = Signal.like(sig)
        out["like"] = ("ok", Value.cast(like).init)
    except Exception as e:
        out["like"] = ("error", errkind(e), repr(e)[:160])
    m = Module()
    base = Signal(size, name="base")
    m.d.sync += Signal(name="dummy").eq(1)
    read_objs = []
    for path in case["read_paths"]:
        try:
            read_objs.append(("ok", follow(sig, path)))
        except Exception as e:
            read_objs.append(("error", errkind(e), repr(e)[:120]))
    # circuit writes: dst = base with one field replaced (later assignment wins per bit)
    cw = []
    for path, _fs in case["write_paths"]:
        try:
            dst = Signal(obj, name="dst")
            fld = follow(dst, path)
            fshape = Shape.cast(Value.cast(fld).shape())
            val = Signal(fshape, name="val")
            m.d.comb += Value.cast(dst).eq(base)
            m.d.comb += fld.eq(val)
            reg = Signal(obj, name="reg")
            rfld = follow(reg, path)
            m.d.sync += rfld.eq(val)
            cw.append(("ok", dst, val, reg, (fshape.width, fshape.signed)))
        except Exception as e:
            cw.append(("error", errkind(e), repr(e)[:120]))
    # dynamic index of the first array on a path
    dyn = None
    if case["dyn"] is not None:
        prefix, n = case["dyn"]
        try:
            arr = follow(sig, prefix)
            idx = Signal(range(max(n, 1)), name="idx")
            dyn = ("ok", arr[idx], idx)
        except Exception as e:
            dyn = ("error", errkind(e), repr(e)[:120])
    # slices of array views (the first SLICE_SIM_RAWS raws of each sliced array)
    slice_views = []
    for path, _elem, _n, keys, _idx in case.get("slices", []):
        vs = []
        for key in keys:
            try:
                vs.append(("ok", follow(sig, path)[slice(*key)]))
            except Exception as e:
                vs.append(("error", errkind(e), repr(e)[:120]))
        slice_views.append(vs)
    res = {"reads": [], "tbw": [], "cw": [], "sw": [], "dyn": [], "dynw_tb": [], "dynw_proc": [], "slices": []}
    req = Signal(name="req")
    cmd = {}

    def field_value(fld, fs, v):
        if fs[0] == "enum":
            return env.enum_class(fs[1])(v)
        if fs[0] == "p":
            return v
        return fld.shape().from_bits(v)

    async def writer(ctx):
        # a simulator process that performs the write it is told to
        async for _ in ctx.changed(req):
            if not cmd:
                continue
            try:
                ctx.set(cmd["target"], cmd["value"])
                cmd["result"] = ("ok",)
            except Exception as e:
                cmd["result"] = ("error", errkind(e), repr(e)[:120])

    async def tb(ctx):
        for raw in case["sim_raws"]:
            ctx.set(Value.cast(sig), raw)
            row = []
            for ro in read_objs:
                if ro[0] != "ok":
                    row.append("err:" + ro[1])
                else:
                    row.append(attempt(lambda ro=ro: ctx.get(ro[1])))
            res["reads"].append(row)
            if dyn is not None and dyn[0] == "ok":
                drow = []
                for i in range(case["dyn"][1]):
                    ctx.set(dyn[2], i)
                    drow.append(attempt(lambda: ctx.get(dyn[1])))
                res["dyn"].append(drow)
        # slices of array views
        for (path, _elem, _n, keys, idx), vs in zip(case.get("slices", []), slice_views):
            rows = []
            for v in vs:
                row = []
                for i in idx[:SLICE_SIM_RAWS]:
                    if v[0] != "ok":
                        row.append(v)
                        continue
                    ctx.set(Value.cast(sig), case["sim_raws"][i])
                    try:
                        row.append(slice_result(ctx.get(v[1])))
                    except Exception as e:
                        row.append(("error", errkind(e), repr(e)[:120]))
                rows.append(row)
            res["slices"].append(rows)
        # testbench writes through the field
        for (path, fs), cases_ in zip(case["write_paths"], case["writes"]):
            row = []
            for raw, v, vinit in cases_:
                ctx.set(Value.cast(sig), raw)
                try:
                    fld = follow(sig, path)
                    if fs[0] == "enum":
                        pyv = env.enum_class(fs[1])(v)
                    elif fs[0] == "p":
                        pyv = v
                    else:
                        pyv = fld.shape().from_bits(v)
                    ctx.set(fld, pyv)
                    row.append(("ok", ctx.get(Value.cast(sig))))
                except Exception as e:
                    row.append(("error", errkind(e), repr(e)[:120]))
            res["tbw"].append(row)
        # writes through (fields of) a dynamically indexed array element: from the testbench and from a process
        if dyn is not None and dyn[0] == "ok":
            for i, sub, fs, cases_ in case.get("dyn_writes", []):
                trow, prow = [], []
                for raw, v in cases_:
                    for how, row in (("tb", trow), ("proc", prow)):
                        ctx.set(Value.cast(sig), raw)
                        ctx.set(dyn[2], i)
                        try:
                            fld = follow(dyn[1], sub)
                            pyv = field_value(fld, fs, v)
                            if how == "tb":
                                ctx.set(fld, pyv)
                            else:
                                cmd.clear()
                                cmd.update(target=fld, value=pyv)
                                ctx.set(req, 1 - ctx.get(req))
                                if cmd.get("result", ("ok",))[0] != "ok":
                                    row.append(cmd["result"])
                                    continue
                            row.append(("ok", ctx.get(Value.cast(sig))))
                        except Exception as e:
                            row.append(("error", errkind(e), repr(e)[:120]))
                res["dynw_tb"].append(trow)
                res["dynw_proc"].append(prow)
        # circuit writes (comb), then registered writes (sync)
        for c, cases_ in zip(cw, case["writes"]):
            row = []
            srow = []
            if c[0] != "ok":
                res["cw"].append([("error", c[1], c[2])])
                res["sw"].append([("error", c[1], c[2])])
                continue
            _ok, dst, val, reg, (fw, fsig) = c
            for raw, v, _vinit in cases_:
                nv = v & ((1 << fw) - 1)
                if fsig and fw and nv >> (fw - 1):
                    nv -= 1 << fw
                ctx.set(base, raw)
                ctx.set(val, nv)
                row.append(("ok", ctx.get(Value.cast(dst))))
            for raw, v, _vinit in cases_[:2]:
                nv = v & ((1 << fw) - 1)
                if fsig and fw and nv >> (fw - 1):
                    nv -= 1 << fw
                ctx.set(Value.cast(reg), raw)
                ctx.set(val, nv)
                await ctx.tick()
                srow.append(("ok", ctx.get(Value.cast(reg))))
            res["cw"].append(row)
            res["sw"].append(srow)

    try:
        sim = Simulator(m)
        sim.add_clock(Period(MHz=1))
        sim.add_process(writer)
        sim.add_testbench(tb)
        sim.run()
        out["run"] = ("ok",)
    except Exception as e:
        out["run"] = ("error", errkind(e), traceback.format_exc()[-400:])
    out.update(res)
    out["read_errors"] = [ro[1:] if ro[0] != "ok" else None for ro in read_objs]
    out["dyn_error"] = dyn[1:] if dyn is not None and dyn[0] != "ok" else None
    if case["rtlil"]:
        try:
            ports = [base] + [c[2] for c in cw if c[0] == "ok"] + [Value.cast(c[1]) for c in cw if c[0] == "ok"]
            text = rtlil.convert(m, ports=ports)
            out["rtlil"] = ("ok", "module" in text)
        except Exception as e:
            out["rtlil"] = ("error", errkind(e), repr(e)[:160])
    return out


def seq_observe(sc):
    """a sequence of constructions on ONE class object (built once, never rebuilt between the calls)"""
    import warnings
    warnings.simplefilter("ignore")
    from amaranth.hdl import Signal, Module, Value
    from amaranth.lib import data
    from amaranth.sim import Simulator
    l, enums = sc["layout"], sc["enums"]
    env = Env(enums)
    obs = {}
    try:
        members = {n: env.shape(fs) for n, fs in l[1]}
        descr = dict(l[1])
        ns = {"__annotations__": dict(members)}
        for n, dinit in sc["defaults"]:
            ns[n] = build_init(dinit, members[n], None, descr[n], env)
        base = data.Struct if l[0] == "struct" else data.Union
        cls = type(base)("Seq", (base,), ns)
        keys = [k for k, _f in data.Layout.cast(cls)]
    except Exception as e:
        obs["build"] = ("error", errkind(e), traceback.format_exc()[-300:])
        return obs
    obs["build"] = ("ok",)
    obs["keys"] = keys
    steps, sigs = [], []
    for op, init in sc["ops"]:
        try:
            pyinit = build_init(init, cls, None, l, env)
        except Exception as e:
            steps.append(("harness-error", errkind(e), traceback.format_exc()[-300:]))
            continue
        try:
            if op == "const":
                c = cls.const(pyinit)
                steps.append(("ok", c.as_bits(), [attempt(lambda k=k: c[k]) for k in keys]))
            else:
                s = Signal(cls, init=pyinit) if op == "siginit" else Signal(cls)
                steps.append(("ok", Value.cast(s).init, len(sigs)))
                sigs.append(s)
        except Exception as e:
            steps.append(("error", errkind(e), repr(e)[:120]))
    obs["steps"] = steps
    # the registers' reset values and their fields, in simulation
    simres = []
    m = Module()
    m.d.sync += Signal(name="dummy").eq(1)
    for j, s in enumerate(sigs):
        m.d.sync += Value.cast(s).eq(Value.cast(s))

    async def tb(ctx):
        for s in sigs:
            try:
                whole = ctx.get(Value.cast(s))
            except Exception as e:
                simres.append(("error", errkind(e), repr(e)[:120]))
                continue
            simres.append(("ok", whole, [attempt(lambda k=k: ctx.get(s[k])) for k in keys]))
    try:
        from amaranth.sim import Period
        sim = Simulator(m)
        sim.add_clock(Period(MHz=1))
        sim.add_testbench(tb)
        sim.run()
        obs["run"] = ("ok",)
    except Exception as e:
        obs["run"] = ("error", errkind(e), traceback.format_exc()[-300:])
    obs["sim"] = simres
    return obs


def seq_job(scs):
    out = []
    for sc in scs:
        try:
            out.append(seq_observe(sc))
        except Exception as e:
            out.append({"crash": (errkind(e), traceback.format_exc()[-600:])})
    return out


def layout_job(cases):
    out = []
    for case in cases:
        try:
            out.append(observe(case))
        except Exception as e:
            out.append({"crash": (errkind(e), traceback.format_exc()[-600:])})
    return out


# --- round-3 stream (worker) --------------------------------------------------------------------

WMEM_DEPTH = 3


def r3_build_top(case, env):
    """the shape object: a Struct/Union class declaring the case's field defaults, or the plain layout"""
    from amaranth.lib import data
    l = case["layout"]
    if not case["defaults"]:
        return env.layout(l)
    members = {n: env.shape(fs) for n, fs in l[1]}
    descr = dict(l[1])
    ns = {"__annotations__": dict(members)}
    for n, dinit in case["defaults"]:
        ns[n] = build_init(dinit, members[n], None, descr[n], env)
    base = data.Struct if l[0] == "struct" else data.Union
    return type(base)("R3", (base,), ns)


def r3_observe(case):
    import warnings
    warnings.simplefilter("ignore")
    from amaranth.hdl import Signal, Module, Value, ClockDomain, Const as HConst
    from amaranth.lib import data
    from amaranth.lib.memory import Memory
    from amaranth.sim import Simulator, Period
    l, enums = case["layout"], case["enums"]
    env = Env(enums)
    obs = {}
    try:
        obj = r3_build_top(case, env)
        lay = data.Layout.cast(obj)
        keys = [k for k, _f in lay]
    except Exception as e:
        obs["build"] = ("error", errkind(e), traceback.format_exc()[-300:])
        return obs
    obs["build"] = ("ok",)
    obs["keys"] = keys
    size = lay.size
    m = Module()
    m.domains.sync = cd = ClockDomain("sync")
    m.d.sync += Signal(name="dummy").eq(1)
    watched = []                     # (signal or view, has fields)

    def watch(s, is_view):
        watched.append((s, is_view))
        m.d.sync += Value.cast(s).eq(Value.cast(s))
        return len(watched) - 1
    # --- originals and copies
    pyinits, origs = [], []
    for init in case["origs"]:
        try:
            pyinits.append(("ok", build_init(init, obj, None, l, env)))
        except Exception as e:
            pyinits.append(("harness-error", errkind(e), traceback.format_exc()[-300:]))
    for p in pyinits:
        if p[0] != "ok":
            origs.append(p)
            continue
        try:
            s = Signal(obj, name="orig", init=p[1])
            origs.append(("ok", Value.cast(s).init, watch(s, True), s))
        except Exception as e:
            origs.append(("error", errkind(e), repr(e)[:120]))
    likes = []
    for o, vs in zip(origs, case["likes"]):
        row = []
        for v in vs:
            if o[0] != "ok":
                row.append(("skipped",))
                continue
            s = o[3]
            try:
                is_view = True
                if v[0] == "plain":
                    c = Signal.like(s)
                elif v[0] == "name":
                    c = Signal.like(s, name="cpy")
                elif v[0] == "suffix":
                    c = Signal.like(s, name_suffix="_sfx")
                elif v[0] == "reset_less":
                    c = Signal.like(s, reset_less=True)
                elif v[0] == "attrs":
                    c = Signal.like(s, attrs={"keep": 1}, name="cpy")
                elif v[0] == "init":
                    if pyinits[v[1]][0] != "ok":
                        row.append(("skipped",))
                        continue
                    c = Signal.like(s, init=pyinits[v[1]][1])
                elif v[0] == "cast":
                    c = Signal.like(Value.cast(s))
                    is_view = False
                else:
                    c = Signal.like(Signal.like(s, name="mid"))
                cv = Value.cast(c)
                row.append(("ok", cv.init, watch(c, is_view), cv.name, cv.reset_less, type(c) is type(s) if is_view else isinstance(c, Signal),
                            (len(cv), cv.shape().signed)))
            except Exception as e:
                row.append(("error", errkind(e), repr(e)[:160]))
        likes.append(row)
    obs["origs"] = [o[:3] for o in origs]
    obs["likes"] = likes
    # --- signals shaped by the enumerations of the case
    esigs = []
    for eid, v in case["enum_sigs"]:
        try:
            cls = env.enum_class(eid)
            s = Signal(cls, name="en", init=cls(v))
            c = Signal.like(s)
            c2 = Signal.like(s, name="en2")
            esigs.append(("ok", [Value.cast(x).init for x in (s, c, c2)], [s, c, c2]))
            for x in (s, c, c2):
                m.d.sync += Value.cast(x).eq(Value.cast(x))
        except Exception as e:
            esigs.append(("error", errkind(e), repr(e)[:160]))
    # --- scripts
    sig = Signal(obj, name="sig")
    req = Signal(name="req")
    cmd = {}

    def field_value(shape, fs, v):
        if fs[0] == "enum":
            return env.enum_class(fs[1])(v)
        if fs[0] == "p":
            return v
        return shape.from_bits(v)

    def script_sets(s, root=None):
        root = sig if root is None else root
        if s["what"] == "slice":
            arr = follow(root, s["path"])
            target = arr[slice(*s["key"])]
            eshape = arr.shape().elem_shape
            return [(target, [field_value(eshape, fs, v) for _p, fs, v in s["steps"]])]
        out = []
        for p, fs, v in s["steps"]:
            fld = follow(root, p)
            out.append((fld, field_value(fld.shape() if fs[0] not in ("p", "enum") else None, fs, v)))
        return out

    async def writer(ctx):
        async for _ in ctx.changed(req):
            cmd["result"] = ("ok",)
            for target, value in cmd.get("sets", ()):
                try:
                    ctx.set(target, value)
                except Exception as e:
                    cmd["result"] = ("error", errkind(e), repr(e)[:120])
                    break
    # --- memories
    mems = []
    for md in case["mems"]:
        try:
            rows = [build_init(r, obj, None, l, env) for r in md["rows"]]
        except Exception as e:
            mems.append(("harness-error", errkind(e), traceback.format_exc()[-300:]))
            continue
        try:
            if md["via_setter"]:
                mem = Memory(shape=obj, depth=md["depth"], init=[None] * md["depth"])
                mem.init = rows
            else:
                mem = Memory(shape=obj, depth=md["depth"], init=rows)
            rd = mem.read_port(domain="comb")
            m.submodules[f"mem{len(mems)}"] = mem
            held = []
            for i in range(md["depth"]):
                x = mem.init[i]
                held.append("none" if x is None else "given")
            raw = getattr(mem.init, "_raw", None)
            mems.append(("ok", mem, rd, held, list(raw) if raw is not None else None))
        except Exception as e:
            mems.append(("error", errkind(e), repr(e)[:160]))
    obs["mems"] = [mm[:1] + mm[3:] if mm[0] == "ok" else mm for mm in mems]
    # round 4: a memory whose rows the scripts write into, field by field (ctx.set(mem.data[i].f, v))
    wmem = wrd = None
    if case["scripts"]:
        try:
            wmem = Memory(shape=obj, depth=WMEM_DEPTH, init=[])
            wrd = wmem.read_port(domain="comb")
            m.submodules["wmem"] = wmem
            obs["wmem"] = ("ok",)
        except Exception as e:
            wmem = None
            obs["wmem"] = ("error", errkind(e), repr(e)[:160])
    res = {"time0": [], "after_reset": [], "enum0": [], "scripts": [], "memrows": []}
    mask = (1 << size) - 1

    async def tb(ctx):
        for s, is_view in watched:
            try:
                whole = ctx.get(Value.cast(s))
                res["time0"].append(("ok", whole, [attempt(lambda k=k: ctx.get(s[k])) for k in keys] if is_view else None))
            except Exception as e:
                res["time0"].append(("error", errkind(e), repr(e)[:120]))
        for es in esigs:
            res["enum0"].append([attempt(lambda x=x: ctx.get(x)) for x in es[2]] if es[0] == "ok" else None)
        for mm in mems:
            if mm[0] != "ok":
                res["memrows"].append(None)
                continue
            _ok, mem, rd, _held, _raw = mm
            rows = []
            for i in range(mem.depth):
                try:
                    row = mem.data[i]
                    whole = ctx.get(Value.cast(row))
                    lifted = attempt(lambda: ctx.get(row))
                    fields = [attempt(lambda k=k: ctx.get(row[k])) for k in keys]
                    ctx.set(rd.addr, i)
                    port = ctx.get(Value.cast(rd.data))
                    pfields = [attempt(lambda k=k: ctx.get(rd.data[k])) for k in keys]
                    rows.append(("ok", whole, lifted, fields, port, pfields))
                except Exception as e:
                    rows.append(("error", errkind(e), repr(e)[:120]))
            res["memrows"].append(rows)
        # scripts: from the testbench (slice: ONE ctx.set; fields: one ctx.set per field, a delta cycle after each) and
        # from a process (all ctx.set calls before the next delta cycle)
        for s in case["scripts"]:
            r = {}
            for how in ("tb", "proc"):
                try:
                    sets = script_sets(s)
                    ctx.set(Value.cast(sig), s["raw"])
                    if how == "tb":
                        for target, value in sets:
                            ctx.set(target, value)
                    else:
                        cmd.clear()
                        cmd["sets"] = sets
                        ctx.set(req, 1 - ctx.get(req))
                        if cmd.get("result", ("error", "other:not-run", ""))[0] != "ok":
                            r[how] = cmd.get("result", ("error", "other:not-run", ""))
                            continue
                    r[how] = ("ok", ctx.get(Value.cast(sig)))
                except Exception as e:
                    r[how] = ("error", errkind(e), repr(e)[:160])
            # round 4: the same writes through the view of a memory row holding the same bits (the other rows hold the
            # complement); afterwards the row (directly, through a comb read port, field by field) and the other rows
            si = len(res["scripts"])
            for how in ("mtb", "mproc") if wmem is not None else ():
                try:
                    tr = si % WMEM_DEPTH
                    rowv = wmem.data[tr]
                    sets = script_sets(s, rowv)
                    for j in range(WMEM_DEPTH):
                        ctx.set(Value.cast(wmem.data[j]), s["raw"] if j == tr else ~s["raw"] & mask)
                    if how == "mtb":
                        for target, value in sets:
                            ctx.set(target, value)
                    else:
                        cmd.clear()
                        cmd["sets"] = sets
                        ctx.set(req, 1 - ctx.get(req))
                        if cmd.get("result", ("error", "other:not-run", ""))[0] != "ok":
                            r[how] = cmd.get("result", ("error", "other:not-run", ""))
                            continue
                    ctx.set(wrd.addr, tr)
                    r[how] = ("ok", ctx.get(Value.cast(rowv)), ctx.get(Value.cast(wrd.data)),
                              [ctx.get(Value.cast(wmem.data[j])) for j in range(WMEM_DEPTH) if j != tr],
                              [attempt(lambda k=k: ctx.get(rowv[k])) for k in keys])
                except Exception as e:
                    r[how] = ("error", errkind(e), repr(e)[:160])
            res["scripts"].append(r)
        # reset: every watched register returns to its initial value (a reset-less one keeps what it holds)
        for s, _v in watched:
            ctx.set(Value.cast(s), case["scramble"] & mask)
        ctx.set(cd.rst, 1)
        await ctx.tick()
        ctx.set(cd.rst, 0)
        for s, _v in watched:
            res["after_reset"].append(ctx.get(Value.cast(s)))
    try:
        sim = Simulator(m)
        sim.add_clock(Period(MHz=1))
        sim.add_process(writer)
        sim.add_testbench(tb)
        sim.run()
        obs["run"] = ("ok",)
    except Exception as e:
        obs["run"] = ("error", errkind(e), traceback.format_exc()[-400:])
    obs.update(res)
    obs["esigs"] = [es[:2] if es[0] == "ok" else es for es in esigs]
    return obs


def r3_job(cases):
    out = []
    for case in cases:
        try:
            out.append(r3_observe(case))
        except Exception as e:
            out.append({"crash": (errkind(e), traceback.format_exc()[-600:])})
    return out


# --- enumerations and flags (worker) ------------------------------------------------------------

def enum_job(jobs):
    import warnings
    warnings.simplefilter("ignore")
    import enum as py_enum
    import operator
    from amaranth.hdl import Signal, Module, Value, Const as HConst, Shape
    from amaranth.sim import Simulator
    from amaranth.back import rtlil
    out = []
    for e, values, pairs, want_rtlil in jobs:
        kind, w, s, members = e
        env = Env([e])
        r = {}
        try:
            cls = env.enum_class(0)
        except Exception as ex:
            out.append({"class": ("error", errkind(ex), repr(ex)[:160])})
            continue
        r["class"] = ("ok", (Shape.cast(cls).width, Shape.cast(cls).signed))
        cs, fbs = [], []
        for v in values:
            try:
                cs.append(("ok", HConst.cast(cls.const(v)).value))
            except Exception as ex:
                cs.append(("error", errkind(ex)))
            try:
                mem = cls.from_bits(v)
                if not isinstance(mem, cls):
                    fbs.append(("ejected", mem))
                else:
                    try:
                        back = ("ok", HConst.cast(cls.const(mem)).value)
                    except Exception as ex:
                        back = ("error", errkind(ex))
                    fbs.append(("ok", mem.value, back))
            except Exception as ex:
                fbs.append(("error", errkind(ex)))
        r["const"], r["frombits"] = cs, fbs
        try:
            r["none"] = ("ok", HConst.cast(cls.const(None)).value)
        except Exception as ex:
            r["none"] = ("error", errkind(ex))
        if kind == "e" and want_rtlil:
            try:
                first = cls(members[0][1])
                a, o = Signal(cls, name="a", init=first), Signal(cls, name="o", init=first)
                m = Module()
                m.d.comb += o.eq(a)
                text = rtlil.convert(m, ports=[Value.cast(a), Value.cast(o)])
                r["rtlil"] = ("ok", "module" in text)
            except Exception as ex:
                r["rtlil"] = ("error", errkind(ex), repr(ex)[:160])
        if kind != "e":
            PF = py_enum.Flag("PF", list(members), boundary=getattr(py_enum, kind.upper()))
            BINOPS = {"and": operator.and_, "or": operator.or_, "xor": operator.xor}
            a, b = Signal(cls, name="a"), Signal(cls, name="b")
            m = Module()
            outs = {}
            try:
                for name, f in [("and", lambda: a & b), ("or", lambda: a | b), ("xor", lambda: a ^ b), ("inv", lambda: ~a)]:
                    o = Signal(cls, name="o_" + name)
                    m.d.comb += o.eq(f())
                    outs[name] = (o, f())
                r["build"] = ("ok",)
            except Exception as ex:
                r["build"] = ("error", errkind(ex), repr(ex)[:160])
                out.append(r)
                continue
            rows = []

            def oracle(name, x, y):
                try:
                    px, py = PF(x), PF(y)
                    if not isinstance(px, PF) or not isinstance(py, PF):
                        return ("novalue",)
                    res = {"and": operator.and_, "or": operator.or_, "xor": operator.xor}[name](px, py) if name != "inv" else ~px
                    if isinstance(res, PF):
                        return ("ok", res.value)
                    return ("ejected", res)
                except Exception as ex:
                    return ("error", errkind(ex))

            async def tb(ctx):
                for x, y in pairs:
                    ctx.set(Value.cast(a), x)
                    ctx.set(Value.cast(b), y)
                    row = {}
                    for name, (o, expr) in outs.items():
                        try:
                            circ = ctx.get(Value.cast(o))
                            tbv = ctx.get(Value.cast(expr))
                            try:
                                lifted = ctx.get(expr)
                                lifted = ("ok", lifted.value) if isinstance(lifted, cls) else ("ejected", lifted)
                            except Exception as ex:
                                lifted = ("error", errkind(ex))
                            row[name] = ("ok", circ, tbv, lifted, oracle(name, x, y))
                        except Exception as ex:
                            row[name] = ("error", errkind(ex), repr(ex)[:120])
                    # round 4: a plain Python member of the class as ONE operand, in both operand orders
                    # (`view op member` runs FlagView.__op__, `member op view` runs FlagView.__rop__ after
                    # Python's Flag.__op__ returned NotImplemented); same oracle as view op view
                    for name, f in BINOPS.items():
                        forms = {}
                        for form, build in [("vm", lambda: f(a, cls(y))), ("mv", lambda: f(cls(x), b))]:
                            try:
                                expr = build()
                                isview = type(expr) is type(a) and expr.shape() is cls
                                forms[form] = ("ok", ctx.get(Value.cast(expr)), isview)
                            except Exception as ex:
                                forms[form] = ("error", errkind(ex), repr(ex)[:120])
                        row["mixed_" + name] = forms
                    rows.append(row)
            try:
                sim = Simulator(m)
                sim.add_testbench(tb)
                sim.run()
                r["run"] = ("ok",)
            except Exception as ex:
                r["run"] = ("error", errkind(ex), traceback.format_exc()[-300:])
            r["rows"] = rows
            # value-typed right operand and reflected operators
            try:
                member = cls(combinations(e)[-1])
                r["mixed"] = ("ok", repr(a & member) != "", repr(member | a) != "")
            except Exception as ex:
                r["mixed"] = ("error", errkind(ex), repr(ex)[:120])
            if want_rtlil:
                try:
                    text = rtlil.convert(m, ports=[Value.cast(a), Value.cast(b)] + [Value.cast(o) for o, _ in outs.values()])
                    r["rtlil"] = ("ok", "module" in text)
                except Exception as ex:
                    r["rtlil"] = ("error", errkind(ex), repr(ex)[:160])
        out.append(r)
    return out


# ------------------------------------------------------------------------------------------------
# slices of array constants and array views (generator side)

def gen_slice_key(rng, n):
    """(start, stop, step) of a Python slice for an array of n elements: mostly |step| >= 2, open ends,
    negative and out-of-range bounds; two thirds of the keys have their bounds on the sides the step walks between
    (so that most keys select something), the rest takes any two bounds"""
    low = [None, None, 0, 0, 1, 2, -n, -n - 1, -n + 1, n // 2]
    high = [None, None, n, n - 1, n - 2, n + 1, n + 3, -1, -2, n // 2 + 1]
    r = rng.random()
    if r < 0.62:
        step = rng.choice([2, -2, 2, -2, 3, -3, 3, -3, 4, -4, 5, -5])
    elif r < 0.80:
        step = rng.choice([None, 1])
    else:
        step = -1
    if rng.random() < 0.67:
        a, b = rng.choice(low), rng.choice(high)
        return (a, b, step) if (step is None or step > 0) else (b, a, step)
    return (rng.choice(low + high), rng.choice(low + high), step)


def all_slice_keys(n):
    bounds = [None, 0, 1, 2, n - 1, n, n + 2, -1, -2, -n, -n - 1]
    return [(a, b, s) for a in bounds for b in bounds for s in (None, -1, 2, -2, 3, -3, 4)]


def slice_class(key, n):
    """which kind of selection the key makes on n elements (histogram key; also decides the one tolerated raise)"""
    start, stop, stride = slice(*key).indices(n)
    cnt = len(range(start, stop, stride))
    if stride == 1 and stop < start:
        return "unit_step_reversed_bounds"
    if cnt == 0:
        return "empty"
    if stride == 1:
        return "unit_step"
    if stride == -1:
        return "step_-1"
    return "strided_span_multiple_of_step" if (stop - start) % stride == 0 else "strided_span_not_multiple_of_step"


def add_slices(rng, case, n_keys=6, n_arrays=2, all_keys=False):
    """choose arrays of the case's layout (the layout itself, or reached through a field path that is among the
    simulated read paths) and slice keys for them; case["slices"] = [(path, elem_fs, n, keys, raw_indices)] where
    raw_indices index case["sim_raws"]; the first few of them are also read through a view in simulation"""
    l, enums = case["layout"], case["enums"]
    cands = [((), l)] if l[0] == "array" else []
    readable = set(map(tuple, case["read_paths"]))
    cands += [(tuple(p), fs) for p, fs in all_paths(l, enums) if fs[0] == "array" and tuple(p) in readable]
    out = []
    if cands:
        rng.shuffle(cands)
        # an array with at least three elements first, when there is one (a strided slice needs something to skip)
        cands.sort(key=lambda c: c[1][2] < 3)
        for path, arr in cands[:n_arrays]:
            n = arr[2]
            if all_keys:
                keys = all_slice_keys(n)
            else:
                keys = []
                for _ in range(n_keys * 3):
                    k = gen_slice_key(rng, n)
                    if k not in keys:
                        keys.append(k)
                    if len(keys) >= n_keys:
                        break
            nraw = len(case["sim_raws"])
            idx = sorted(rng.sample(range(nraw), min(nraw, 4 if all_keys else 6)))
            out.append((path, arr[1], n, keys, idx))
    case["slices"] = out


def ser_path(p):
    return "(" + " ".join(ser_key(k) for k in p) + ")"


def slice_requests1(case):
    """first round: the placement of every sliced array layout (element offsets and widths: model and spec)"""
    return [f"(layout (array {ser_fs(elem, case['enums'])} {n}))" for _p, elem, n, _k, _i in case.get("slices", [])]


def slice_array_bits(case, resps, a):
    """the bit pattern of sliced array number a for each of its raws, according to the Spec reading of the path
    (the model's reading of the same path is compared with it by the ordinary read-path comparison)"""
    path, _elem, _n, _keys, idx = case["slices"][a]
    raws = [case["sim_raws"][i] for i in idx]
    if not path:
        return raws
    j = [tuple(p) for p in case["read_paths"]].index(tuple(path))
    base = 2 + len(case["inits"])
    parts = resps[base + j].split(" ; ")[1:]
    out = []
    for i in idx:
        sp = common.kv(parts[i])["sp"]
        out.append(int(sp[1:]) if sp.startswith("c") else None)
    return out


def slice_requests2(case, resps):
    """second round: every element of the sliced arrays, read from the bits found in the first round"""
    reqs = []
    for a, (_p, elem, n, _k, _i) in enumerate(case.get("slices", [])):
        bits = slice_array_bits(case, resps, a)
        reqs.append(f"(read (array {ser_fs(elem, case['enums'])} {n}) " + " ".join(str(b if b is not None else 0) for b in bits) + ")")
    return reqs


# ------------------------------------------------------------------------------------------------
# sequences of constructions on ONE Struct/Union class that declares field defaults (generator side)

def gen_seq_init(rng, kind, fields, enums):
    r = rng.random()
    if r < 0.07:
        return ("none",)
    if r < 0.12:
        size = layout_size((kind, fields, True), enums)
        return ("bits", rng.getrandbits(size) if size else 0)
    if kind == "union":
        k = 1 if rng.random() < 0.85 else (0 if rng.random() < 0.7 else 2)
        chosen = rng.sample(list(fields), min(k, len(fields)))
    else:
        p = rng.choice([0.2, 0.4, 0.4, 0.6])
        chosen = [f for f in fields if rng.random() < p]
        rng.shuffle(chosen)
    kvs = [(nm, gen_value(rng, fs, enums, 0.0)) for nm, fs in chosen]
    if rng.random() < 0.04:
        kvs.append(("nosuch", ("int", 0, "int")))
    return ("map", tuple(kvs), False)


def make_seq_case(rng):
    enums = []
    kind = "struct" if rng.random() < 0.8 else "union"
    for _ in range(40):
        enums.clear()
        n = rng.choice([1, 2, 2, 3, 3, 4, 5])
        names = rng.sample(NAMES, n)
        depth = rng.choice([0, 0, 1, 1, 2])
        fields = tuple((nm, gen_fs(rng, depth, enums, None)) for nm in names)
        if layout_size((kind, fields, True), enums) <= 64:
            break
    if kind == "struct":
        dflt = [(nm, fs) for nm, fs in fields if rng.random() < 0.6]
        if not dflt and rng.random() < 0.85:
            dflt = [rng.choice(fields)]
    else:
        dflt = [rng.choice(fields)] if rng.random() < 0.7 else []
    defaults = tuple((nm, gen_value(rng, fs, enums, 0.0)) for nm, fs in dflt)
    ops = []
    for _ in range(rng.randint(3, 7)):
        r = rng.random()
        if r < 0.42:
            ops.append(("const", gen_seq_init(rng, kind, fields, enums)))
        elif r < 0.80:
            ops.append(("siginit", gen_seq_init(rng, kind, fields, enums)))
        else:
            ops.append(("signal", ("none",)))
    return {"layout": (kind, fields, True), "enums": list(enums), "defaults": defaults, "ops": ops,
            "size": layout_size((kind, fields, True), enums)}


SEQ_CORPUS = [
    # the documented way of declaring reset values: a header with three defaults; later calls leave out earlier fields
    {"layout": ("struct", (("kind", ("p", 3, False, "fn")), ("delta", ("p", 4, True, "fn")), ("flag", ("p", 1, False, "fn")),
                           ("tag", ("p", 8, False, "fn"))), True), "enums": [],
     "defaults": (("kind", ("int", 5, "int")), ("delta", ("int", -2, "int")), ("tag", ("int", 0xA5, "int"))),
     "ops": [("const", ("none",)), ("siginit", ("map", (("flag", ("int", 1, "int")),), False)),
             ("const", ("map", (("kind", ("int", 2, "int")), ("delta", ("int", 7, "int"))), False)),
             ("const", ("map", (("tag", ("int", 60, "int")),), False)), ("signal", ("none",)),
             ("siginit", ("map", (), False)), ("const", ("map", (("delta", ("int", 1, "int")),), False))]},
    {"layout": ("union", (("a", ("p", 4, False, "int")), ("b", ("p", 2, True, "fn"))), True), "enums": [],
     "defaults": (("a", ("int", 9, "int")),),
     "ops": [("const", ("map", (("b", ("int", -1, "int")),), False)), ("signal", ("none",)), ("const", ("map", (), False)),
             ("siginit", ("map", (("a", ("int", 3, "int")),), False)), ("const", ("none",))]},
]


SLICE_CORPUS = [
    # array layouts sliced with every key of all_slice_keys (constants and views)
    {"layout": ("array", ("p", 4, False, "fn"), 5), "enums": []},
    {"layout": ("array", ("p", 3, True, "fn"), 4), "enums": []},
    {"layout": ("array", ("struct", (("a", ("p", 2, True, "fn")), ("b", ("p", 3, False, "fn"))), False), 5), "enums": []},
    {"layout": ("struct", (("h", ("p", 3, False, "fn")), ("arr", ("array", ("enum", 0), 7))), False),
     "enums": [("e", 2, False, (("A", 0), ("B", 1), ("C", 3)))]},
]


def merged_init(kind, defaults, init):
    """the initialiser one call denotes: the declared defaults overridden by exactly the fields THIS call names (a union
    class takes the call's field if it names one, its single default otherwise); computed on the abstract syntax"""
    if init[0] == "bits":
        return init
    named = init[1] if init[0] == "map" else ()
    if kind == "union":
        return ("map", tuple(named) if named else tuple(defaults), False)
    d = dict(defaults)
    for k, v in named:
        d[k] = v
    return ("map", tuple(d.items()), False)


def leaves_out_earlier(ops, i):
    """does call i leave out a field that an earlier call on the same class named?"""
    def named(init):
        return {k for k, _v in init[1]} if init[0] == "map" else set()
    if ops[i][1][0] == "bits":
        return False
    earlier = set()
    for _op, init in ops[:i]:
        earlier |= named(init)
    return bool(earlier - named(ops[i][1]))


def seq_requests1(sc):
    L = ser_layout(sc["layout"], sc["enums"])
    return [f"(layout {L})"] + [f"(const {L} {ser_init(merged_init(sc['layout'][0], sc['defaults'], init))})" for _op, init in sc["ops"]]


def seq_expected(resp):
    d = common.kv(resp)
    mm = d["model"].split(":")
    model = ("ok", int(mm[1])) if mm[0] == "ok" else ("err", mm[1])
    spec = ("ok", int(d["spec"])) if d["spec"] != "-" and mm[0] == "ok" else model
    return model, spec


def seq_requests2(sc, resps):
    """second round: the fields of every expected constant"""
    L = ser_layout(sc["layout"], sc["enums"])
    bits = [seq_expected(r)[1] for r in resps[1:]]
    bits = [b[1] for b in bits if b[0] == "ok"]
    return [f"(read {L} " + " ".join(str(b) for b in bits) + ")"] if bits else []


# ------------------------------------------------------------------------------------------------
# round-3 stream: copies of signals (Signal.like), several partial writes to one signal before the next delta cycle
# (one ctx.set on a strided slice of an array view; a process writing a record field by field), memories whose rows
# have a layout shape (empty / partial / full initialiser). Generator side.

def zero_value(rng, fs, enums):
    """an initialiser of a field whose bits are all zero (when the field's shape has such a value)"""
    if fs[0] == "p":
        return ("int", 0 if rng.random() < 0.8 else (1 << fs[1]), "int")
    if fs[0] == "enum":
        e = enums[fs[1]]
        vals = valid_values(e)
        return ("int", 0 if (enum_valid(e, 0) or not vals) else rng.choice(vals), rng.choice(["member", "int"]))
    return ("map", (), False) if rng.random() < 0.6 else ("bits", 0)


def drop_unknown_keys(init):
    if init[0] != "map":
        return init
    return ("map", tuple((k, v) for k, v in init[1] if k != "nosuch"), init[2])


def zero_init(rng, l, defaults, enums):
    """an initialiser that names every field with a declared default (and some others) with an all-zero value"""
    kind = l[0]
    fl = fields_of(l, enums)
    if not fl:
        return ("map", (), False)
    if kind == "union":
        if rng.random() < 0.3:
            return ("bits", 0)
        key, fs, _o, _w = rng.choice(fl)
        return ("map", ((key, zero_value(rng, fs, enums)),), False)
    named = {k for k, _v in defaults}
    chosen = [(key, fs) for key, fs, _o, _w in fl if key in named or rng.random() < 0.3]
    rng.shuffle(chosen)
    return ("map", tuple((key, zero_value(rng, fs, enums)) for key, fs in chosen), False)


R4_SINGLE_WRITES = 24


def top_paths(l, enums, limit=60):
    """the field paths (inner nodes included) whose field ends at the most significant bit of the layout and does not
    start at bit 0 of it, deepest first"""
    size = layout_size(l, enums)
    out = []

    def walk(lay, prefix, base):
        for key, fs, off, w in fields_of(lay, enums):
            if w > 0 and base + off + w == size and len(out) < limit:
                if base + off > 0:
                    out.append((prefix + (key,), fs))
                if fs[0] not in ("p", "enum"):
                    walk(fs, prefix + (key,), base + off)
    walk(l, (), 0)
    return out[::-1]


LIKE_VARIANTS = ["name", "suffix", "reset_less", "init", "cast", "twice", "attrs"]


def make_r3_case(rng, entry=None):
    if entry is not None:
        l, enums, defaults = entry["layout"], list(entry["enums"]), tuple(entry.get("defaults", ()))
    elif rng.random() < 0.55:
        sc = make_seq_case(rng)
        l, enums, defaults = sc["layout"], sc["enums"], sc["defaults"]
    elif rng.random() < 0.4:
        enums = []                            # an array long enough for strided slices that select several elements
        for _ in range(40):
            enums.clear()
            l = ("array", gen_fs(rng, rng.choice([0, 0, 1]), enums, None), rng.randint(3, 9))
            if 0 < layout_size(l, enums) <= 64:
                break
        defaults = ()
    else:
        enums = []
        for _ in range(40):
            enums.clear()
            l = gen_layout(rng, rng.choice([1, 2, 2, 3]) - 1, enums, None)
            if layout_size(l, enums) <= 64:
                break
        defaults = ()
    kind = l[0]
    size = layout_size(l, enums)
    paths = all_paths(l, enums)

    def rand_init():
        if kind in ("struct", "union") and l[2]:
            return drop_unknown_keys(gen_seq_init(rng, kind, l[1], enums))
        return gen_init(rng, l, enums, 0.0)
    # --- originals and their copies
    origs = [zero_init(rng, l, defaults, enums)]
    if entry is not None:
        origs += list(entry.get("origs", ()))
    for _ in range(rng.randint(2, 4)):
        r = rng.random()
        origs.append(zero_init(rng, l, defaults, enums) if r < 0.3 else (("none",) if r < 0.4 else rand_init()))
    likes = []
    for i in range(len(origs)):
        vs = [("plain",)]
        for v in rng.sample(LIKE_VARIANTS, 2):
            vs.append((v, rng.randrange(len(origs))) if v == "init" else (v,))
        likes.append(vs)
    enum_sigs = []
    for eid in range(min(len(enums), 2)):
        vals = valid_values(enums[eid])
        if vals:
            enum_sigs.append((eid, 0 if (0 in vals and rng.random() < 0.5) else rng.choice(vals)))
    # --- several partial writes to the signal before the next delta cycle
    scripts = []
    if size > 0:
        arrays = [((), l)] if kind == "array" else []
        arrays += [(tuple(p), fs) for p, fs in paths if fs[0] == "array"]
        arrays = [a for a in arrays if a[1][2] >= 2]
        rng.shuffle(arrays)
        arrays.sort(key=lambda a: a[1][2] < 3)
        keys_todo = list(entry.get("slice_keys", ())) if entry is not None else []
        for path, arr in arrays[:2]:
            n, elem = arr[2], arr[1]
            keys = [k for k in keys_todo]
            for _ in range(40):
                if len(keys) >= max(3, len(keys_todo)):
                    break
                k = gen_slice_key(rng, n)
                if k[2] in (None, 1, -1) and rng.random() < 0.7:
                    continue
                if len(range(n)[slice(*k)]) < 2 and rng.random() < 0.8:
                    continue
                if slice_class(k, n) != "unit_step_reversed_bounds" and k not in keys:
                    keys.append(k)
            for k in keys:
                idxs = list(range(n))[slice(*k)]
                scripts.append({"what": "slice", "path": path, "key": k, "n": n, "raw": rng.getrandbits(size),
                                "steps": [(path + (e,), elem, random_field_value(rng, elem, enums)) for e in idxs]})
        for _ in range(3):
            if not paths:
                break
            cnt = rng.randint(2, 4)
            picks = [rng.choice(paths) for _c in range(cnt)] if rng.random() < 0.3 else rng.sample(paths, min(cnt, len(paths)))
            scripts.append({"what": "fields", "raw": rng.getrandbits(size),
                            "steps": [(tuple(p), fs, random_field_value(rng, fs, enums)) for p, fs in picks]})
        # round 4: single writes of ONE field (the scripts also run on a memory row, see r3_observe): every path whose
        # field reaches the most significant bit of the layout (last struct field, last array element, widest union member,
        # nested last sub-fields), then the other paths, at most R4_SINGLE_WRITES per case
        tops = top_paths(l, enums)
        rest = [(p, fs) for p, fs in paths if (p, fs) not in tops]
        rng.shuffle(rest)
        for p, fs in (tops + rest)[:R4_SINGLE_WRITES]:
            scripts.append({"what": "fields", "single": True, "reaches_top": (p, fs) in tops, "raw": rng.getrandbits(size) | 1,
                            "steps": [(tuple(p), fs, random_field_value(rng, fs, enums))]})
    # --- memories with rows of this shape
    mems = []
    if entry is not None and size > 0:
        mems.append({"depth": 3, "rows": [], "via_setter": False})            # no row initialised: every row is the defaults
    if size > 0:
        for _ in range(rng.randint(1, 2)):
            depth = rng.randint(1, 4)
            r = rng.random()
            k = 0 if r < 0.4 else (depth if r < 0.65 else rng.randint(0, depth))
            mems.append({"depth": depth, "rows": [rand_init() if rng.random() < 0.8 else zero_init(rng, l, defaults, enums) for _r in range(k)],
                         "via_setter": rng.random() < 0.3})
    return {"layout": l, "enums": list(enums), "defaults": defaults, "size": size, "origs": origs, "likes": likes,
            "enum_sigs": enum_sigs, "scripts": scripts, "mems": mems, "scramble": rng.getrandbits(size) if size else 0}


R3_CORPUS = [
    # a header class whose three defaults are overridden by zeros; strided writes to its lanes
    {"layout": ("struct", (("kind", ("enum", 0)), ("tag", ("p", 4, False, "fn")), ("delta", ("p", 3, True, "fn")),
                           ("lanes", ("array", ("p", 3, False, "fn"), 5))), True),
     "enums": [("e", 2, False, (("IDLE", 0), ("RD", 1), ("WR", 2)))],
     "defaults": (("kind", ("int", 2, "member")), ("tag", ("int", 9, "int")), ("delta", ("int", -3, "int"))),
     "origs": [("map", (("kind", ("int", 0, "member")), ("tag", ("int", 0, "int")), ("delta", ("int", 0, "int"))), False)],
     "slice_keys": [(None, None, 2), (3, 0, -1), (None, None, -2), (1, None, 3)]},
    {"layout": ("array", ("p", 4, False, "fn"), 5), "enums": [], "slice_keys": [(None, None, 2), (3, 0, -1), (None, None, -3), (-1, None, -2)]},
    {"layout": ("union", (("a", ("p", 4, False, "int")), ("b", ("p", 2, True, "fn"))), True), "enums": [],
     "defaults": (("a", ("int", 9, "int")),), "origs": [("map", (("a", ("int", 0, "int")),), False), ("bits", 0)]},
]


def r3_merged(case, init):
    return merged_init(case["layout"][0], case["defaults"], init)


def r3_requests1(case):
    """the constant of the class defaults, of every original's initialiser, of every memory row (missing rows: the defaults)"""
    L = ser_layout(case["layout"], case["enums"])
    reqs = [f"(const {L} {ser_init(r3_merged(case, ('none',)))})"]
    reqs += [f"(const {L} {ser_init(r3_merged(case, init))})" for init in case["origs"]]
    for mem in case["mems"]:
        for i in range(mem["depth"]):
            init = mem["rows"][i] if i < len(mem["rows"]) else ("none",)
            reqs.append(f"(const {L} {ser_init(r3_merged(case, init))})")
    for eid, v in case["enum_sigs"]:
        reqs.append(f"(enum {ser_enum(case['enums'][eid])} const {v})")
    return reqs


def r3_requests2(case, resps):
    L = ser_layout(case["layout"], case["enums"])
    n = 1 + len(case["origs"]) + sum(m["depth"] for m in case["mems"])
    bits = [seq_expected(r)[1] for r in resps[:n]]
    bits = [b[1] for b in bits if b[0] == "ok"]
    return [f"(read {L} " + " ".join(str(b) for b in bits) + ")"] if bits else []


def r3_chain(chk, cases):
    """the bits after every script: each step is one field write of the Lean model / Spec applied to the bits the previous
    step left (every element write changes only its bits, all of them land); one driver round per step"""
    cur = {}
    for ci, c in enumerate(cases):
        for si, s in enumerate(c["scripts"]):
            cur[(ci, si)] = (s["raw"], s["raw"])
    k = 0
    while True:
        todo = [(ci, si) for (ci, si) in cur if k < len(cases[ci]["scripts"][si]["steps"])]
        if not todo:
            break
        reqs = []
        for ci, si in todo:
            c = cases[ci]
            path, _fs, v = c["scripts"][si]["steps"][k]
            m_, s_ = cur[(ci, si)]
            reqs.append(f"(write {ser_layout(c['layout'], c['enums'])} {ser_path(path)} ({m_} {v}) ({s_} {v}))")
        resps = chk.driver.ask(reqs)
        for (ci, si), q, r in zip(todo, reqs, resps):
            if r.startswith("error"):
                raise common.Infra(f"driver rejected a request: {q[:300]} -> {r}")
            parts = r.split(" ; ")
            cur[(ci, si)] = (int(common.kv(parts[1])["m"]), int(common.kv(parts[2])["sp"]))
        k += 1
    return cur


# ------------------------------------------------------------------------------------------------
# cases

def make_case(rng, depth, exhaustive_bits=10, n_random_raws=24, malformed=0.1, rtlil=False):
    enums = []
    for _ in range(40):
        enums.clear()
        l = gen_layout(rng, depth - 1, enums, None)
        if layout_size(l, enums) <= 72:
            break
    size = layout_size(l, enums)
    if size <= exhaustive_bits:
        raws = list(range(1 << size))
        exhaustive = True
    else:
        raws = sorted({rng.getrandbits(size) for _ in range(n_random_raws)} | {0, (1 << size) - 1})
        exhaustive = False
    sim_raws = raws if len(raws) <= 16 else rng.sample(raws, 12)
    paths = all_paths(l, enums)
    read_paths = [p for p, _fs in paths]
    wp = [pf for pf in paths]
    rng.shuffle(wp)
    write_paths = wp[:6]
    writes = []
    for p, fs in write_paths:
        cs = []
        for _ in range(4):
            raw = rng.choice(raws)
            if fs[0] == "p":
                v = rng.randint(-(1 << (fs[1] + 1)), 1 << (fs[1] + 1))
            elif fs[0] == "enum":
                vals = valid_values(enums[fs[1]])
                v = rng.choice(vals) if vals else 0
            else:
                sz = layout_size(fs, enums)
                v = rng.getrandbits(sz) if sz else 0
            cs.append((raw, v, None))
        writes.append(cs)
    dyn, dyn_writes = pick_dyn(rng, l, enums, paths, raws)
    inits = [gen_init(rng, l, enums, malformed if rng.random() < 0.4 else 0.0) for _ in range(5)]
    inits = [i for i in inits]
    bad_raws = [1 << size, -1]
    return {"layout": l, "enums": list(enums), "raws": raws, "bad_raws": bad_raws, "sim_raws": sim_raws,
            "read_paths": read_paths, "write_paths": write_paths, "writes": writes, "dyn": dyn, "dyn_writes": dyn_writes,
            "inits": inits,
            "exhaustive": exhaustive, "size": size, "rtlil": rtlil}


def random_field_value(rng, fs, enums):
    if fs[0] == "p":
        return rng.randint(-(1 << (fs[1] + 1)), 1 << (fs[1] + 1))
    if fs[0] == "enum":
        vals = valid_values(enums[fs[1]])
        return rng.choice(vals) if vals else 0
    sz = layout_size(fs, enums)
    return rng.getrandbits(sz) if sz else 0


def pick_dyn(rng, l, enums, paths, raws):
    """the array that is indexed with a signal (an array of aggregates when there is one), and the writes made through
    its dynamically selected element: the whole element and fields inside it (all offsets), for in-range indices"""
    cands = [(p, fs) for p, fs in [((), l)] + list(paths)
             if fs[0] == "array" and fs[2] > 0 and fs_width(fs[1], enums) > 0]
    if not cands:
        return None, []
    agg = [c for c in cands if c[1][1][0] not in ("p", "enum") and fields_of(c[1][1], enums)]
    prefix, arr = rng.choice(agg) if agg else cands[0]
    elem, n = arr[1], arr[2]
    subs = [((), elem)]
    if elem[0] not in ("p", "enum"):
        inner = all_paths(elem, enums, limit=12)
        nonzero = [pf for pf in inner if len(pf[0]) == 1 and dict((k, o) for k, _f, o, _w in fields_of(elem, enums)).get(pf[0][0], 0) > 0]
        rng.shuffle(inner)
        subs += nonzero[:2] + inner[:2]
    out = []
    for sub, fs in subs[:5]:
        for i in sorted(set([0, n - 1, rng.randrange(n)])):
            out.append((i, sub, fs, [(rng.choice(raws), random_field_value(rng, fs, enums)) for _ in range(2)]))
    return (prefix, n), out


CORPUS = [
    # F11: bare union, const(from_bits(raw)) / Signal.like
    {"layout": ("union", (("a", ("p", 4, False, "int")), ("b", ("p", 2, False, "int"))), False), "enums": []},
    # F12: signed shaped enumeration as struct field, array element, nested
    {"layout": ("struct", (("e", ("enum", 0)), ("x", ("p", 2, False, "int"))), False),
     "enums": [("e", 3, True, (("N", -2), ("Z", 0), ("P", 3)))]},
    {"layout": ("array", ("enum", 0), 2), "enums": [("e", 3, True, (("N", -2), ("Z", 0), ("P", 3)))]},
    # documented examples of the module
    {"layout": ("struct", (("first", ("p", 3, False, "int")), ("second", ("p", 7, False, "int")), ("third", ("p", 6, False, "int"))), False), "enums": []},
    {"layout": ("flex", 16, (("first", ("p", 3, False, "fn"), 1), ("second", ("p", 7, False, "fn"), 0),
                             ("third", ("p", 6, False, "fn"), 10), (0, ("p", 1, False, "fn"), 14))), "enums": []},
    # an array of structures: fields at non-zero offsets inside elements selected with a signal
    {"layout": ("array", ("struct", (("lo", ("p", 3, False, "fn")), ("mid", ("p", 4, True, "fn")), ("hi", ("p", 2, False, "fn"))), False), 4),
     "enums": []},
    # malformed: a flexible field beyond the size
    {"layout": ("flex", 3, (("a", ("p", 3, False, "int"), 1),)), "enums": []},
]


def corpus_case(rng, entry):
    l, enums = entry["layout"], entry["enums"]
    size = layout_size(l, enums)
    raws = list(range(1 << size)) if size <= 10 else sorted({rng.getrandbits(size) for _ in range(16)})
    paths = all_paths(l, enums)
    writes = []
    for p, fs in paths[:6]:
        cs = []
        for _ in range(3):
            if fs[0] == "enum":
                v = rng.choice(valid_values(enums[fs[1]]))
            elif fs[0] == "p":
                v = rng.randint(-8, 8)
            else:
                v = rng.getrandbits(layout_size(fs, enums))
            cs.append((rng.choice(raws), v, None))
        writes.append(cs)
    dyn, dyn_writes = pick_dyn(rng, l, enums, paths, raws)
    return {"layout": l, "enums": enums, "raws": raws, "bad_raws": [1 << size, -1], "sim_raws": raws[:12],
            "read_paths": [p for p, _ in paths], "write_paths": paths[:6], "writes": writes, "dyn": dyn, "dyn_writes": dyn_writes,
            "inits": [gen_init(rng, l, enums, 0.0) for _ in range(4)] + [("bits", raws[-1])],
            "exhaustive": size <= 10, "size": size, "rtlil": True}


# ------------------------------------------------------------------------------------------------
# judging

def lifted_tokens(s):
    return [] if s == "-" else s.split(",")


def requests_for(case):
    L = ser_layout(case["layout"], case["enums"])
    reqs = [f"(layout {L})"]
    reqs.append(f"(read {L} " + " ".join(str(r) for r in case["raws"]) + ")")
    for init in case["inits"]:
        reqs.append(f"(const {L} {ser_init(init)})")
    for p in case["read_paths"]:
        reqs.append(f"(readpath {L} ({' '.join(ser_key(k) for k in p)}) " + " ".join(str(r) for r in case["sim_raws"]) + ")")
    for (p, _fs), cs in zip(case["write_paths"], case["writes"]):
        reqs.append(f"(write {L} ({' '.join(ser_key(k) for k in p)}) " + " ".join(f"({raw} {v})" for raw, v, _ in cs) + ")")
    if case["dyn"] is not None:
        prefix, n = case["dyn"]
        for i in range(n):
            reqs.append(f"(readpath {L} ({' '.join(ser_key(k) for k in prefix + (i,))}) " + " ".join(str(r) for r in case["sim_raws"]) + ")")
        for i, sub, _fs, cs in case["dyn_writes"]:
            reqs.append(f"(write {L} ({' '.join(ser_key(k) for k in prefix + (i,) + tuple(sub))}) " +
                        " ".join(f"({raw} {v})" for raw, v in cs) + ")")
    return reqs + slice_requests1(case)          # the slice requests stay LAST (judge_slices takes them from the tail)


class Judge:
    """one per case: reports each kind of disagreement once per case (the first input), counts the rest"""

    def __init__(self, chk):
        self.chk = chk
        self.seen = {}

    def differ(self, what, case, impl, model, spec, extra=None, classes=()):
        """impl differs from model and/or spec on a concrete input"""
        classes = sorted(set(classes))
        kind = (what.split("[")[0].split("(")[0], tuple(classes), impl != spec)
        self.seen[kind] = self.seen.get(kind, 0) + 1
        self.chk.hist("disagreements", "/".join(sorted(classes)) or "unclassified")
        if self.seen[kind] > 1:
            return
        replay = {"what": what, "layout": ser_layout(case["layout"], case["enums"]), "abstract": repr(case["layout"]),
                  "enums": repr(case["enums"]), "impl": impl, "model": model, "spec": spec, "classes": sorted(set(classes))}
        if extra:
            replay.update(extra)
        if impl != spec:
            self.chk.violation(f"{what}: amaranth gives {impl!r}, the property requires {spec!r} "
                               f"[{ser_layout(case['layout'], case['enums'])[:160]}]", replay)
        else:
            self.chk.not_shown(f"{what}: amaranth agrees with the spec but not with the model", replay)

    def cmp(self, what, case, impl, model, spec, extra=None, classes=()):
        if impl == model and impl == spec:
            return True
        self.differ(what, case, impl, model, spec, extra, classes)
        return False


def judge_layout(chk, case, obs, resps):
    J = Judge(chk)
    l, enums = case["layout"], case["enums"]
    signed_enum = has_signed_enum_field(l, enums)
    bare_union = l[0] == "union" and not l[2]
    it = iter(resps)
    lay_r = common.kv(next(it))
    read_r = next(it)
    const_rs = [next(it) for _ in case["inits"]]
    path_rs = [next(it) for _ in case["read_paths"]]
    write_rs = [next(it) for _ in case["write_paths"]]
    dyn_rs = [next(it) for _ in range(case["dyn"][1])] if case["dyn"] is not None else []
    dynw_rs = [next(it) for _ in case["dyn_writes"]] if case["dyn"] is not None else []
    if "crash" in obs:
        chk.not_shown("harness worker crashed", {"layout": repr(l), "crash": obs["crash"]})
        return
    chk.hist("kind", l[0])
    chk.hist("depth", depth_of(l))
    chk.hist("size", min(case["size"], 79) // 8 * 8)
    chk.hist("signed_enum_field", signed_enum)
    key = (ser_layout(l, enums),)
    chk.distinct(key, nontrivial=case["size"] > 0 and len(fields_of(l, enums)) > 0)
    # --- construction
    model_ok = lay_r.get("deep") == "1"
    if obs["build"][0] != "ok":
        chk.count(1)
        chk.hist("build", obs["build"][1])
        J.cmp("constructor rejection", case, obs["build"][1], "ok" if model_ok else "ValueError",
              "ok" if model_ok else "ValueError", {"detail": obs["build"][2]})
        return
    if not model_ok:
        J.differ("constructor accepts a field beyond the layout's size", case, "ok", "ValueError", "ValueError")
        return
    if "placement_error" in obs:
        J.differ("placement raises", case, obs["placement_error"][0], "ok", "ok", {"detail": obs["placement_error"][1]})
        return
    # --- placement
    chk.count(1)
    m_iter = [(t.split(":")[0] + ":" + t.split(":")[1], int(t.split(":")[2]), int(t.split(":")[3])) for t in lifted_tokens(lay_r["iter"])]
    i_iter = [(ser_key(k), o, w) for k, o, w in obs["iter"]]
    s_offs = [int(x) for x in lifted_tokens(lay_r["soffs"])]
    J.cmp("size", case, obs["size"], int(lay_r["size"]), int(lay_r["ssize"]))
    J.cmp("field offsets (iteration)", case, [o for _k, o, _w in i_iter], [o for _k, o, _w in m_iter], s_offs)
    J.cmp("field keys and widths", case, [(k, w) for k, _o, w in i_iter], [(k, w) for k, _o, w in m_iter],
          [(k, w) for k, _o, w in m_iter])
    m_get = [tuple(int(x) for x in t.split(":")) for t in lifted_tokens(lay_r["get"])]
    J.cmp("field offsets (indexing)", case, [tuple(x) for x in obs["get"]], m_get, list(zip(s_offs, [w for _k, _o, w in m_iter])))
    J.cmp("shape of the layout", case, tuple(obs["shape"]), (int(lay_r["size"]), False), (int(lay_r["ssize"]), False))
    if obs.get("neg_index") is False:
        J.differ("negative array index", case, False, True, True)
    # --- constants
    per_raw = read_r.split(" ; ") if case["raws"] else []
    keys = [k for k, _o, _w in i_iter]
    fl = fields_of(l, enums)
    for raw, r, mr in zip(case["raws"], obs["reads"], per_raw):
        chk.count(1)
        d = common.kv(mr)
        ex = {"raw": raw}
        mfb = d["fb"].split(":")
        J.cmp("from_bits/as_bits/as_value", case, tuple(r["fb"]), ("ok", int(mfb[1]), int(mfb[2])), ("ok", raw, raw), ex)
        if r["fb"][0] != "ok":
            continue
        law_m = d["law"].split(":")
        law_i = ("ok", r["law"][1]) if r["law"][0] == "ok" else ("err", r["law"][1])
        law_model = ("ok", int(law_m[1])) if law_m[0] == "ok" else ("err", law_m[1])
        cls = [F11] if (bare_union and law_i == ("err", "TypeError")) else []
        J.cmp("Const.cast(l.const(l.from_bits(raw))).value == raw", case, law_i, law_model, ("ok", raw), ex, cls)
        mc, mv, sp = lifted_tokens(d["mc"]), lifted_tokens(d["mv"]), lifted_tokens(d["sp"])
        for j, k in enumerate(keys):
            fs = fl[j][1]
            cls = []
            if fs[0] == "enum" and enums[fs[1]][2] and r["fields"][j] != sp[j]:
                cls = [F12]
            J.cmp(f"Const[{k}]", case, r["fields"][j], mc[j], sp[j], dict(ex, key=k), cls)
            if mv[j] != mc[j]:
                chk.not_shown("model: view and constant readings differ", {"layout": key, "raw": raw, "key": k})
    for braw, got in zip(case["bad_raws"], obs.get("bad_raws", [])):
        J.cmp("from_bits of a pattern outside the layout", case, got, "ValueError", "ValueError", {"raw": braw})
    # --- constants from field values
    for init, r, mr in zip(case["inits"], obs["consts"], const_rs):
        chk.count(1)
        d = common.kv(mr)
        ex = {"init": ser_init(init)}
        if r["const"][0] == "harness-error":
            chk.not_shown("harness could not build an initialiser", {"layout": key, "init": ser_init(init), "detail": r["const"][2]})
            continue
        mm = d["model"].split(":")
        model = ("ok", int(mm[1])) if mm[0] == "ok" else ("err", mm[1])
        spec = ("ok", int(d["spec"])) if d["spec"] != "-" and mm[0] == "ok" else model
        impl = ("ok", r["const"][1]) if r["const"][0] == "ok" else ("err", r["const"][1])
        cls = [F11] if (impl == ("err", "TypeError") and bare_union_gets_bits(l, init)) else []
        chk.hist("const_outcome", impl[0] if impl[0] == "ok" else impl[1])
        J.cmp("Layout.const(init)", case, impl, model, spec, ex, cls)
        si = ("ok", r["siginit"][1]) if r["siginit"][0] == "ok" else ("err", r["siginit"][1])
        exp_si = model if model[0] == "ok" else ("err", "TypeError")
        cls2 = list(cls)
        if si == ("err", "TypeError") and signed_enum:
            cls2.append(F12)
        if si == ("err", "TypeError") and bare_union_gets_bits(l, init):
            cls2.append(F11)
        J.cmp("Signal(layout, init=...).init", case, si, exp_si, spec if spec[0] == "ok" else exp_si, ex, cls2)
    # --- simulation
    sim = obs["sim"]
    if sim["signal"][0] != "ok":
        chk.count(1)
        J.differ("Signal(layout)", case, sim["signal"][1], "ok", "ok", {"detail": sim["signal"][2]},
                 [F12] if (signed_enum and sim["signal"][1] == "TypeError") else [])
        return
    if sim["like"][0] != "ok":
        J.differ("Signal.like(Signal(layout))", case, sim["like"][1], "ok", "ok", {"detail": sim["like"][2]},
                 [F11] if (bare_union and sim["like"][1] == "TypeError") else [])
    elif sim["like"][1] != 0:
        J.differ("Signal.like(Signal(layout)).init", case, sim["like"][1], 0, 0)
    if sim["run"][0] != "ok":
        J.differ("simulation", case, sim["run"][1], "ok", "ok", {"detail": sim["run"][2]})
        return
    for j, (p, mr) in enumerate(zip(case["read_paths"], path_rs)):
        parts = mr.split(" ; ")
        for raw, row, pr in zip(case["sim_raws"], sim["reads"], parts[1:]):
            chk.count(1)
            d = common.kv(pr)
            cls = [F12] if (signed_enum and row[j] in ("te", "err:TypeError", "inv") and row[j] != d["sp"]) else []
            J.cmp(f"ctx.get(view{list(p)})", case, row[j], d["m"], d["sp"], {"raw": raw, "path": list(p)}, cls)
    if case["dyn"] is not None and sim.get("dyn_error") is None:
        prefix, n = case["dyn"]
        for i, mr in enumerate(dyn_rs):
            parts = mr.split(" ; ")
            for raw, drow, pr in zip(case["sim_raws"], sim["dyn"], parts[1:]):
                chk.count(1)
                d = common.kv(pr)
                J.cmp(f"ctx.get(view{list(prefix)}[idx={i}])", case, drow[i], d["m"], d["sp"], {"raw": raw})
        chk.hist("dyn_writes", len(case["dyn_writes"]))
        for (i, sub, fs, cs), mr, trow, prow in zip(case["dyn_writes"], dynw_rs, sim["dynw_tb"], sim["dynw_proc"]):
            parts = mr.split(" ; ")
            off = int(common.kv(parts[0])["off"])
            chk.hist("dyn_write_field_offset_in_element", "0" if not sub else "field")
            sub_bare_union = fs[0] == "union" and not fs[2]
            for n_, ((raw, v), pr) in enumerate(zip(cs, parts[1:])):
                d = common.kv(pr)
                m_, s_ = int(d["m"]), int(d["sp"])
                for how, row in (("testbench", trow), ("process", prow)):
                    chk.count(1)
                    t = row[n_]
                    impl = t[1] if t[0] == "ok" else "err:" + t[1]
                    cls = [F11] if (t[0] != "ok" and t[1] == "TypeError" and sub_bare_union) else []
                    J.cmp(f"ctx.set(view{list(prefix)}[idx={i}]{list(sub)}, v) in a {how}, then read the signal", case,
                          impl, m_, s_, {"raw": raw, "value": v, "index": i, "path": list(prefix) + [i] + list(sub), "offset": off}, cls)
    elif case["dyn"] is not None:
        J.differ("dynamic index of an array view", case, sim["dyn_error"][0], "ok", "ok", {"detail": sim["dyn_error"][1]},
                 [F12] if signed_enum else [])
    for (p, fs), cs, mr, tbw, cw, sw in zip(case["write_paths"], case["writes"], write_rs, sim["tbw"], sim["cw"], sim["sw"]):
        parts = mr.split(" ; ")
        sub_bare_union = fs[0] == "union" and not fs[2]
        for n_, ((raw, v, _), pr) in enumerate(zip(cs, parts[1:])):
            chk.count(1)
            d = common.kv(pr)
            m_, s_ = int(d["m"]), int(d["sp"])
            ex = {"raw": raw, "value": v, "path": list(p)}
            t = tbw[n_]
            impl = t[1] if t[0] == "ok" else "err:" + t[1]
            cls = []
            if t[0] != "ok" and t[1] == "TypeError":
                if sub_bare_union:
                    cls.append(F11)
                if signed_enum:
                    cls.append(F12)
            J.cmp(f"ctx.set(view{list(p)}, v) then read the signal", case, impl, m_, s_, ex, cls)
            if cw and cw[0][0] == "error":
                if n_ == 0:
                    J.differ(f"circuit assignment to view{list(p)}", case, "err:" + cw[0][1], m_, s_, dict(ex, detail=cw[0][2]),
                             [F12] if signed_enum else [])
            else:
                J.cmp(f"comb assignment to view{list(p)}", case, cw[n_][1], m_, s_, ex)
                if n_ < len(sw):
                    J.cmp(f"sync assignment to view{list(p)}", case, sw[n_][1], m_, s_, ex)
    if "rtlil" in sim:
        chk.hist("rtlil", sim["rtlil"][0])
        if sim["rtlil"][0] != "ok" or not sim["rtlil"][1]:
            detail = sim["rtlil"][2] if len(sim["rtlil"]) > 2 else ""
            cls = [F17] if (has_negative_enum_member(l, enums) and "does not fit in" in detail) else []
            J.differ("rtlil.convert of a design using the views", case, sim["rtlil"][1], "ok", "ok", {"detail": detail}, cls)


def fmt_slice(key):
    return ":".join("" if x is None else str(x) for x in key)


def judge_slices(chk, case, obs, resps, elem_rs):
    """slices of array constants and of array views: len, the layout's length, the bits, the value and every element are
    those of the Python list slice of the element list (elements placed by the Lean model / the Spec)"""
    if "slices" not in obs or not case.get("slices"):
        return
    J = Judge(chk)
    enums = case["enums"]
    lay_rs = resps[len(resps) - len(case["slices"]):]
    sim = obs.get("sim", {})
    sim_rows = sim.get("slices") if sim.get("run", ("",))[0] == "ok" else None
    for a, (path, elem, n, keys, idx) in enumerate(case["slices"]):
        d = common.kv(lay_rs[a])
        m_it = [(int(t.split(":")[2]), int(t.split(":")[3])) for t in lifted_tokens(d["iter"])]
        s_it = list(zip([int(x) for x in lifted_tokens(d["soffs"])], [w for _o, w in m_it]))
        if len(m_it) != n or len(s_it) != n:
            chk.not_shown("model: an array layout does not have one field per element", {"layout": lay_rs[a], "n": n})
            continue
        ew = m_it[0][1] if m_it else fs_width(elem, enums)
        bits_per_raw = slice_array_bits(case, resps, a)
        per_raw = elem_rs[a].split(" ; ")
        signed_enum_elem = elem[0] == "enum" and enums[elem[1]][2]
        chk.hist("slice_array_length", n)
        chk.hist("slice_array_where", "the layout itself" if not path else f"nested at depth {len(path)}")
        chk.hist("slice_elem_kind", elem[0] + (" (width 0)" if ew == 0 else ""))
        for kk, key in enumerate(keys):
            idxs = list(range(n))[slice(*key)]
            klass = slice_class(key, n)
            chk.hist("slice_class", klass)
            chk.hist("slice_step", key[2])
            chk.hist("slice_open_ends", (key[0] is None) + (key[1] is None))
            chk.hist("slice_bound_out_of_range", any(b is not None and not (-n <= b <= n) for b in key[:2]))
            chk.hist("slice_selected_elements", len(idxs))
            chk.distinct(("slice", ser_layout(case["layout"], enums), path, key), nontrivial=klass.startswith("strided"))
            for rr, i in enumerate(idx):
                arrbits = bits_per_raw[rr]
                if arrbits is None:
                    continue
                dd = common.kv(per_raw[rr])
                toks = {t: lifted_tokens(dd[t]) for t in ("mc", "mv", "sp")}

                def expect(it, tk):
                    bits = 0
                    for j, e in enumerate(idxs):
                        off, w = it[e]
                        bits |= ((arrbits >> off) & ((1 << w) - 1)) << it[j][0]
                    return ("ok", len(idxs), len(idxs), bits, bits, [toks[tk][e] for e in idxs])
                ex = {"raw": case["sim_raws"][i], "path": list(path), "slice": fmt_slice(key), "array_bits": arrbits,
                      "array_length": n, "selected_elements": idxs}
                for how, rows, mtk, tolerated in (("constant", obs["slices"], "mc", "ValueError"),
                                                  ("view in simulation", sim_rows, "mv", "IndexError")):
                    if rows is None or (how != "constant" and rr >= SLICE_SIM_RAWS):
                        continue
                    got = rows[a][kk][rr]
                    chk.count(1)
                    chk.hist("slice_checks", how)
                    if got[0] != "ok":
                        if klass == "unit_step_reversed_bounds" and ew > 0 and got[1] == tolerated:
                            # candidate finding (not part of the property's text): a unit-step slice whose bounds are
                            # reversed raises instead of selecting nothing
                            chk.hist("slice_unit_step_reversed_bounds", f"{how}: raises {got[1]}")
                            continue
                        impl = ("err", got[1])
                        exd = dict(ex, detail=got[2])
                    else:
                        impl = tuple(got[:6])
                        exd = ex
                        if klass == "unit_step_reversed_bounds":
                            chk.hist("slice_unit_step_reversed_bounds", f"{how}: selects nothing")
                    spec = expect(s_it, "sp")
                    cls = [F12] if (signed_enum_elem and impl[0] == "ok" and impl[:5] == spec[:5] and impl != spec) else []
                    J.cmp(f"slice of an array {how} (len, layout length, as_bits, as_value, elements) at path {list(path)} "
                          f"key {fmt_slice(key)}", case, impl, expect(m_it, mtk), spec, exd, cls)


def judge_seq(chk, sc, obs, resps1, resps2):
    """every construction of a sequence on one class gives the constant of the declared defaults overridden by exactly the
    fields this call names (Lean: Layout.const of the merged initialiser), whatever was constructed before"""
    J = Judge(chk)
    l, enums = sc["layout"], sc["enums"]
    kind, ops = l[0], sc["ops"]
    L = ser_layout(l, enums)
    if "crash" in obs:
        chk.not_shown("harness worker crashed", {"layout": repr(l), "crash": obs["crash"]})
        return
    signed_enum = has_signed_enum_field(l, enums)
    any_left_out = any(leaves_out_earlier(ops, i) for i in range(len(ops)))
    chk.hist("seq_class_kind", kind)
    chk.hist("seq_defaults_declared", len(sc["defaults"]))
    chk.hist("seq_length", len(ops))
    chk.hist("seq_has_call_leaving_out_field_named_earlier", any_left_out)
    chk.distinct(("seq", L, repr(sc["defaults"]), repr(ops)), nontrivial=bool(sc["defaults"]) and any_left_out)
    base_ex = {"class_defaults": {k: ser_init(v) for k, v in sc["defaults"]}, "class_kind": kind}
    if obs["build"][0] != "ok":
        chk.count(1)
        J.differ("class with field defaults: construction", sc, obs["build"][1], "ok", "ok", dict(base_ex, detail=obs["build"][2]))
        return
    exp = [seq_expected(r) for r in resps1[1:]]
    reads = resps2[0].split(" ; ") if resps2 else []
    ri = 0
    for i, ((op, init), st, (model, spec)) in enumerate(zip(ops, obs["steps"], exp)):
        rd = None
        if spec[0] == "ok":
            rd = common.kv(reads[ri])
            ri += 1
        chk.count(1)
        merged = merged_init(kind, sc["defaults"], init)
        left_out = leaves_out_earlier(ops, i)
        chk.hist("seq_op", {"const": "S.const(init)", "siginit": "Signal(S, init=...)", "signal": "Signal(S)"}[op])
        chk.hist("seq_call_leaves_out_field_named_earlier", left_out)
        chk.hist("seq_call_init", init[0] if init[0] != "map" else f"names {len(init[1])} field(s)")
        ex = dict(base_ex, call=i + 1, op=op, init=ser_init(init), expected_initialiser=ser_init(merged),
                  calls=[(o, ser_init(x)) for o, x in ops[:i + 1]], leaves_out_field_named_earlier=left_out)
        if st[0] == "harness-error":
            chk.not_shown("harness could not build an initialiser", {"layout": L, "init": ser_init(init), "detail": st[2]})
            continue
        impl = ("ok", st[1]) if st[0] == "ok" else ("err", st[1])
        chk.hist("seq_outcome", impl[0] if impl[0] == "ok" else impl[1])
        model_e, spec_e = model, spec
        if op != "const" and model[0] != "ok":
            model_e = spec_e = ("err", "TypeError")
        cls = []
        if impl == ("err", "TypeError") and bare_union_gets_bits(l, merged):
            cls.append(F11)
        if impl == ("err", "TypeError") and op != "const" and signed_enum:
            cls.append(F12)
        opname = {"const": "S.const(init).as_bits()", "siginit": "Signal(S, init=init).init", "signal": "Signal(S).init"}[op]
        J.cmp(f"construction sequence on one {kind} class with field defaults (call {i + 1}: {opname})", sc, impl, model_e, spec_e, ex, cls)
        if st[0] != "ok" or rd is None:
            continue
        mc, mv, sp = lifted_tokens(rd["mc"]), lifted_tokens(rd["mv"]), lifted_tokens(rd["sp"])
        fl = fields_of(l, enums)

        def fcls(got, want):
            return [F12] if any(g != w and fs[0] == "enum" and enums[fs[1]][2] for g, w, (_k, fs, _o, _w) in zip(got, want, fl)) else []
        if op == "const":
            chk.count(1)
            J.cmp(f"fields read back from the constant of a construction sequence (call {i + 1})", sc, list(st[2]), mc, sp, ex, fcls(st[2], sp))
        elif obs.get("run", ("",))[0] == "ok" and st[2] < len(obs["sim"]):
            sr = obs["sim"][st[2]]
            chk.count(1)
            if sr[0] != "ok":
                J.differ(f"simulated reset value of the register of a construction sequence (call {i + 1})", sc, "err:" + sr[1], spec[1], spec[1], ex)
            else:
                J.cmp(f"simulated reset value of the register of a construction sequence (call {i + 1})", sc, sr[1], model[1], spec[1], ex)
                J.cmp(f"simulated fields of the register of a construction sequence (call {i + 1})", sc, list(sr[2]), mv, sp, ex, fcls(sr[2], sp))
    if obs.get("run", ("ok",))[0] != "ok":
        J.differ("simulation of the registers of a construction sequence", sc, obs["run"][1], "ok", "ok", dict(base_ex, detail=obs["run"][2]))


def r4_read_requests(case, chain):
    """the fields of the bits every script leaves (the Spec's bits; the model's are compared with them by the judge)"""
    bits = [chain[si][1] for si in range(len(case["scripts"]))]
    return [f"(read {ser_layout(case['layout'], case['enums'])} " + " ".join(str(b) for b in bits) + ")"] if bits else []


def judge_r3(chk, case, obs, resps1, resps2, chain, chain_reads=None):
    """copies made with Signal.like have the original's initial value (as a constant, at time 0, after a reset, field by
    field); several partial writes before the next delta cycle all land; memory rows hold the constant of their
    initialiser (the declared defaults for rows without one)"""
    J = Judge(chk)
    l, enums = case["layout"], case["enums"]
    kind = l[0]
    L = ser_layout(l, enums)
    if "crash" in obs:
        chk.not_shown("harness worker crashed", {"layout": repr(l), "crash": obs["crash"]})
        return
    base_ex = {"class_defaults": {k: ser_init(v) for k, v in case["defaults"]}, "class_kind": kind, "is_class": bool(kind in ("struct", "union") and l[2])}
    chk.hist("r3_layout_kind", kind + (" class" if base_ex["is_class"] else "") + (" with defaults" if case["defaults"] else ""))
    chk.distinct(("r3", L, repr(case["defaults"]), repr(case["origs"])), nontrivial=case["size"] > 0)
    if obs["build"][0] != "ok":
        chk.count(1)
        J.differ("round-3 stream: construction of the shape", case, obs["build"][1], "ok", "ok", dict(base_ex, detail=obs["build"][2]))
        return
    n_rows = sum(md["depth"] for md in case["mems"])
    n_layout = 1 + len(case["origs"]) + n_rows
    exp = [seq_expected(r) for r in resps1[:n_layout]]
    enum_rs = resps1[n_layout:]
    reads = resps2[0].split(" ; ") if resps2 else []
    rds, ri = [], 0
    for (_m, spec) in exp:
        if spec[0] == "ok":
            rds.append(common.kv(reads[ri]))
            ri += 1
        else:
            rds.append(None)
    default_model, default_spec = exp[0]
    default_nonzero = default_spec[0] == "ok" and default_spec[1] != 0
    chk.hist("r3_class_default_bits", "non-zero" if default_nonzero else "zero")
    fl = fields_of(l, enums)
    run_ok = obs.get("run", ("",))[0] == "ok"
    if not run_ok:
        J.differ("round-3 stream: simulation", case, obs["run"][1], "ok", "ok", dict(base_ex, detail=obs["run"][2]))
    mask = (1 << case["size"]) - 1

    def fcls(got, want):
        return [F12] if any(g != w and fs[0] == "enum" and enums[fs[1]][2] for g, w, (_k, fs, _o, _w) in zip(got, want, fl)) else []

    def watched_checks(what, widx, model, spec, rd, ex, reset_less):
        """time 0 and after a reset: the register holds `spec` (fields included)"""
        if not run_ok:
            return
        t0 = obs["time0"][widx]
        chk.count(1)
        if t0[0] != "ok":
            J.differ(f"{what}: value at time 0", case, "err:" + t0[1], model, spec, ex)
            return
        J.cmp(f"{what}: value at time 0", case, t0[1], model, spec, ex)
        if t0[2] is not None and rd is not None:
            sp = lifted_tokens(rd["sp"])
            J.cmp(f"{what}: fields at time 0", case, list(t0[2]), lifted_tokens(rd["mv"]), sp, ex, fcls(t0[2], sp))
        want = (case["scramble"] & mask) if reset_less else spec
        wantm = (case["scramble"] & mask) if reset_less else model
        J.cmp(f"{what}: value after a reset" + (" of a reset-less copy" if reset_less else ""), case, obs["after_reset"][widx], wantm, want,
              dict(ex, scrambled_to=case["scramble"] & mask))
    # --- originals and their copies
    for i, (init, o, vs, lrow) in enumerate(zip(case["origs"], obs["origs"], case["likes"], obs["likes"])):
        model, spec = exp[1 + i]
        merged = r3_merged(case, init)
        ex = dict(base_ex, init=ser_init(init), expected_initialiser=ser_init(merged))
        chk.count(1)
        if o[0] == "harness-error":
            chk.not_shown("harness could not build an initialiser", {"layout": L, "init": ser_init(init), "detail": o[2]})
            continue
        impl = ("ok", o[1]) if o[0] == "ok" else ("err", o[1])
        model_e, spec_e = (model, spec) if model[0] == "ok" else (("err", "TypeError"),) * 2
        cls = []
        if impl == ("err", "TypeError") and has_signed_enum_field(l, enums):
            cls.append(F12)
        if impl == ("err", "TypeError") and bare_union_gets_bits(l, merged):
            cls.append(F11)
        if not J.cmp("original of a copy: Signal(S, init=init).init", case, impl, model_e, spec_e, ex, cls) or o[0] != "ok" or spec[0] != "ok":
            continue
        zero_over_defaults = default_nonzero and spec[1] == 0
        chk.hist("r3_original_init_bits", "zero, class defaults non-zero" if zero_over_defaults else
                 ("zero" if spec[1] == 0 else ("the class defaults" if (default_nonzero and spec[1] == default_spec[1]) else "non-zero")))
        watched_checks("original of a copy", o[2], model[1], spec[1], rds[1 + i], ex, False)
        for v, c in zip(vs, lrow):
            if c[0] == "skipped":
                continue
            vname = {"plain": "Signal.like(sig)", "name": "Signal.like(sig, name=...)", "suffix": "Signal.like(sig, name_suffix=...)",
                     "reset_less": "Signal.like(sig, reset_less=True)", "attrs": "Signal.like(sig, attrs=..., name=...)",
                     "init": "Signal.like(sig, init=other)", "cast": "Signal.like(Value.cast(sig))", "twice": "Signal.like(Signal.like(sig))"}[v[0]]
            chk.count(1)
            chk.hist("r3_like_variant", vname)
            if zero_over_defaults and v[0] != "init":
                chk.hist("r3_like_of_zero_init_over_nonzero_defaults", vname)
            em, es, erd = model, spec, rds[1 + i]
            if v[0] == "init" and case["origs"][v[1]] != ("none",):         # init=None: no override, the original's value
                em, es, erd = exp[1 + v[1]][0], exp[1 + v[1]][1], rds[1 + v[1]]
                if es[0] != "ok":
                    continue
            exv = dict(ex, copy=vname, original_init_bits=spec[1])
            if v[0] == "init":
                exv["init_override"] = ser_init(case["origs"][v[1]])
            if c[0] != "ok":
                cls = [F11] if (c[1] == "TypeError" and kind == "union" and not l[2]) else []
                J.differ(f"copy of a signal: {vname} raises", case, "err:" + c[1], "ok", "ok", dict(exv, detail=c[2]), cls)
                continue
            _ok, cinit, widx, cname, crl, same_type, cshape = c
            J.cmp(f"copy of a signal: {vname}.init", case, cinit, em[1], es[1], exv)
            want_name = {"name": "cpy", "attrs": "cpy", "suffix": "orig_sfx"}.get(v[0])
            if want_name is not None:
                J.cmp(f"copy of a signal: {vname}.name", case, cname, want_name, want_name, exv)
            J.cmp(f"copy of a signal: {vname} reset_less / kind of object / shape", case, (crl, same_type, tuple(cshape)),
                  (v[0] == "reset_less", True, (case["size"], False)), (v[0] == "reset_less", True, (case["size"], False)), exv)
            watched_checks(f"copy of a signal: {vname}", widx, em[1], es[1], erd if v[0] != "cast" else None, exv, v[0] == "reset_less")
    # --- enumeration-shaped signals
    for (eid, v), es, er, e0 in zip(case["enum_sigs"], obs["esigs"], enum_rs, obs["enum0"] if run_ok else [None] * len(case["enum_sigs"])):
        chk.count(1)
        mm = er.split(" ; ")[1].split(":")
        ex = dict(base_ex, enum=ser_enum(enums[eid]), member=v)
        chk.hist("r3_like_enum_signal", enums[eid][0] + (" signed" if enums[eid][2] else ""))
        if mm[0] != "ok":
            chk.not_shown("model refuses a member of a generated enumeration", ex)
            continue
        want = int(mm[1])
        if es[0] != "ok":
            J.differ("copy of an enumeration-shaped signal raises", case, "err:" + es[1], "ok", "ok", dict(ex, detail=es[2]))
            continue
        J.cmp("copy of an enumeration-shaped signal: .init of the original, Signal.like(sig), Signal.like(sig, name=...)", case,
              list(es[1]), [want] * 3, [v] * 3, ex)
        if e0 is not None:
            tok = f"m{v}"
            J.cmp("copy of an enumeration-shaped signal: ctx.get at time 0", case, list(e0), [tok] * 3, [tok] * 3, ex)
    # --- scripts
    if run_ok:
        for si, (s, r) in enumerate(zip(case["scripts"], obs["scripts"])):
            m_, s_ = chain[si]
            steps = [(list(p), v) for p, _fs, v in s["steps"]]
            if s["what"] == "slice":
                n, key = s["n"], s["key"]
                klass = slice_class(key, n)
                chk.hist("r3_slice_write_class", klass)
                chk.hist("r3_slice_write_step", key[2])
                chk.hist("r3_slice_write_open_ends", (key[0] is None) + (key[1] is None))
                chk.hist("r3_slice_write_selected_elements", len(steps))
                chk.hist("r3_slice_write_elem_kind", s["steps"][0][1][0] if s["steps"] else "-")
                chk.distinct(("r3-slice", L, s["path"], key), nontrivial=len(steps) >= 2)
                what = f"strided slice write: ctx.set(view{list(s['path'])}[{fmt_slice(key)}], values)"
            else:
                chk.hist("r3_field_script_length", len(steps))
                chk.hist("r3_field_script_repeats_or_overlaps", len({tuple(p) for p, _v in steps}) != len(steps) or kind in ("union", "flex"))
                chk.distinct(("r3-fields", L, repr(steps)), nontrivial=len(steps) >= 2)
                what = "field by field write: ctx.set(view.f, v) for several fields"
            ex = dict(base_ex, raw=s["raw"], element_writes=steps, writes=len(steps))
            sub_bare_union = any(fs[0] == "union" and not fs[2] for _p, fs, _v in s["steps"])
            for how, hname in (("tb", "from a testbench"), ("proc", "from a process (no delta cycle in between)")):
                chk.count(1)
                chk.hist("r3_script_runs", ("slice " if s["what"] == "slice" else "fields ") + hname.split(" (")[0])
                t = r.get(how, ("error", "other:missing", ""))
                impl = t[1] if t[0] == "ok" else "err:" + t[1]
                cls = [F11] if (t[0] != "ok" and t[1] == "TypeError" and sub_bare_union) else []
                J.cmp(f"{what} {hname}, then read the signal", case, impl, m_, s_, dict(ex, detail=t[2] if t[0] != "ok" else None), cls)
            # round 4: the same writes through the view of a memory row (mem.data[i]) that held the same bits
            if obs.get("wmem", ("none",))[0] == "error":
                if si == 0:
                    J.differ("memory with rows of a layout shape (written by the scripts): construction raises", case,
                             "err:" + obs["wmem"][1], "ok", "ok", dict(base_ex, detail=obs["wmem"][2]))
                continue
            single = bool(s.get("single"))
            if single:
                chk.hist("r4_row_single_write_field", s["steps"][0][1][0] + (" reaching the top bit of the row" if s["reaches_top"] else ""))
                chk.hist("r4_row_single_write_depth", len(s["steps"][0][0]))
            other = ~s["raw"] & mask
            mwhat = ("single field write" if single else what.split(":")[0]) + " through the view of a memory row"
            for how, hname in (("mtb", "from a testbench"), ("mproc", "from a process")):
                chk.count(1)
                chk.hist("r4_row_script_runs", ("single " if single else ("slice " if s["what"] == "slice" else "fields ")) + hname)
                t = r.get(how, ("error", "other:missing", ""))
                exm = dict(ex, row=si % WMEM_DEPTH, other_rows_hold=other, detail=t[2] if t[0] != "ok" else None)
                if t[0] != "ok":
                    cls = [F11] if (t[1] == "TypeError" and sub_bare_union) else []
                    J.differ(f"{mwhat} {hname}", case, "err:" + t[1], m_, s_, exm, cls)
                    continue
                _ok, whole, port, others, fields = t
                J.cmp(f"{mwhat} {hname}, then read the row", case, whole, m_, s_, exm)
                J.cmp(f"{mwhat} {hname}, then read the row through a comb read port", case, port, m_, s_, exm)
                J.cmp(f"{mwhat} {hname}, then read the other rows", case, list(others), [other] * (WMEM_DEPTH - 1), [other] * (WMEM_DEPTH - 1), exm)
                rd = chain_reads.get(si) if chain_reads else None
                if rd is not None:
                    sp = lifted_tokens(rd["sp"])
                    J.cmp(f"{mwhat} {hname}, then read the fields of the row", case, list(fields), lifted_tokens(rd["mv"]), sp, exm, fcls(fields, sp))
    # --- memories
    pos = 1 + len(case["origs"])
    for mi, (md, mo) in enumerate(zip(case["mems"], obs["mems"])):
        rows_exp = exp[pos:pos + md["depth"]]
        rows_rd = rds[pos:pos + md["depth"]]
        pos += md["depth"]
        k = len(md["rows"])
        filled = "empty" if k == 0 else ("full" if k == md["depth"] else "partial")
        chk.hist("r3_mem_initialiser", filled + (" (init setter)" if md["via_setter"] else ""))
        chk.hist("r3_mem_depth", md["depth"])
        chk.hist("r3_mem_empty_init_nonzero_defaults", k == 0 and default_nonzero)
        ex = dict(base_ex, depth=md["depth"], rows=[ser_init(x) for x in md["rows"]], via_init_setter=md["via_setter"])
        if mo[0] == "harness-error":
            chk.not_shown("harness could not build an initialiser", {"layout": L, "detail": mo[2]})
            continue
        if any(sp[0] != "ok" for _m, sp in rows_exp):
            chk.hist("r3_mem_skipped_model_error", 1)
            continue
        chk.count(1)
        if mo[0] != "ok":
            J.differ("memory with rows of a layout shape: construction raises", case, "err:" + mo[1], "ok", "ok", dict(ex, detail=mo[2]))
            continue
        _ok, held, raw = mo
        want_held = ["given" if (i < k and md["rows"][i] != ("none",)) else "none" for i in range(md["depth"])]
        J.cmp("memory with rows of a layout shape: mem.init[i] is the given initialiser / None", case, held, want_held, want_held, ex)
        if raw is not None:
            chk.count(1)
            J.cmp("memory with rows of a layout shape: bits of the rows of mem.init", case, raw, [m_[1] for m_, _s in rows_exp],
                  [s_[1] for _m, s_ in rows_exp], ex)
        if not run_ok or obs["memrows"][mi] is None:
            continue
        for i, (row, (m_, s_), rd) in enumerate(zip(obs["memrows"][mi], rows_exp, rows_rd)):
            chk.count(1)
            chk.hist("r3_mem_row", "initialised" if i < k else "default")
            exr = dict(ex, row=i, row_init=ser_init(md["rows"][i]) if i < k else "none (the declared defaults)")
            if row[0] != "ok":
                J.differ("memory row of a layout shape: simulated read raises", case, "err:" + row[1], m_[1], s_[1], dict(exr, detail=row[2]))
                continue
            _ok2, whole, lifted, fields, port, pfields = row
            J.cmp("memory row of a layout shape: ctx.get(Value.cast(mem.data[i]))", case, whole, m_[1], s_[1], exr)
            J.cmp("memory row of a layout shape: ctx.get(mem.data[i])", case, lifted, f"c{m_[1]}", f"c{s_[1]}", exr)
            J.cmp("memory row of a layout shape: data of a comb read port", case, port, m_[1], s_[1], exr)
            if rd is not None:
                sp = lifted_tokens(rd["sp"])
                J.cmp("memory row of a layout shape: fields of ctx.get(mem.data[i][k])", case, list(fields), lifted_tokens(rd["mv"]), sp, exr, fcls(fields, sp))
                J.cmp("memory row of a layout shape: fields of the read port's data", case, list(pfields), lifted_tokens(rd["mv"]), sp, exr, fcls(pfields, sp))


def judge_enum(chk, job, r, resps):
    e, values, pairs, _ = job
    kind, w, s, members = e
    E = ser_enum(e)
    J = Judge(chk)
    fake_case = {"layout": ("struct", (("e", ("enum", 0)),), False), "enums": [e]}
    chk.hist("enum_kind", kind)
    chk.distinct(("enum", E), nontrivial=len(members) > 0)
    if r["class"][0] != "ok":
        chk.not_shown("enumeration class could not be built", {"enum": E, "detail": r["class"]})
        return
    it = iter(resps)
    c_parts = next(it).split(" ; ")
    f_parts = next(it).split(" ; ")
    unnamed = has_unnamed_bits(e)
    chk.hist("flag_unnamed_multibit", unnamed) if kind != "e" else None
    if c_parts[0] != "wf=1" and not unnamed:
        chk.not_shown("generated enumeration is not well-formed in the model", {"enum": E})
        return
    for v, ci, cm, fi, fm in zip(values, r["const"], c_parts[1:], r["frombits"], f_parts[1:]):
        chk.count(1)
        mm = cm.split(":")
        model = ("ok", int(mm[1])) if mm[0] == "ok" else ("error", mm[1])
        J.cmp(f"{kind}.const({v})", fake_case, tuple(ci), model, model, {"enum": E})
        fbm, backm = fm.split("/")
        if fbm == "inv":
            model_fb = ("error", "ValueError")
        elif fbm.startswith("m"):
            bm = backm.split(":")
            model_fb = ("ok", int(fbm[1:]), ("ok", int(bm[1])) if bm[0] == "ok" else ("error", bm[1]))
        else:
            model_fb = ("ejected", int(fbm[1:]))
        # the property's sentence: a member value (combination) round-trips to itself
        spec_fb = ("ok", v, ("ok", v)) if (enum_valid(e, v) and (kind == "e" or is_combination(e, v))) else model_fb
        J.cmp(f"{kind}.from_bits({v}) and back", fake_case, tuple(fi), model_fb, spec_fb, {"enum": E})
    if "rtlil" in r and kind == "e":
        chk.hist("rtlil_enum", r["rtlil"][0])
        if r["rtlil"][0] != "ok" or not r["rtlil"][1]:
            detail = r["rtlil"][2] if len(r["rtlil"]) > 2 else ""
            cls = [F17] if (any(v < 0 for _n, v in members) and "does not fit in" in detail) else []
            J.differ("rtlil.convert of a design with a Signal of the enumeration", fake_case, r["rtlil"][1], "ok", "ok",
                     {"enum": E, "detail": detail}, cls)
    if kind == "e":
        return
    if r.get("build", ("ok",))[0] != "ok" or r.get("run", ("ok",))[0] != "ok":
        J.differ("flag view operators", fake_case, (r.get("build"), r.get("run")), "ok", "ok", {"enum": E})
        return
    mask = 0
    for _n, mv in members:
        mask |= mv
    for name in ("and", "or", "xor", "inv"):
        parts = next(it).split(" ; ")
        for (x, y), row, pr in zip(pairs, r["rows"], parts[1:]):
            chk.count(1)
            d = common.kv(pr)
            m_, s_ = int(d["m"]), int(d["sp"])
            got = row[name]
            ex = {"enum": E, "x": x, "y": y, "op": name}
            if got[0] != "ok":
                J.differ(f"FlagView {name}", fake_case, "err:" + got[1], m_, s_, ex)
                continue
            _ok, circ, tbv, lifted, orc = got
            # the oracle: Python's own enum.Flag with the same members and boundary
            if orc[0] == "ok":
                pyv = orc[1]
            elif orc[0] == "ejected":
                pyv = orc[1] & ((1 << w) - 1)
            elif unnamed and orc[0] == "error":
                # the result is not a member combination and Python's class refuses it: no oracle value
                chk.hist("flag_oracle_refuses", name)
                continue
            else:
                chk.not_shown("Python's enum.Flag gave no value for a member combination", dict(ex, oracle=orc))
                continue
            if pyv != s_:
                chk.not_shown("the Spec's mask algebra is not what Python's enum.Flag computes", dict(ex, python=pyv, spec=s_))
                continue
            cls = []
            if name == "inv" and kind in ("keep", "eject") and w != mask.bit_length():
                cls = [F16]
            J.cmp(f"FlagView {name} (circuit)", fake_case, circ, m_, pyv, ex, cls)
            J.cmp(f"FlagView {name} (testbench)", fake_case, tbv, m_, pyv, ex, cls)
            if orc[0] == "ok" and lifted != ("ok", pyv) and not cls:
                J.differ(f"ctx.get(FlagView {name})", fake_case, lifted, ("ok", m_), ("ok", pyv), ex)
            # round 4: the same operator with a plain member of the class on the right / on the left
            for form, label in (("vm", "view {} member"), ("mv", "member {} view")) if name != "inv" else ():
                fg = row.get("mixed_" + name, {}).get(form)
                chk.count(1)
                chk.hist("flag_operand_forms", f"{label.format(name)}:{'shared' if x & y else 'disjoint'}")
                if fg is None or fg[0] != "ok":
                    J.differ(f"FlagView {label.format(name)}", fake_case, "err:" + (fg[1] if fg else "missing"), m_, pyv,
                             dict(ex, detail=fg[2] if fg else ""))
                    continue
                J.cmp(f"FlagView {label.format(name)} (testbench)", fake_case, fg[1], m_, pyv, ex)
                if not fg[2]:
                    J.differ(f"FlagView {label.format(name)} result is a FlagView of the class", fake_case, False, True, True, ex)
    if r["mixed"][0] != "ok":
        J.differ("FlagView op enum member", fake_case, r["mixed"][1], "ok", "ok", {"enum": E, "detail": r["mixed"][2]})
    if "rtlil" in r and (r["rtlil"][0] != "ok" or not r["rtlil"][1]):
        J.differ("rtlil.convert of flag operators", fake_case, r["rtlil"][1], "ok", "ok", {"enum": E})


def enum_requests(job):
    e, values, pairs, _ = job
    E = ser_enum(e)
    reqs = [f"(enum {E} const " + " ".join(str(v) for v in values) + ")",
            f"(enum {E} frombits " + " ".join(str(v) for v in values) + ")"]
    if e[0] != "e":
        ps = " ".join(f"({x} {y})" for x, y in pairs)
        for op in ("and", "or", "xor", "inv"):
            reqs.append(f"(flag {E} {op} {ps})")
    return reqs


def make_enum_job(rng, rtlil):
    e = gen_enum(rng, unnamed_bits=rng.random() < 0.45)
    kind, w, s, members = e
    lo, hi = (-(1 << max(w - 1, 0)), 1 << max(w - 1, 0)) if s else (0, 1 << w)
    values = list(range(lo - 1, hi + 1)) if kind == "e" else list(range(0, hi + 1))
    if has_unnamed_bits(e):
        # const/from_bits: member combinations, and values with a bit outside the declared flags
        mask = 0
        for _n, mv in members:
            mask |= mv
        values = [v for v in values if is_combination(e, v) or (v & ~mask)]
    vv = combinations(e) if kind != "e" else []
    if len(vv) <= 8:
        pairs = [(x, y) for x in vv for y in vv]
    else:
        pairs = [(rng.choice(vv), rng.choice(vv)) for _ in range(48)]
    return (e, values, pairs, rtlil)


# ------------------------------------------------------------------------------------------------

def chunks(xs, n):
    return [xs[i:i + n] for i in range(0, len(xs), n)]


def run(chk):
    if not chk.lean():
        chk.not_shown("Lean build of Properties/C15 failed", chk.build_log[-3000:])
        return
    rng = chk.rng
    quick = chk.tier == "quick"
    n_layouts = int(os.environ.get("VERIF_C15_LAYOUTS", 1100 if quick else 14000))
    n_enums = int(os.environ.get("VERIF_C15_ENUMS", 250 if quick else 3000))
    workers = int(os.environ.get("VERIF_WORKERS", min(16, os.cpu_count() or 4)))
    cases = [corpus_case(rng, c) for c in CORPUS]
    for i in range(n_layouts):
        depth = rng.choice([1, 2, 2, 3, 3, 4, 4])
        cases.append(make_case(rng, depth, rtlil=(i % (6 if quick else 10) == 0)))
    enum_jobs = [make_enum_job(rng, rtlil=(i % 5 == 0)) for i in range(n_enums)]
    # generated after everything above so that the older streams of a seed stay what they were:
    # slice keys for the arrays of the cases, array layouts sliced with every key, construction sequences on one class
    n_seqs = int(os.environ.get("VERIF_C15_SEQS", 500 if quick else 6000))
    for c in cases:
        add_slices(rng, c)
    for entry in SLICE_CORPUS:
        c = corpus_case(rng, entry)
        c["rtlil"] = False
        add_slices(rng, c, all_keys=True)
        cases.append(c)
    seq_cases = [dict(sc, size=layout_size(sc["layout"], sc["enums"])) for sc in SEQ_CORPUS]
    seq_cases += [make_seq_case(rng) for _ in range(n_seqs)]
    # round-3 stream (generated last: the older streams of a seed stay what they were)
    n_r3 = int(os.environ.get("VERIF_C15_R3", 170 if quick else 2200))
    r3_cases = [make_r3_case(rng, entry) for entry in R3_CORPUS] + [make_r3_case(rng) for _ in range(n_r3)]
    # driver
    reqs, spans = [], []
    for c in cases:
        r = requests_for(c)
        spans.append((len(reqs), len(reqs) + len(r)))
        reqs += r
    espans = []
    for j in enum_jobs:
        r = enum_requests(j)
        espans.append((len(reqs), len(reqs) + len(r)))
        reqs += r
    sspans = []
    for sc in seq_cases:
        r = seq_requests1(sc)
        sspans.append((len(reqs), len(reqs) + len(r)))
        reqs += r
    with ProcessPoolExecutor(max_workers=workers) as ex:
        fut_l = [ex.submit(layout_job, ch) for ch in chunks(cases, 12)]
        fut_e = [ex.submit(enum_job, ch) for ch in chunks(enum_jobs, 12)]
        fut_s = [ex.submit(seq_job, ch) for ch in chunks(seq_cases, 25)]
        fut_r = [ex.submit(r3_job, ch) for ch in chunks(r3_cases, 8)]
        resps = chk.driver.ask(reqs)
        bad = [(q, r) for q, r in zip(reqs, resps) if r.startswith("error")]
        if bad:
            raise common.Infra(f"driver rejected a request: {bad[0][0][:300]} -> {bad[0][1]}")
        # second round: requests that are made of first-round answers (the bits of nested arrays, the expected constants)
        reqs2, spans2, sspans2 = [], [], []
        for c, (a, b) in zip(cases, spans):
            r = slice_requests2(c, resps[a:b])
            spans2.append((len(reqs2), len(reqs2) + len(r)))
            reqs2 += r
        for sc, (a, b) in zip(seq_cases, sspans):
            r = seq_requests2(sc, resps[a:b])
            sspans2.append((len(reqs2), len(reqs2) + len(r)))
            reqs2 += r
        resps2 = chk.driver.ask(reqs2)
        bad = [(q, r) for q, r in zip(reqs2, resps2) if r.startswith("error")]
        if bad:
            raise common.Infra(f"driver rejected a request: {bad[0][0][:300]} -> {bad[0][1]}")
        # round-3 stream: constants, then their fields, then one driver round per step of the write scripts
        r3_reqs, r3_spans = [], []
        for c in r3_cases:
            r = r3_requests1(c)
            r3_spans.append((len(r3_reqs), len(r3_reqs) + len(r)))
            r3_reqs += r
        r3_resps = chk.driver.ask(r3_reqs)
        r3_reqs2, r3_spans2 = [], []
        for c, (a, b) in zip(r3_cases, r3_spans):
            r = r3_requests2(c, r3_resps[a:b])
            r3_spans2.append((len(r3_reqs2), len(r3_reqs2) + len(r)))
            r3_reqs2 += r
        r3_resps2 = chk.driver.ask(r3_reqs2)
        bad = [(q, r) for q, r in zip(r3_reqs + r3_reqs2, r3_resps + r3_resps2) if r.startswith("error")]
        if bad:
            raise common.Infra(f"driver rejected a request: {bad[0][0][:300]} -> {bad[0][1]}")
        r3_chains = r3_chain(chk, r3_cases)
        # round 4: the fields of the bits every script leaves (read back from the written memory row)
        r4_reqs, r4_idx = [], []
        for ci, c in enumerate(r3_cases):
            q = r4_read_requests(c, {si: r3_chains[(ci, si)] for si in range(len(c["scripts"]))})
            r4_idx.append(len(r4_reqs) if q else None)
            r4_reqs += q
        r4_resps = chk.driver.ask(r4_reqs)
        bad = [(q, r) for q, r in zip(r4_reqs, r4_resps) if r.startswith("error")]
        if bad:
            raise common.Infra(f"driver rejected a request: {bad[0][0][:300]} -> {bad[0][1]}")
        r4_reads = [None if i is None else {si: common.kv(part) for si, part in enumerate(r4_resps[i].split(" ; "))} for i in r4_idx]
        obs = [o for f in fut_l for o in f.result()]
        robs = [o for f in fut_r for o in f.result()]
        eobs = [o for f in fut_e for o in f.result()]
        sobs = [o for f in fut_s for o in f.result()]
    n_exh = 0
    for c, o, (a, b), (a2, b2) in zip(cases, obs, spans, spans2):
        judge_layout(chk, c, o, resps[a:b])
        judge_slices(chk, c, o, resps[a:b], resps2[a2:b2])
        n_exh += 1 if c["exhaustive"] else 0
    for j, o, (a, b) in zip(enum_jobs, eobs, espans):
        judge_enum(chk, j, o, resps[a:b])
    for sc, o, (a, b), (a2, b2) in zip(seq_cases, sobs, sspans, sspans2):
        judge_seq(chk, sc, o, resps[a:b], resps2[a2:b2])
    for ci, (c, o, (a, b), (a2, b2)) in enumerate(zip(r3_cases, robs, r3_spans, r3_spans2)):
        judge_r3(chk, c, o, r3_resps[a:b], r3_resps2[a2:b2], {si: r3_chains[(ci, si)] for si in range(len(c["scripts"]))},
                 r4_reads[ci])
    for c in r3_cases[len(R3_CORPUS):len(R3_CORPUS) + 2]:
        chk.sample({"round3_shape": ser_layout(c["layout"], c["enums"]), "defaults": {k: ser_init(v) for k, v in c["defaults"]},
                    "originals": [ser_init(i) for i in c["origs"]], "copies": [[v[0] for v in vs] for vs in c["likes"]],
                    "scripts": [(s["what"], fmt_slice(s["key"]) if s["what"] == "slice" else None, [(list(p), v) for p, _f, v in s["steps"]])
                                for s in c["scripts"][:3]],
                    "memories": [(md["depth"], len(md["rows"])) for md in c["mems"]]}, limit=12)
    for sc in seq_cases[len(SEQ_CORPUS):len(SEQ_CORPUS) + 2]:
        chk.sample({"class": ser_layout(sc["layout"], sc["enums"]), "defaults": {k: ser_init(v) for k, v in sc["defaults"]},
                    "calls": [(o, ser_init(x)) for o, x in sc["ops"]]}, limit=8)
    for c in [c for c in cases[len(CORPUS):] if c.get("slices")][:2]:
        chk.sample({"layout": ser_layout(c["layout"], c["enums"]),
                    "slices": [(list(p), n, [fmt_slice(k) for k in keys]) for p, _e, n, keys, _i in c["slices"]]}, limit=10)
    for c in cases[len(CORPUS):len(CORPUS) + 3]:
        chk.sample({"layout": ser_layout(c["layout"], c["enums"]), "raws": len(c["raws"]), "inits": [ser_init(i) for i in c["inits"][:2]]})
    chk.extra["exhaustive"] = {"layouts_with_all_bit_patterns": n_exh, "rule": "every raw pattern when size <= 10 bits, else 24 random ones plus all-zeros and all-ones",
                               "enum_values": "every value of the enumeration's shape plus one below and one above",
                               "flag_pairs": "all pairs of valid member combinations when there are at most 8, else 48 random pairs"}
    ru = chk.extra.get("distribution", {}).get("slice_unit_step_reversed_bounds")
    if ru:
        chk.extra["candidate_finding_reversed_unit_step_slice"] = {
            "what": "a unit-step slice with reversed bounds of an array constant / view with elements wider than 0 bits raises "
                    "instead of selecting nothing like a Python sequence (and like the same slice with 0-bit elements); the "
                    "property's text does not speak of slices that select no element, so this is counted, not judged",
            "example": "data.ArrayLayout(unsigned(4), 5).from_bits(0xABCDE)[3:1] -> ValueError('negative shift count'); "
                       "Signal(data.ArrayLayout(unsigned(4), 5))[3:1] -> IndexError('Slice start 12 must be less than slice stop 4')",
            "counts": dict(ru)}
    chk.cov["rule"] = ("random layout trees (struct/union/array/flexible, depth <= 4, plain signed/unsigned fields incl. width 0, "
                       "shaped Enum/Flag fields incl. signed ones, Struct/Union classes, flexible layouts with gaps and overlaps) built "
                       "from an abstract syntax; per layout: placement, from_bits/as_bits/as_value/const(from_bits) and every field for "
                       "the raw patterns, 5 random initialisers (40% of them malformed), Signal(init=), Signal.like, simulated reads of "
                       "every field path incl. a dynamic array index, testbench/comb/sync writes through 6 field paths, testbench and "
                       "process writes through the element (and fields at every offset inside it) of an array indexed with a signal, RTLIL conversion of "
                       "every 6th design; separately shaped Enum/Flag classes: const/from_bits of every value, & | ^ ~ on flag views "
                       "(circuit and testbench) against Python's enum.Flag. distinct = serialised layout / class; non-trivial = size > 0 and has fields. "
                       "Slices: for up to 2 arrays of every layout (the layout itself or nested, any length incl. 0 and 1, any element) 6 slice "
                       "keys (62% with |step| >= 2, negative steps, open ends, negative and out-of-range bounds) applied to the data.Const of "
                       "6 raw patterns and to the view in simulation for 3 of them: len, layout length, as_bits, as_value and every element "
                       "against the Python list slice of the element list placed by the Lean model/Spec; 4 array layouts with every key of a "
                       "grid of bounds x steps (distinct = layout, path, key; non-trivial = |step| >= 2 selecting something). "
                       "Construction sequences: Struct/Union CLASSES declaring field defaults, built once, then 3-7 calls "
                       "(S.const(init) / Signal(S, init=init) / Signal(S)) on the same class object, each compared (bits, fields read back, "
                       "simulated reset value and fields) with Layout.const of the defaults overridden by exactly the fields this call names "
                       "(distinct = class, defaults, calls; non-trivial = declares a default and some call leaves out a field named earlier). "
                       "Round-3 stream: Struct/Union classes with field defaults (60%) and layouts of every kind; originals Signal(S, init=...) "
                       "whose initialiser overrides every default with an all-zero value (at least one per shape), random ones and none; "
                       "copies Signal.like(sig) plus two of name= / name_suffix= / reset_less= / attrs= / init=other / Value.cast(sig) / "
                       "like(like(sig)): .init, name, reset_less, shape, value and fields at time 0, value after a reset, against Layout.const "
                       "of the merged initialiser; enumeration-shaped signals and their copies; ONE ctx.set(view[slice], values) on strided "
                       "slices of array views (steps +-2..+-5, negative, open ends) and 2-4 field writes to one signal, each from a testbench "
                       "and from an add_process process (no delta cycle between the writes), against the chain of the model's single field "
                       "writes; memories (lib.memory.Memory) whose rows have the shape, with an empty / partial / full initialiser (also "
                       "through the init setter): mem.init, ctx.get(mem.data[i]) and its fields, a comb read port, against Layout.const of "
                       "the row's initialiser (the declared defaults for missing rows). "
                       "Round-4 additions: every script above plus, per shape, up to 24 scripts that write ONE field (every path whose field "
                       "reaches the most significant bit of the layout - last struct field, last array element, widest union member, nested "
                       "last sub-fields - then the other paths) are also applied through the view of a row of a 3-row memory "
                       "(ctx.set(mem.data[i].f, v) from a testbench and from a process) whose target row holds the script's bits (bit 0 set for "
                       "single writes) and whose other rows hold the complement; afterwards the row (mem.data[i], comb read port, every "
                       "top-level field) is compared with the model's chain of single field writes and the other rows with what they held. "
                       "Flag stream: & | ^ for every pair also as `view op member` and `member op view` (a plain Python member of the class, "
                       "reflected operator), value and result type, against the same enum.Flag oracle")
    chk.assumptions += [
        "Flag classes have unsigned shapes and every member value fits the declared shape (no truncation warning)",
        "Flag classes with multi-bit members over bits that have no single-bit member are exercised in the flag stream on member "
        "combinations only (not as layout fields: Python accepts some and rejects other partial patterns of such members)",
        "RTLIL is only checked to elaborate; its behaviour is C04's subject",
        "Struct/Union classes nested in the layout trees are generated without default field values; defaults are declared by the "
        "top-level class of the construction-sequence stream only (a nested field that a call leaves out is all-zero in amaranth, "
        "whatever the nested class declares: not part of the property's text, not checked)",
        "a unit-step slice with reversed bounds (c[3:1]) of an array constant / view whose elements are wider than 0 bits may raise "
        "(ValueError / IndexError) instead of selecting nothing: counted in distribution.slice_unit_step_reversed_bounds, not judged",
        "an array view is indexed with a signal only when its elements are wider than 0 bits (word_select rejects stride 0)",
        "negative initialisers of Flag classes (Python maps -1 to 'all flags') are not exercised",
        "round-3 stream: initialisers are well-formed (no unknown keys); Signal.like(sig, init=None) means 'no override'; the bits of "
        "the rows of mem.init are read from the private list MemoryData.Init._raw when it exists (what elaboration and the simulator "
        "use), otherwise only through the simulator; memories are built for shapes wider than 0 bits",
    ]
