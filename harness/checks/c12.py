"""C12 - synchronous FIFOs refine a bounded queue for every strobe sequence.

Four streams, all against the native driver `amodel_c12` (Model/SyncFifo.lean + Spec/Queue.lean):

1. walks      real SyncFIFO / SyncFIFOBuffered in amaranth's simulator, seeded strobe processes; every
              output in every cycle is compared with the model (`syncfifo` request: the tie) and the
              observed trace is judged by the Spec monitor (`trace` request: the property itself).
2. graph      the complete reachable state graph of the implementation for small depth/width: every
              reachable register+storage state x every input, outputs and successor state against the
              model's `fstep`, every reachable state against the Lean invariant.
3. malformed  constructor arguments: rejected ones against `constructorAccepts`, accepted ones must elaborate.
4. reruns     walks repeated on the SAME objects: one Simulator run, `Simulator.reset()`, run again; the design
              elaborated once and that Fragment simulated in several Simulators; both combined.  Every run starts
              from the FIFO's reset state and is compared with the model and judged by the Spec monitor like a walk.

impl != spec on a concrete input  -> chk.violation (replay = class, width, depth, input sequence from reset)
impl == spec but impl != model    -> chk.not_shown
"""
import concurrent.futures
import json
import os

from .. import common

LEVEL = "proof"
EXE = "amodel_c12"

DEPTHS = (0, 1, 2, 3, 4, 5, 7, 8, 16, 33)
WIDTHS = (0, 1, 4, 9)
PATTERNS = ("random", "bursty", "always_read", "always_write", "fill_drain", "both")
CLASSES = ("SyncFIFO", "SyncFIFOBuffered")
OUT_NAMES = ("w_rdy", "w_level", "r_rdy", "r_data", "r_level", "level")


# ------------------------------------------------------------------------------------------------
# the implementation side (runs in worker processes too; no randomness in here)

def _build(cls_name, width, depth):
    """the real FIFO inside a wrapper that owns a `sync` domain; returns (fifo, fragment, registers, memories)"""
    from amaranth.hdl import Module, Signal, Fragment
    from amaranth.hdl._mem import MemoryInstance
    from amaranth.lib import fifo as fifo_mod
    f = getattr(fifo_mod, cls_name)(width=width, depth=depth)
    m = Module()
    m.submodules.f = f
    m.d.sync += Signal(name="c12_dummy").eq(1)
    frag = Fragment.get(m, None)
    regs, mems = {}, []

    def walk(fr, top):
        if isinstance(fr, MemoryInstance):
            mems.append(fr)
        if not top:
            for dom, st in fr.statements.items():
                if dom != "comb":
                    for s in st._lhs_signals():
                        regs[s.name] = s
        for sub, _name, _ in fr.subfragments:
            walk(sub, False)

    walk(frag, True)
    return f, frag, regs, mems


def sim_walk(job):
    """job = (cls_name, width, depth, [(w_en, w_data, r_en), ...]) -> list of 6-tuples of outputs, or ('error', kind, msg)"""
    cls_name, width, depth, inputs = job
    try:
        from amaranth.hdl import Period
        from amaranth.sim import Simulator
        f, frag, _regs, _mems = _build(cls_name, width, depth)
        sim = Simulator(frag)
        sim.add_clock(Period(MHz=1))
        obs = []

        async def tb(ctx):
            for (w_en, w_data, r_en) in inputs:
                ctx.set(f.w_en, w_en)
                ctx.set(f.w_data, w_data)
                ctx.set(f.r_en, r_en)
                obs.append((ctx.get(f.w_rdy), ctx.get(f.w_level), ctx.get(f.r_rdy), ctx.get(f.r_data),
                            ctx.get(f.r_level), ctx.get(f.level)))
                await ctx.tick()

        sim.add_testbench(tb)
        sim.run()
        return obs
    except Exception as e:  # a valid configuration must simulate; reported by the caller
        return ("error", common.errkind(e), str(e)[:200])


ROUTES = {
    "reset": "ONE Simulator: run, Simulator.reset(), run again",
    "refrag": "the design elaborated ONCE (Fragment.get); that Fragment object simulated in a new Simulator per run",
    "refrag+reset": "the design elaborated ONCE; per Simulator on that Fragment: run, Simulator.reset(), run again",
}


def sim_rerun(job):
    """job = (cls_name, width, depth, route, [inputs of run 1, inputs of run 2, ...]); every run starts from the reset
    state of the FIFO, reached by the route -> [outputs of run 1, outputs of run 2, ...] or ('error', kind, msg)"""
    cls_name, width, depth, route, segments = job
    try:
        from amaranth.hdl import Period
        from amaranth.sim import Simulator
        f, frag, _regs, _mems = _build(cls_name, width, depth)
        out = [[] for _ in segments]
        cur = {"k": 0}

        async def tb(ctx):
            k = cur["k"]
            for (w_en, w_data, r_en) in segments[k]:
                ctx.set(f.w_en, w_en)
                ctx.set(f.w_data, w_data)
                ctx.set(f.r_en, r_en)
                out[k].append((ctx.get(f.w_rdy), ctx.get(f.w_level), ctx.get(f.r_rdy), ctx.get(f.r_data),
                               ctx.get(f.r_level), ctx.get(f.level)))
                await ctx.tick()

        def new_sim():
            sim = Simulator(frag)
            sim.add_clock(Period(MHz=1))
            sim.add_testbench(tb)
            return sim

        sim = None
        for k in range(len(segments)):
            cur["k"] = k
            if route == "reset":
                if sim is None:
                    sim = new_sim()
                else:
                    sim.reset()
            elif route == "refrag":
                sim = new_sim()
            else:                                  # refrag+reset: simulators 1, 1, 2, 2, ...
                if k % 2 == 0:
                    sim = new_sim()
                else:
                    sim.reset()
            sim.run()
        return out
    except Exception as e:
        return ("error", common.errkind(e), str(e)[:200])


def _state_layout(cls_name, depth):
    """which implementation registers make up the state; order = the driver's 6 register slots"""
    if depth == 0:
        return [None] * 6, 0
    if cls_name == "SyncFIFO":
        return ["produce", "consume", "level", None, None, None], depth
    if depth == 1:
        return [None, None, None, None, "r_data", "level"], 0
    return ["produce", "consume", "inner_level", "r_rdy", "r_port__data", None], depth - 1


def sim_graph(job):
    """complete reachable state graph of the implementation.
    job = (cls_name, width, depth) -> dict(init=state, transitions=[(state, input, out, next)], parents={...})
    state = (6 registers, rows)"""
    cls_name, width, depth = job
    try:
        from amaranth.hdl import Period
        from amaranth.sim import Simulator
        f, frag, regs, mems = _build(cls_name, width, depth)
        layout, nrows = _state_layout(cls_name, depth)
        found = set(regs)
        for mi in mems:
            for rp in mi._read_ports:
                if rp._domain != "comb":
                    regs[rp._data.name] = rp._data
                    found.add(rp._data.name)
        expected = {n for n in layout if n}
        if found != expected or len(mems) != (1 if nrows else 0) or (mems and mems[0]._data.depth != nrows):
            return {"layout_mismatch": {"found": sorted(found), "expected": sorted(expected),
                                        "memories": [mi._data.depth for mi in mems]}}
        rows = [mems[0]._data[k] for k in range(nrows)] if nrows else []
        slots = [regs[n] if n else None for n in layout]
        inputs = [(w_en, w_data, r_en) for w_en in (0, 1) for w_data in range(1 << width) for r_en in (0, 1)]
        res = {"transitions": [], "parent": {}}

        sim = Simulator(frag)
        sim.add_clock(Period(MHz=1))

        async def tb(ctx):
            def get_state():
                return (tuple(ctx.get(s) if s is not None else 0 for s in slots), tuple(ctx.get(r) for r in rows))

            def set_state(st):
                for s, v in zip(slots, st[0]):
                    if s is not None:
                        ctx.set(s, v)
                for r, v in zip(rows, st[1]):
                    ctx.set(r, v)

            init = get_state()
            res["init"] = init
            seen = {init}
            frontier = [init]
            while frontier:
                nxt = []
                for st in frontier:
                    for inp in inputs:
                        set_state(st)
                        ctx.set(f.w_en, inp[0]); ctx.set(f.w_data, inp[1]); ctx.set(f.r_en, inp[2])
                        out = (ctx.get(f.w_rdy), ctx.get(f.w_level), ctx.get(f.r_rdy), ctx.get(f.r_data),
                               ctx.get(f.r_level), ctx.get(f.level))
                        await ctx.tick()
                        st2 = get_state()
                        res["transitions"].append((st, inp, out, st2))
                        if st2 not in seen:
                            seen.add(st2)
                            res["parent"][st2] = (st, inp)
                            nxt.append(st2)
                frontier = nxt
            res["states"] = len(seen)

        sim.add_testbench(tb)
        sim.run()
        return res
    except Exception as e:
        return ("error", common.errkind(e), str(e)[:200])


# ------------------------------------------------------------------------------------------------
# generators (parent process only; chk.rng is the only source of randomness)

def gen_inputs(rng, pattern, width, depth, n):
    def data(t):
        if width == 0:
            return 0
        if data.mode == 0:
            return rng.getrandbits(width)
        return (t * 3 + 1) & ((1 << width) - 1)
    data.mode = rng.randrange(2)
    out = []
    if pattern == "random":
        pw, pr = rng.choice([0.3, 0.5, 0.7]), rng.choice([0.3, 0.5, 0.7])
        for t in range(n):
            out.append((int(rng.random() < pw), data(t), int(rng.random() < pr)))
    elif pattern == "bursty":
        t = 0
        while t < n:
            ln = rng.randint(1, 2 * depth + 4)
            pw, pr = rng.choice([0.05, 0.95]), rng.choice([0.05, 0.95])
            for _ in range(min(ln, n - t)):
                out.append((int(rng.random() < pw), data(t), int(rng.random() < pr)))
                t += 1
    elif pattern == "always_read":
        pw = rng.choice([0.3, 0.7, 1.0])
        for t in range(n):
            out.append((int(rng.random() < pw), data(t), 1))
    elif pattern == "always_write":
        pr = rng.choice([0.0, 0.3, 0.7])
        for t in range(n):
            out.append((1, data(t), int(rng.random() < pr)))
    elif pattern == "fill_drain":
        t = 0
        while t < n:
            for _ in range(depth + rng.randint(0, 3)):
                out.append((1, data(t), 0)); t += 1
            for _ in range(depth + rng.randint(0, 4)):
                out.append((0, data(t), 1)); t += 1
            if rng.random() < 0.3:
                out.append((0, data(t), 0)); t += 1
        out = out[:n]
    elif pattern == "both":
        pre = rng.randint(0, depth + 1)
        for t in range(n):
            out.append((1, data(t), 0 if t < pre else 1))
    else:
        raise ValueError(pattern)
    return out


def req_run(cls_name, width, depth, inputs):
    b = 1 if cls_name == "SyncFIFOBuffered" else 0
    return f"(syncfifo {width} {depth} {b}" + "".join(f" ({a} {d} {r})" for a, d, r in inputs) + ")"


def req_trace(cls_name, width, depth, inputs, obs):
    b = 1 if cls_name == "SyncFIFOBuffered" else 0
    return (f"(trace {width} {depth} {b}" +
            "".join(f" ({a} {d} {r} {o[0]} {o[1]} {o[2]} {o[3]} {o[4]} {o[5]})" for (a, d, r), o in zip(inputs, obs)) + ")")


def parse_model(resp):
    d = common.kv(resp)
    if "model" not in d:
        raise common.Infra(f"driver: unexpected response {resp[:200]!r}")
    cyc = [tuple(int(x) for x in c.split(",")) for c in d["model"].split(";")] if d["model"] else []
    spec = [tuple(int(x) for x in c.split(",")) for c in d["spec"].split(";")] if d["spec"] else []
    return cyc, spec, d.get("monitor", "")


def parse_monitor(resp):
    """-> None if accepted, else (cycle, [clauses])"""
    if resp.startswith("ok"):
        return None
    if resp.startswith("fail"):
        d = common.kv(resp)
        return int(d["t"]), d["clauses"].split(",")
    raise common.Infra(f"driver: unexpected monitor response {resp[:200]!r}")


# ------------------------------------------------------------------------------------------------

def _shrink(chk, cls_name, width, depth, inputs, budget=120):
    """shorten a failing input sequence: cut after the failing cycle, then drop chunks while the monitor still fails"""
    def fails(inp):
        obs = sim_walk((cls_name, width, depth, inp))
        if isinstance(obs, tuple):
            return None
        r = parse_monitor(chk.driver.ask([req_trace(cls_name, width, depth, inp, obs)])[0])
        return (r, obs) if r else None
    cur = fails(inputs)
    if not cur:
        return inputs, None, None
    inputs = inputs[:cur[0][0] + 1]
    chunk = max(1, len(inputs) // 2)
    while chunk >= 1 and budget > 0:
        i = 0
        progressed = False
        while i < len(inputs) and budget > 0:
            cand = inputs[:i] + inputs[i + chunk:]
            budget -= 1
            r = fails(cand) if cand else None
            if r:
                inputs = cand[:r[0][0] + 1]
                cur = r
                progressed = True
            else:
                i += chunk
        if not progressed or chunk == 1:
            chunk //= 2
    cur = fails(inputs) or cur
    return inputs, cur[0], cur[1][:len(inputs)]


def judge_walk(chk, job, obs, model_resp, mon_resp, origin):
    """decision rules for one simulated input sequence; returns True if everything agreed"""
    cls_name, width, depth, inputs = job
    base = {"class": cls_name, "width": width, "depth": depth, "origin": origin}
    if isinstance(obs, tuple):
        chk.violation(f"{cls_name}(width={width}, depth={depth}) does not simulate: {obs[1]}: {obs[2]}",
                      dict(base, inputs=inputs[:20], error=list(obs)))
        return False
    model, spec, model_mon = parse_model(model_resp)
    if model_mon != "ok" or any(m[5] != s[0] or (m[2] and m[3] != s[1]) for m, s in zip(model, spec)):
        # excluded by theorems sync_trace_accepted / buffered_trace_accepted: the machinery itself is broken
        raise common.Infra(f"model trace rejected by the Spec monitor ({model_mon}) for {base} - theorem/driver mismatch")
    mon = parse_monitor(mon_resp)
    diff = next((t for t, (o, m) in enumerate(zip(obs, model)) if tuple(o) != tuple(m)), None)
    if mon is not None:
        chk.extra["failing_sequences"] = chk.extra.get("failing_sequences", 0) + 1
        # minimise only the first few failing inputs (each minimisation re-simulates up to 60 times);
        # the rest are cut right after the failing cycle
        small, smon, sobs = (_shrink(chk, cls_name, width, depth, inputs, budget=60)
                             if len(chk.violations) < 3 else (None, None, None))
        if smon is None:
            small, smon, sobs = inputs[:mon[0] + 1], mon, obs[:mon[0] + 1]
        chk.violation(
            f"{cls_name}(width={width}, depth={depth}): cycle {smon[0]} of a {len(small)}-cycle run from reset violates "
            f"{','.join(smon[1])}",
            dict(base, inputs=small, observed=[dict(zip(OUT_NAMES, o)) for o in sobs], failing_cycle=smon[0],
                 clauses=smon[1], input_format="(w_en, w_data, r_en) per cycle", classes=[]))
        return False
    if diff is not None:
        chk.not_shown(
            f"{cls_name}(width={width}, depth={depth}): outputs differ from the model at cycle {diff} although the "
            f"observed trace satisfies the Spec monitor",
            dict(base, inputs=inputs[:diff + 1], impl=dict(zip(OUT_NAMES, obs[diff])), model=dict(zip(OUT_NAMES, model[diff]))))
        return False
    return True


def stream_walks(chk, pool, reps, scale):
    rng = chk.rng
    jobs, meta = [], []
    for _rep in range(reps):
        for cls_name in CLASSES:
            for depth in DEPTHS:
                for width in WIDTHS:
                    for pattern in PATTERNS:
                        n = scale * (4 * depth + 100)
                        jobs.append((cls_name, width, depth, gen_inputs(rng, pattern, width, depth, n)))
                        meta.append(pattern)
    results = list(pool.map(sim_walk, jobs, chunksize=8))
    reqs = []
    for job, obs in zip(jobs, results):
        reqs.append(req_run(*job))
        reqs.append(req_trace(job[0], job[1], job[2], job[3], obs) if not isinstance(obs, tuple) else "(init 0 0 0)")
    resps = chk.driver.ask(reqs)
    cycles = 0
    for k, (job, obs, pattern) in enumerate(zip(jobs, results, meta)):
        cls_name, width, depth, inputs = job
        ok = judge_walk(chk, job, obs, resps[2 * k], resps[2 * k + 1], f"walk:{pattern}")
        chk.count(1)
        chk.hist("class", cls_name); chk.hist("depth", depth); chk.hist("width", width); chk.hist("pattern", pattern)
        if isinstance(obs, tuple):
            continue
        cycles += len(obs)
        pushes = sum(1 for i, o in zip(inputs, obs) if i[0] and o[0])
        pops = sum(1 for i, o in zip(inputs, obs) if i[2] and o[2])
        both = sum(1 for i, o in zip(inputs, obs) if i[0] and o[0] and i[2] and o[2])
        full = sum(1 for o in obs if o[5] == depth)
        refused_w = sum(1 for i, o in zip(inputs, obs) if i[0] and not o[0])
        refused_r = sum(1 for i, o in zip(inputs, obs) if i[2] and not o[2])
        for name, v in (("transfers_push", pushes), ("transfers_pop", pops), ("cycles_push_and_pop", both),
                        ("cycles_at_capacity", full), ("writes_refused", refused_w), ("reads_refused", refused_r),
                        ("cycles", len(obs))):
            chk.hist("events", name, v)
        nontrivial = depth > 0 and pushes > 0 and pops > 0
        chk.hist("walk_kind", "nontrivial" if nontrivial else ("depth0" if depth == 0 else "one-sided"))
        chk.distinct((cls_name, width, depth, tuple(inputs)), nontrivial=nontrivial or depth == 0)
        if ok and pattern == "bursty" and depth in (3, 5) and width == 4:
            chk.sample({"class": cls_name, "width": width, "depth": depth, "pattern": pattern,
                        "first_cycles": [dict(zip(("w_en", "w_data", "r_en") + OUT_NAMES, list(i) + list(o)))
                                         for i, o in list(zip(inputs, obs))[:8]],
                        "pushes": pushes, "pops": pops}, limit=4)
    chk.extra["walk_cycles"] = chk.extra.get("walk_cycles", 0) + cycles
    return len(jobs)


def judge_rerun(chk, job, seg_obs, resps, origin):
    """every run of a re-run job against the model and the Spec monitor (each run starts from reset)"""
    cls_name, width, depth, route, segments = job
    base = {"class": cls_name, "width": width, "depth": depth, "origin": origin, "route": route, "route_means": ROUTES[route],
            "segments": [list(map(list, sg)) for sg in segments], "input_format": "(w_en, w_data, r_en) per cycle"}
    if isinstance(seg_obs, tuple):
        chk.violation(f"{cls_name}(width={width}, depth={depth}) does not simulate on the route '{route}' ({ROUTES[route]}): "
                      f"{seg_obs[1]}: {seg_obs[2]}", dict(base, error=list(seg_obs)))
        return False
    for k, (inputs, obs) in enumerate(zip(segments, seg_obs)):
        model, spec, model_mon = parse_model(resps[2 * k])
        if model_mon != "ok":
            raise common.Infra(f"model trace rejected by the Spec monitor ({model_mon}) - theorem/driver mismatch")
        if len(obs) != len(inputs):
            chk.violation(f"{cls_name}(width={width}, depth={depth}), route '{route}': run #{k + 1} stops after {len(obs)} of "
                          f"{len(inputs)} cycles", dict(base, run=k + 1, classes=[]))
            return False
        mon = parse_monitor(resps[2 * k + 1])
        diff = next((t for t, (o, m) in enumerate(zip(obs, model)) if tuple(o) != tuple(m)), None)
        if mon is not None:
            t, cl = mon
            extra = ""
            if "r_data_is_oldest" in cl and t < len(model):
                extra = f": r_data={obs[t][3]:#x}, the oldest unread entry is {model[t][3]:#x}"
            chk.extra["failing_sequences"] = chk.extra.get("failing_sequences", 0) + 1
            chk.violation(
                f"{cls_name}(width={width}, depth={depth}), run #{k + 1} on the route '{route}' ({ROUTES[route]}): cycle {t} of the run "
                f"violates {','.join(cl)}{extra}",
                dict(base, run=k + 1, inputs=[list(x) for x in inputs[:t + 1]],
                     observed=[dict(zip(OUT_NAMES, o)) for o in obs[:t + 1]][-6:], failing_cycle=t, clauses=cl, classes=[]))
            return False
        if diff is not None:
            chk.not_shown(
                f"{cls_name}(width={width}, depth={depth}), run #{k + 1} on the route '{route}': outputs differ from the model at cycle "
                f"{diff} although the observed trace satisfies the Spec monitor",
                dict(base, run=k + 1, impl=dict(zip(OUT_NAMES, obs[diff])), model=dict(zip(OUT_NAMES, model[diff]))))
            return False
    return True


def stream_reruns(chk, pool, reps, scale):
    """a share of the walks is run two or three times: on one Simulator with reset() in between, and on Simulators that
    share one elaborated Fragment; every run is compared like a walk from reset"""
    rng = chk.rng
    jobs, meta = [], []
    for _rep in range(reps):
        for cls_name in CLASSES:
            for depth in (0, 1, 2, 3, 4, 5, 8, 16):
                for width in (1, 4, 9):
                    for route in ROUTES:
                        nseg = 2 if route == "reset" else rng.choice([2, 3]) if route == "refrag" else 4
                        pats = [rng.choice(PATTERNS) for _ in range(nseg)]
                        n = scale * (3 * depth + 24)
                        segs = [gen_inputs(rng, pt, width, depth, n + rng.randint(0, 7)) for pt in pats]
                        if rng.random() < 0.3:
                            segs[1] = list(segs[0])             # the very same stimulus again
                        jobs.append((cls_name, width, depth, route, segs))
                        meta.append(pats)
    results = list(pool.map(sim_rerun, jobs, chunksize=4))
    reqs, index = [], []
    for job, res in zip(jobs, results):
        index.append(len(reqs))
        if isinstance(res, tuple):
            continue
        for inputs, obs in zip(job[4], res):
            reqs.append(req_run(job[0], job[1], job[2], inputs))
            reqs.append(req_trace(job[0], job[1], job[2], inputs[:len(obs)], obs))
    resps = chk.driver.ask(reqs)
    for job, res, pats, at in zip(jobs, results, meta, index):
        cls_name, width, depth, route, segs = job
        judge_rerun(chk, job, res, resps[at:at + 2 * len(segs)], f"rerun:{route}:{'/'.join(pats)}")
        chk.count(len(segs))
        chk.hist("rerun_route", route)
        chk.hist("rerun_runs_per_job", len(segs))
        chk.hist("rerun_class", cls_name)
        chk.hist("rerun_depth", depth)
        if isinstance(res, tuple):
            continue
        later = 0
        for k, (inputs, obs) in enumerate(zip(segs, res)):
            if k == 0:
                continue
            # what a later run must get right: an entry written into the EMPTY queue (it lands in the row the read
            # port already addresses) and read back; entries read back at all
            pops = sum(1 for i, o in zip(inputs, obs) if i[2] and o[2])
            wr_empty = sum(1 for i, o in zip(inputs, obs) if i[0] and o[0] and o[5] == 0)
            chk.hist("events", "rerun_later_run_pops", pops)
            chk.hist("events", "rerun_later_run_writes_into_empty_queue", wr_empty)
            chk.hist("events", "rerun_later_run_cycles", len(obs))
            later += pops
        left = sum(1 for o in res[0][-1:] if o[5] > 0)
        chk.hist("rerun_first_run_ends_with_entries_held", bool(left))
        chk.distinct(("rerun", cls_name, width, depth, route, repr(segs)), nontrivial=depth > 0 and later > 0)
    return len(jobs)


def _fmt_state(st):
    return "(" + " ".join(str(x) for x in st[0]) + ") (" + " ".join(str(x) for x in st[1]) + ")"


def _path_to(res, st):
    path = []
    while st in res["parent"]:
        st, inp = res["parent"][st]
        path.append(inp)
    return path[::-1]


def stream_graph(chk, pool, configs):
    jobs = [(c, w, d) for c in CLASSES for (d, w) in configs]
    results = list(pool.map(sim_graph, jobs))
    exhaustive = {}
    for job, res in zip(jobs, results):
        cls_name, width, depth = job
        b = 1 if cls_name == "SyncFIFOBuffered" else 0
        tag = f"{cls_name}(width={width}, depth={depth})"
        if isinstance(res, tuple):
            chk.violation(f"{tag} does not simulate: {res[1]}: {res[2]}", {"class": cls_name, "width": width, "depth": depth,
                                                                         "error": list(res), "origin": "graph"})
            continue
        if "layout_mismatch" in res:
            chk.not_shown(f"{tag}: the implementation's registers are not the ones the model has", res["layout_mismatch"])
            continue
        reqs = [f"(init {width} {depth} {b})"]
        for st, inp, _out, _st2 in res["transitions"]:
            reqs.append(f"(fstep {width} {depth} {b} {_fmt_state(st)} ({inp[0]} {inp[1]} {inp[2]}))")
        resps = chk.driver.ask(reqs)
        minit = common.kv(resps[0]).get("state", "")
        iinit = ",".join(map(str, res["init"][0])) + "|" + ",".join(map(str, res["init"][1]))
        if minit != iinit:
            chk.not_shown(f"{tag}: reset state differs from the model's", {"impl": iinit, "model": minit})
            continue
        bad = None
        for (st, inp, out, st2), resp in zip(res["transitions"], resps[1:]):
            d = common.kv(resp)
            if "out" not in d:
                raise common.Infra(f"driver: unexpected fstep response {resp[:200]!r}")
            iout = ",".join(map(str, out))
            inext = ",".join(map(str, st2[0])) + "|" + ",".join(map(str, st2[1]))
            if d["inv"] != "1":
                bad = ("a reachable state falsifies the invariant of the proofs", st, inp, {"state": st})
                break
            if d["out"] != iout or d["next"] != inext:
                bad = ("transition differs from the model", st, inp,
                       {"impl_out": iout, "model_out": d["out"], "impl_next": inext, "model_next": d["next"]})
                break
        chk.count(len(res["transitions"]))
        chk.hist("graph_transitions", tag, len(res["transitions"]))
        exhaustive[tag] = {"states": res["states"], "transitions": len(res["transitions"])}
        for st, inp, _o, _n in res["transitions"][:: max(1, len(res["transitions"]) // 50)]:
            chk.distinct(("graph", cls_name, width, depth, st, inp), nontrivial=depth > 0)
        if bad:
            what, st, inp, detail = bad
            # a concrete input sequence from reset that walks into the differing transition, then drains and refills
            path = _path_to(res, st) + [inp] + [(0, 0, 1)] * (depth + 3) + [(1, (1 << width) - 1 if width else 0, 0)] * (depth + 2) \
                + [(1, 0, 1)] * (depth + 3)
            obs = sim_walk((cls_name, width, depth, path))
            r = chk.driver.ask([req_run(cls_name, width, depth, path),
                                req_trace(cls_name, width, depth, path, obs) if not isinstance(obs, tuple) else "(init 0 0 0)"])
            if judge_walk(chk, (cls_name, width, depth, path), obs, r[0], r[1], "graph:path-to-differing-transition"):
                chk.not_shown(f"{tag}: {what} (internal state; port behaviour on the path through it is unchanged)",
                              dict(detail, state=_fmt_state(st), input=list(inp), path_from_reset=path[:len(_path_to(res, st)) + 1]))
    chk.extra.setdefault("exhaustive", {}).update(exhaustive)
    return len(jobs)


_NONINT = object()


def stream_malformed(chk):
    from amaranth.lib import fifo as fifo_mod
    from amaranth.hdl import Fragment
    values = [-(1 << 40), -7, -1, 0, 1, 2, 3, 6, "8", 1.5, 2.0, None, (1,), b"\x01"]
    reqs, cases = [], []
    for cls_name in CLASSES:
        for w in values:
            for d in values:
                if isinstance(w, int) and isinstance(d, int) and w >= 0 and d >= 0 and (w, d) not in ((0, 0), (3, 0), (0, 6), (2, 1), (6, 3)):
                    continue      # plain valid configurations are the business of the other streams; keep a few
                cases.append((cls_name, w, d))
                reqs.append("(ctor {} {})".format(*(str(x) if isinstance(x, int) else "nonint" for x in (w, d))))
    resps = chk.driver.ask(reqs)
    for (cls_name, w, d), model in zip(cases, resps):
        valid = isinstance(w, int) and isinstance(d, int) and w >= 0 and d >= 0
        try:
            f = getattr(fifo_mod, cls_name)(width=w, depth=d)
            if valid:
                Fragment.get(f, None)
            impl = "ok"
        except Exception as e:
            impl = common.errkind(e)
        chk.count(1)
        chk.hist("constructor", f"{'valid' if valid else 'invalid'}:{impl}")
        chk.distinct(("ctor", cls_name, repr(w), repr(d)), nontrivial=not valid)
        if valid and impl != "ok":
            chk.violation(f"{cls_name}(width={w!r}, depth={d!r}) is a configuration the property quantifies over but it raises {impl}",
                          {"class": cls_name, "width": w, "depth": d, "impl": impl, "origin": "malformed"})
        elif impl != model:
            chk.not_shown(f"{cls_name}(width={w!r}, depth={d!r}): constructor gives {impl}, model says {model}",
                          {"class": cls_name, "width": repr(w), "depth": repr(d), "impl": impl, "model": model})
    return len(cases)


# ------------------------------------------------------------------------------------------------

def run(chk):
    if not chk.lean():
        chk.not_shown("Lean build of Properties/C12 failed", chk.build_log[-3000:])
        return
    quick = chk.tier == "quick"
    reps, scale = (2, 1) if quick else (10, 3)
    graph_cfg = [(d, w) for d in range(0, 5) for w in (0, 1)]          # complete: depth <= 4, width <= 1
    if not quick:
        graph_cfg += [(5, 1), (6, 1), (2, 2), (3, 2), (4, 2)]
    workers = min(16, os.cpu_count() or 2)
    with concurrent.futures.ProcessPoolExecutor(max_workers=workers) as pool:
        nw = stream_walks(chk, pool, reps, scale)
        ng = stream_graph(chk, pool, graph_cfg)
        # drawn after the older streams, which therefore see the same inputs as before
        nr = stream_reruns(chk, pool, 1 if quick else 4, scale)
    nm = stream_malformed(chk)
    chk.extra["streams"] = {"walks": nw, "graph_configs": ng, "malformed": nm, "reruns": nr}
    chk.cov["rule"] = (
        "walks: every (class, depth in {0,1,2,3,4,5,7,8,16,33}, width in {0,1,4,9}, strobe pattern in "
        "{random,bursty,always_read,always_write,fill_drain,both}) x repetitions, 4*depth+100 cycles (x3 thorough) from reset; "
        "distinct = distinct (class,width,depth,input sequence), non-trivial = at least one accepted write and one accepted read "
        "(depth 0: counted, nothing can happen). graph: complete reachable (registers+storage) state graph x all inputs for the "
        "listed small configurations (coverage.exhaustive); a sample of transitions is counted as distinct. malformed: "
        "constructor argument grid (negative, non-int). reruns: every (class, depth in {0,1,2,3,4,5,8,16}, width in {1,4,9}) on three "
        "routes - one Simulator run twice with Simulator.reset() in between; the design elaborated once (Fragment.get) and that "
        "Fragment simulated in 2-3 new Simulators; both combined (4 runs) - each run 3*depth+24.. cycles of a random strobe pattern "
        "(30%: the same stimulus again), every run compared with the model and judged by the Spec monitor like a walk from reset; "
        "distinct = (class,width,depth,route,inputs), non-trivial = a later run reads entries back.")
    chk.assumptions += [
        "one `step` of the model = one rising edge of `sync` with reset de-asserted; reset behaviour itself belongs to C03",
        "outputs are sampled by a testbench after setting the inputs and before the edge (ctx.get before ctx.tick)",
        "graph stream: a state forced with ctx.set on the named registers / memory rows is the state the design would be in "
        "(every such state was first *reached* by real transitions; the register set is checked against the fragment)",
        "w_data < 2^width (a Signal(width) cannot hold anything else)",
        "reruns: Simulator.reset() and a new Simulator on an already elaborated Fragment both put the FIFO (registers and storage) "
        "into the model's initial state; the first run of a job is not required to drain the queue",
    ]


def replay(chk, path):
    """re-run a recorded failing input: prints what the implementation, the model and the Spec monitor say"""
    rep = json.load(open(path))["replay"]
    chk.driver = common.Driver(EXE)
    if "route" in rep:
        segs = [[tuple(x) for x in sg] for sg in rep["segments"]]
        job = (rep["class"], rep["width"], rep["depth"], rep["route"], segs)
        res = sim_rerun(job)
        if isinstance(res, tuple):
            print("implementation:", res)
            return common.EXIT_VIOLATION
        bad = False
        for k, (inputs, obs) in enumerate(zip(segs, res)):
            r = chk.driver.ask([req_run(job[0], job[1], job[2], inputs), req_trace(job[0], job[1], job[2], inputs, obs)])
            model, _spec, _ = parse_model(r[0])
            same = all(tuple(o) == tuple(m) for o, m in zip(obs, model))
            print(f"run #{k + 1} on the route '{rep['route']}': Spec monitor: {r[1]}; outputs {'=' if same else '!='} model")
            bad = bad or not r[1].startswith("ok") or not same
        return common.EXIT_VIOLATION if bad else common.EXIT_OK
    inputs = [tuple(x) for x in rep["inputs"]]
    job = (rep["class"], rep["width"], rep["depth"], inputs)
    obs = sim_walk(job)
    if isinstance(obs, tuple):
        print("implementation:", obs)
        return common.EXIT_VIOLATION
    r = chk.driver.ask([req_run(*job), req_trace(job[0], job[1], job[2], inputs, obs)])
    model, _spec, _ = parse_model(r[0])
    for t, (i, o, m) in enumerate(zip(inputs, obs, model)):
        print(t, "in", i, "impl", dict(zip(OUT_NAMES, o)), "" if tuple(o) == tuple(m) else f"model {dict(zip(OUT_NAMES, m))}")
    print("Spec monitor:", r[1])
    return common.EXIT_OK if r[1].startswith("ok") and all(tuple(o) == tuple(m) for o, m in zip(obs, model)) else common.EXIT_VIOLATION
