"""C02 - assignments and control flow: last active assignment wins, per bit."""
import os
import random
from concurrent.futures import ProcessPoolExecutor

from .. import common
from ..common import ser_ctx, ser_env, errkind

LEVEL = "proof"


def prog_job(args):
    seed, n_progs, depth, n_steps = args
    from amaranth.hdl import Signal, Module, Fragment, Period, unsigned
    from amaranth.sim import Simulator
    from .. import gen_expr, gen_prog
    rng = random.Random(seed)
    out = []
    hist = {}
    witness = n_progs == "witness"
    for _ in range(1 if witness else n_progs):
        inputs = [Signal(gen_expr.rand_shape(rng, 5), name=f"i{k}") for k in range(rng.randint(2, 4))]
        offs = [Signal(unsigned(rng.randint(0, 3)), name=f"o{k}") for k in range(rng.randint(1, 2))]
        inputs = inputs + offs
        mk = lambda pre, k: Signal(sh := gen_expr.rand_shape(rng, 6), name=f"{pre}{k}", init=gen_expr.rand_value(rng, sh))
        combT = [mk("c", k) for k in range(rng.randint(1, 4))]
        syncT = [mk("s", k) for k in range(rng.randint(1, 4))]
        allsigs = inputs + combT + syncT
        offcands = [s for s in inputs if not s.shape().signed and len(s) <= 3]
        g_comb = gen_expr.Gen(rng, inputs + syncT, maxw=6)
        g_sync = gen_expr.Gen(rng, inputs + syncT + combT, maxw=6)
        tg_comb = gen_expr.TargetGen(rng, combT, offcands, alias=False, hist=hist)
        tg_sync = gen_expr.TargetGen(rng, syncT, offcands, alias=False, hist=hist)

        class Fresh:                 # every target starts with no signal used yet
            def __init__(self, tg): self.tg = tg
            def target(self, d):
                self.tg.used = set()
                return self.tg.target(d)
        try:
            if witness:
                # recorded finding F9: one signal twice in a concatenation assigned through a part-select
                from amaranth.hdl import Cat
                o1 = Signal(1, name="o"); t2 = Signal(2, name="t")
                inputs, combT, syncT = [o1], [], [t2]
                allsigs = inputs + combT + syncT
                items = [("assign", "sync", Cat(t2, t2).bit_select(o1, 1), 1)]
            else:
                items = gen_prog.gen_items(rng, g_comb, g_sync, Fresh(tg_comb), Fresh(tg_sync), rng.randint(1, depth), hist,
                                            fsm_watch=True)
        except Exception as e:
            hist["generator_error:" + errkind(e)] = hist.get("generator_error:" + errkind(e), 0) + 1
            continue
        case = {"seed": seed}
        try:
            m2 = Module()
            from amaranth.hdl import ClockDomain
            cd2 = ClockDomain("sync")
            m2.domains.sync = cd2
            fsms = gen_prog.build(m2, items)
            dummy = Signal(name="dummy"); m2.d.sync += dummy.eq(~dummy)
            # signals the DSL created itself: FSM state registers (sync), ongoing() signals and og (comb)
            fsm_list = list(gen_prog.fsm_items(items))
            ogs = [sig for it in fsm_list for sig, _ in it[4]]
            states = [fsms[it[1]].state for it in fsm_list]
            # the signals `fsm.ongoing(S)` returns, one per encoded state (all encoded states are defined by now)
            ogints = [fsms[it[1]].ongoing(sn) for it in fsm_list for sn in fsms[it[1]].encoding]
            ogs = ogs + ogints
            gen_prog.fsm_shapes(items, hist)
            frag = Fragment.get(m2, None)
            known = {id(s) for s in allsigs + ogs + states + [dummy]}
            extra = []
            for d in ("comb", "sync"):
                for st in frag.statements.get(d, []):
                    for sg in list(st._lhs_signals()) + list(st._rhs_signals()):
                        if id(sg) not in known:
                            known.add(id(sg)); extra.append(sg)
            combT2 = combT + ogs
            syncT2 = syncT + states
            allsigs = inputs + combT2 + syncT2 + extra
            sigidx = {id(s): i for i, s in enumerate(allsigs)}
            for it in fsm_list:
                sigidx["fsm:" + it[1]] = fsms[it[1]].state
            case.update({"sigs": [(s.name, len(s), s.shape().signed, s.init) for s in allsigs],
                         "comb_idx": [sigidx[id(s)] for s in combT2], "sync_idx": [sigidx[id(s)] for s in syncT2]})
            # the FSM-specific sentences, checked directly: initial state = first defined unless specified (by *name*:
            # what the real FSM object decodes the register's initial value to)
            for it in fsm_list:
                f = fsms[it[1]]
                want = it[2] if it[2] is not None else it[3][0][0]
                got = f.decoding.get(f.state.init, "?")
                if got != want:
                    case["fsm_init"] = (it[1], got, want)
            case["fsm_regs"] = [(it[1], sigidx[id(fsms[it[1]].state)], dict(fsms[it[1]].decoding)) for it in fsm_list]
            stm = {d: gen_prog.ser_stmts(frag.statements.get(d, []), {**sigidx, id(dummy): len(allsigs)}) for d in ("comb", "sync")}
            prog = {d: gen_prog.ser_prog(items, d, sigidx) for d in ("comb", "sync")}
            # the program as written (FSMs by name), plus what this harness appended to the module after it
            fprog = gen_prog.ser_fprog(items, sigidx, fsms)
            fprog += "".join(f" (= comb (sig {sigidx[id(sig)]}) (sig {sigidx[id(f.ongoing(sn))]}))"
                             for sig, f, sn in fsms.get("__watchers__", []))
            fprog += f" (= sync (sig {len(allsigs)}) (~ (sig {len(allsigs)})))"
            # registers a testbench may force to any code: those of FSMs with an `m.next` (the others are constants)
            pokable = [(fsms[it[1]].state, dict(fsms[it[1]].decoding)) for it in fsm_list
                       if any(gen_prog._has_next(e[2]) for e in gen_prog.fsm_entries(it) if e[0] == "state")]
            sim = Simulator(m2)
            sim.add_clock(Period(MHz=1))
            steps = []

            rsts = []

            async def tb(ctx):
                for _s in range(n_steps):
                    for s in inputs:
                        ctx.set(s, gen_expr.rand_value(rng, s.shape()))
                    # the domain's reset is asserted at some edges: every sync register (FSM state registers included:
                    # "an FSM restarts in its initial state") must take its initial value there
                    r = 1 if (not witness and rng.random() < 0.2) else 0
                    ctx.set(cd2.rst, r)
                    rsts.append(r)
                    # now and then an FSM is put into an arbitrary code, unused ones included ("in none of its states")
                    if pokable and rng.random() < 0.1:
                        st, dec = rng.choice(pokable)
                        v = rng.randrange(1 << len(st))
                        ctx.set(st, v)
                        k = "fsm_register_forced_to_a_state" if v in dec else "fsm_register_forced_to_unused_code"
                        hist[k] = hist.get(k, 0) + 1
                    env = [ctx.get(s) for s in allsigs]
                    await ctx.tick()
                    env2 = [ctx.get(s) for s in allsigs]
                    steps.append((env, env2))
            sim.add_testbench(tb)
            sim.run()
            case["steps"] = steps
        except Exception as e:
            import traceback
            case["error"] = (errkind(e), repr(e)[:300] + traceback.format_exc()[-400:])
            case.setdefault("sigs", [])
            case["prog"] = {"comb": repr(items)[:1500], "sync": ""}
            out.append(case)
            continue
        ctx = ser_ctx([s.shape() for s in allsigs] + [unsigned(1)])
        inits = "(inits " + " ".join(str(s.init) for s in allsigs) + " 0)"
        rl = "(resetless" + " 0" * (len(allsigs) + 1) + ")"
        envs_c = [e + [0] for st in steps for e in st]
        envs_s = [st[0] + [0] for st in steps]
        case["rsts"] = rsts
        hist["sync_steps_with_reset"] = hist.get("sync_steps_with_reset", 0) + sum(rsts)
        case["req_comb"] = f"(proc {ctx} {inits} {rl} comb (rst none) (seq {stm['comb']}) (prog {prog['comb']}) " + " ".join(ser_env(e) for e in envs_c) + ")"
        # one request per value of the reset (the protocol takes one reset value per request); merged again in `judge`
        mk_sync = lambda r: (f"(proc {ctx} {inits} {rl} sync (rst {r}) (seq {stm['sync']}) (prog {prog['sync']}) "
                             + " ".join(ser_env(e) for e, rr in zip(envs_s, rsts) if rr == r) + ")")
        case["req_sync"] = mk_sync(0)
        case["req_sync1"] = mk_sync(1) if any(rsts) else None
        case["envs_c"] = envs_c
        case["prog"] = prog
        # the same steps with the program as written (FSMs by name) and, per state, the *name* of the state each FSM is in
        def at(e):
            cf = " ".join(f"({ri} {dec[e[ri]]})" for _n, ri, dec in case["fsm_regs"] if e[ri] in dec)
            return f"(at {ser_env(e)} (conf {cf}))"
        case["freq_comb"] = (f"(fproc {ctx} {inits} {rl} comb (rst none) (seq {stm['comb']}) (fprog {fprog}) "
                             + " ".join(at(e) for e in envs_c) + ")")
        mk_fsync = lambda r: (f"(fproc {ctx} {inits} {rl} sync (rst {r}) (seq {stm['sync']}) (fprog {fprog}) "
                              + " ".join(at(e) for e, rr in zip(envs_s, rsts) if rr == r) + ")")
        case["freq_sync"] = mk_fsync(0)
        case["freq_sync1"] = mk_fsync(1) if any(rsts) else None
        case["fprog"] = fprog
        out.append(case)
    # the Lean driver is asked here, in the worker (the main process only judges): one batch per job
    live = [c for c in out if "error" not in c]
    if live:
        reqs = []
        for c in live:
            reqs += [c["req_comb"], c["req_sync"]] + ([c["req_sync1"]] if c.get("req_sync1") else [])
            reqs += [c["freq_comb"], c["freq_sync"]] + ([c["freq_sync1"]] if c.get("freq_sync1") else [])
        resps = common.Driver("amodel").ask(reqs)
        k = 0
        for c in live:
            n = 3 if c.get("req_sync1") else 2
            c["resps"], c["fresps"] = resps[k:k + n], resps[k + n:k + 2 * n]
            k += 2 * n
    return {"cases": out, "hist": hist}


def parse_proc(resp):
    if not resp.startswith("proc ;"):
        return None
    rows = []
    for p in resp.split(" ; ")[1:]:
        d = common.kv(p)
        rows.append({k: [int(x) for x in v.split(",")] if v else [] for k, v in d.items()})
    return rows


def has_alias(case):
    """F9 classifier: one signal occurs twice in a concatenation that is assigned through a slice or part-select"""
    from .c05 import has_alias_under_select
    import re
    for dom in ("comb", "sync"):
        for m in re.finditer(r"\(= (\((?:part|slice) .*?)\) \(", case.get("prog", {}).get(dom, "")):
            pass
    txt = " ".join(case.get("prog", {}).values())
    # every assignment target is the first operand of "(= target rhs)"; test each target on its own
    out = False
    depth = 0
    i = 0
    while True:
        i = txt.find("(= ", i)
        if i < 0:
            break
        j = i + 3
        d = 0
        k = j
        while k < len(txt):
            if txt[k] == "(":
                d += 1
            elif txt[k] == ")":
                d -= 1
                if d == 0:
                    break
            k += 1
        target = txt[j:k + 1]
        if has_alias_under_select(target):
            out = True
        i = k
    return out


def parse_fproc(resp):
    """`fproc struct=… ok=… inits=… ; model=… lowered=… spec=… next=r:S,… agree=… ; …` -> (header, rows)"""
    if not resp.startswith("fproc "):
        return None
    parts = resp.split(" ; ")
    rows = []
    for p in parts[1:]:
        d = common.kv(p)
        row = {k: [int(x) for x in d[k].split(",")] if d.get(k) else [] for k in ("model", "lowered", "spec")}
        row["next"] = dict(x.split(":", 1) for x in d.get("next", "").split(",") if x)
        row["agree"] = d.get("agree") == "1"
        rows.append(row)
    return common.kv(parts[0]), rows


def judge_fsm(chk, case, resps):
    """the same steps against the Lean side that knows FSMs: Spec = small-step reading of the program as written (states by
    name), Model = `_pop_ctrl`'s lowering, compared structurally with the statements amaranth built and by execution"""
    base = {"sigs": case["sigs"], "fprog": case.get("fprog"), "job_seed": case["seed"]}
    pc, ps0 = parse_fproc(resps[0]), parse_fproc(resps[1])
    ps1 = parse_fproc(resps[2]) if len(resps) > 2 else ({}, [])
    rs = None
    if ps0 is not None and ps1 is not None:
        it0, it1 = iter(ps0[1]), iter(ps1[1])
        try:
            rs = [next(it1) if r else next(it0) for r in case["rsts"]]
        except StopIteration:
            rs = None
    if pc is None or rs is None:
        chk.not_shown("driver could not evaluate a program with FSMs", dict(base, responses=[r[:300] for r in resps],
                                                                             req=case["freq_comb"][:3000]))
        return False
    regs = {ri: (name, dec) for name, ri, dec in case["fsm_regs"]}
    for dom, hdr, req in (("comb", pc[0], "freq_comb"), ("sync", ps0[0], "freq_sync")):
        if hdr.get("ok") != "1":
            chk.not_shown("the FSM model says the DSL refuses a program that amaranth accepted (FProg.listOk, incl. the "
                          "width of the state register)", dict(base, request=case[req]))
            return False
        if hdr.get("inits") != "1":
            chk.not_shown("the initial value of an FSM state register is not the model's code of the initial state",
                          dict(base, request=case[req]))
            return False
        if hdr.get("struct") != "same":
            chk.not_shown(f"{dom}: the statements amaranth built differ structurally from the model's lowering of the program "
                          "as written (_pop_ctrl: Switch on the state register, codes in order of first mention, ongoing() "
                          "drivers at module top level)", dict(base, request=case[req]))
            return False
    for env, row in zip(case["envs_c"], pc[1]):
        chk.count(1)
        if not row["agree"]:
            chk.not_shown("fsm.decoding of the real FSM and the model's decode disagree about a register value",
                          dict(base, env=env, request=case["freq_comb"]))
            return False
        for i in case["comb_idx"]:
            if env[i] != row["spec"][i]:
                chk.violation(f"comb signal {case['sigs'][i][0]} = {env[i]} but the program as written (FSM states by name, "
                              f"ongoing() = 1 iff current) gives {row['spec'][i]} in state {env}",
                              dict(base, kind="fsm-comb", env=env, sig=case["sigs"][i][0], impl=env[i], spec=row["spec"][i],
                                   request=case["freq_comb"],
                                   classes=["F9"] if (has_alias(case) and env[i] == row["model"][i]) else []))
                return False
            if env[i] != row["lowered"][i] or env[i] != row["model"][i]:
                chk.not_shown("comb: impl = spec, but the model (real statements / model's FSM lowering, executed) differs",
                              dict(base, env=env, sig=i, impl=env[i], model=row["model"][i], lowered=row["lowered"][i],
                                   request=case["freq_comb"]))
                return False
    for (env, env2), row, rst in zip(case["steps"], rs, case["rsts"]):
        chk.count(1)
        if not row["agree"]:
            chk.not_shown("fsm.decoding of the real FSM and the model's decode disagree about a register value",
                          dict(base, env=env, request=case["freq_sync"]))
            return False
        for i in case["sync_idx"]:
            if i in regs:
                name, dec = regs[i]
                got, want = dec.get(env2[i], "?"), row["next"].get(str(i), "missing")
                if got != want:
                    chk.violation(f"FSM {name} is in state {got} after the edge{' with reset' if rst else ''}, the program as "
                                  f"written goes from {dec.get(env[i], '?')} to {want} (state {env})",
                                  dict(base, kind="fsm-next", env=env, after=env2, fsm=name, impl=got, spec=want,
                                       request=case["freq_sync1" if rst else "freq_sync"], classes=[]))
                    return False
            elif env2[i] != row["spec"][i]:
                chk.violation(f"sync signal {case['sigs'][i][0]} becomes {env2[i]} at the edge but the program as written (FSM "
                              f"states by name) gives {row['spec'][i]} from state {env}",
                              dict(base, kind="fsm-sync", env=env, after=env2, sig=case["sigs"][i][0], impl=env2[i],
                                   spec=row["spec"][i], request=case["freq_sync1" if rst else "freq_sync"],
                                   classes=["F9"] if (has_alias(case) and env2[i] == row["model"][i]) else []))
                return False
            if env2[i] != row["lowered"][i] or env2[i] != row["model"][i]:
                chk.not_shown("sync: impl = spec, but the model (real statements / model's FSM lowering, executed) differs",
                              dict(base, env=env, sig=i, impl=env2[i], model=row["model"][i], lowered=row["lowered"][i],
                                   request=case["freq_sync1" if rst else "freq_sync"]))
                return False
    if case["fsm_regs"]:
        chk.distinct(("fsm", case["fprog"]), any(e[i] != e2[i] for e, e2 in case["steps"] for i in regs))
    return True


def judge(chk, case, resps):
    base = {"sigs": case["sigs"], "prog": case.get("prog"), "job_seed": case["seed"]}
    if "fsm_init" in case:
        chk.violation(f"FSM {case['fsm_init'][0]} starts in state {case['fsm_init'][1]} (fsm.decoding of the register's initial value), the first defined (or specified) state is {case['fsm_init'][2]}",
                      dict(base, kind="fsm-init", classes=[]))
        return
    if "error" in case:
        chk.violation(f"building or simulating a legal DSL program raises {case['error'][0]}: {case['error'][1]}",
                      dict(base, kind="raises", error=case["error"], classes=[]))
        return
    rc, rs0 = parse_proc(resps[0]), parse_proc(resps[1])
    rs1 = parse_proc(resps[2]) if len(resps) > 2 else []
    rs = None
    if rs0 is not None and rs1 is not None:
        it0, it1 = iter(rs0), iter(rs1)
        try:
            rs = [next(it1) if r else next(it0) for r in case["rsts"]]
        except StopIteration:
            rs = None
    if rc is None or rs is None:
        chk.not_shown("driver could not evaluate a program", dict(base, responses=[r[:300] for r in resps],
                                                                    req=case["req_comb"][:2000]))
        return
    nontrivial = False
    # comb: every settled state is a fixpoint of the comb logic
    for env, row in zip(case["envs_c"], rc):
        chk.count(1)
        for i in case["comb_idx"]:
            if env[i] != row["spec"][i]:
                chk.violation(f"comb signal {case['sigs'][i][0]} = {env[i]} but the active assignments give {row['spec'][i]} in state {env}",
                              dict(base, kind="comb", env=env, sig=case["sigs"][i][0], impl=env[i], spec=row["spec"][i],
                                   model=row["model"][i], request=case["req_comb"],
                                   classes=["F9"] if (has_alias(case) and env[i] == row["model"][i]) else []))
                return
            if env[i] != row["model"][i]:
                chk.not_shown("comb correspondence: impl = spec, model differs", dict(base, env=env, sig=i, impl=env[i], model=row["model"][i], request=case["req_comb"]))
                return
            if env[i] != row["lowered"][i]:
                chk.not_shown("comb: the Lean model of the DSL lowering (_pop_ctrl) differs from the implementation", dict(base, env=env, sig=i, impl=env[i], model=row["lowered"][i], request=case["req_comb"]))
                return
            if env[i] != case["sigs"][i][3]:
                nontrivial = True
    for (env, env2), row in zip(case["steps"], rs):
        chk.count(1)
        for i in case["sync_idx"]:
            if env2[i] != row["spec"][i]:
                chk.violation(f"sync signal {case['sigs'][i][0]} becomes {env2[i]} at the edge but the active assignments give {row['spec'][i]} from state {env}",
                              dict(base, kind="sync", env=env, after=env2, sig=case["sigs"][i][0], impl=env2[i], spec=row["spec"][i],
                                   model=row["model"][i], request=case["req_sync"],
                                   classes=["F9"] if (has_alias(case) and env2[i] == row["model"][i]) else []))
                return
            if env2[i] != row["model"][i]:
                chk.not_shown("sync correspondence: impl = spec, model differs", dict(base, env=env, sig=i, impl=env2[i], model=row["model"][i], request=case["req_sync"]))
                return
            if env2[i] != row["lowered"][i]:
                chk.not_shown("sync: the Lean model of the DSL lowering (_pop_ctrl) differs from the implementation", dict(base, env=env, sig=i, impl=env2[i], model=row["lowered"][i], request=case["req_sync"]))
                return
            if env2[i] != env[i]:
                nontrivial = True
    chk.distinct((case["prog"]["comb"], case["prog"]["sync"]), nontrivial)
    if nontrivial:
        chk.sample({"comb": case["prog"]["comb"][:400], "sync": case["prog"]["sync"][:400], "first_step": case["steps"][0]}, limit=4)


def run(chk):
    chk.lean()
    quick = chk.tier == "quick"
    rng = chk.rng
    plan = [(160 if quick else 3000, 12, 4, 6)]
    args = [(1, "witness", 1, 4)] + [(rng.getrandbits(48), n, d, st) for jobs, n, d, st in plan for _ in range(jobs)]
    with ProcessPoolExecutor(max_workers=min(16, os.cpu_count() or 4)) as ex:
        for job in ex.map(prog_job, args, chunksize=2):
            for k, v in job["hist"].items():
                chk.hist("fsm_shapes" if k.startswith("fsm_") else "constructs", k, v)
            chk.driver.n += sum(len(c.get("resps", [])) + len(c.get("fresps", [])) for c in job["cases"])
            for c in job["cases"]:
                if "error" in c:
                    judge(chk, c, None)
                else:
                    seen = lambda: len(chk.violations) + len(chk.unshown) + sum(chk.known_seen.values())
                    before = seen()
                    judge(chk, c, c["resps"])
                    if seen() == before:
                        judge_fsm(chk, c, c["fresps"])
    chk.cov["rule"] = ("random Module-DSL programs (nesting <= 4: If/Elif/Else chains up to 4 tests incl. multi-bit, signed and constant "
                       "conditions; Switch with int, negative/unrepresentable int, multi-pattern and whitespace string patterns, Default, "
                       "cases after Default; comb and sync assignments mixed in one tree; targets from the C05 target grammar) simulated "
                       "for several input vectors and clock edges; every driven signal compared after every settle and every edge with the "
                       "Lean Model (lowered statements as amaranth built them) and the Lean Spec (program as written). "
                       "FSMs (1-4 states, nested up to the program depth, m.next to states defined later, fsm.ongoing() calls before "
                       "the State block, explicit init=, state names shared by nested FSMs; the domain reset on a fifth of the edges; "
                       "now and then a state register forced to an arbitrary code, unused ones included) go to the driver twice: "
                       "desugared by the harness (Prog: Switch on the register) and *as written* (FProg: states by name) — there the "
                       "Lean Model lowers the FSM itself and its statements are compared structurally (up to empty blocks) with the "
                       "ones amaranth built, the Lean Spec steps the FSM by state name and is compared with fsm.decoding of the "
                       "simulated register and with every ongoing() signal. "
                       "distinct = distinct program text; non-trivial = some driven signal leaves its initial/previous value")
    chk.assumptions += ["FSM stream: the state names sent with every state are fsm.decoding (real FSM object) of the simulated register "
                        "value; the driver reports whether the model's decode agrees (agree=)",
                        "FSM stream: all FSMs are in the `sync` domain of the generated module (the model's lowering is per domain and "
                        "carries the FSM's domain, but no other synchronous domain is generated here)"]
