"""C08 - simulation results do not depend on process scheduling order; testbench order; exact time.

Streams (all from chk.rng):
  A  designs of the C03 generator + user processes (both documented forms) + added clocks + testbench scripts
  B  small designs whose registers / combinational outputs exist twice: as a circuit and as the documented
     process; both variants must give the same observations (and the directed testbench-order / tick-sampling cases)
  T  time: Period arithmetic, clock toggle instants, delay resumption, run_until deadlines
  M  (implementation only) a memory written in one domain and read in another / combinationally; order-independence
  W  (implementation only) several memory rows written in ONE delta cycle - 1-3 write ports of one domain with
     different addresses, idle ports (en = 0 / no granule enabled), ports writing the value already there, or an
     added process setting 1-3 rows before it yields - observed through asynchronous read ports right after the
     clock edge (add_clock + tick(), or the testbench toggling the clock: after `set(clk)` returns) / after the
     `set()` that wakes the writer; with and without other logic (counter, synchronous read port) in the written
     domain.  Expected values are the array semantics computed by the harness (a list of rows); every order of the
     ready processes must give exactly that trace.
  P  (implementation against an event-level specification evaluated by the harness) multi-shot waits
     (`async for`) on trigger combinations that contain a delay, in testbenches and added processes whose loop body
     takes simulated time (less than, exactly, more than the delay; until the next tick): wake-ups at start + k*T
     exactly, BrokenTrigger when the combination fires again during the body; under every order of the ready processes
  Q  Period division against exact rationals (all fractional parts), default phase of clocks with odd periods
Every scenario of A and B is run on the real engine under the native order, the canonical order, its reverse and
N seeded shuffles of `_processes`, `pending` and `_active_triggers` (re-drawn at every iteration); all observation
traces must be identical. The trace is then compared with the Lean model (run under two opposite schedules) and,
where the Spec covers the script, with the Spec.
"""
import os
import random
from concurrent.futures import ProcessPoolExecutor
from fractions import Fraction

from .. import common
from ..common import errkind, ser_value, ser_ctx

from amaranth.hdl import Elaboratable

LEVEL = "proof"
EXE = "amodel_c08"

ITER_LIMIT = 400000
# finding F31 (fixed in /repo): a completed one-shot trigger was marked broken by its remaining wakers (prelim/repro/c08_oneshot_broken_trigger.py)
F_BROKEN = "F31"


class Hang(Exception):
    pass


# ------------------------------------------------------------------------------------------------
# schedule injection (no change to /repo: the engine's sets are replaced by ordered sets)

class OrderedSet(set):
    """a set whose iteration order is chosen by the harness"""

    def __init__(self, items, key, mode, rng, guard):
        super().__init__(items)
        self._key, self._mode, self._rng, self._guard = key, mode, rng, guard

    def __iter__(self):
        self._guard[0] += 1
        if self._guard[0] > ITER_LIMIT:
            raise Hang()
        if self._mode == "native":
            return iter(list(set.__iter__(self)))
        items = sorted(set.__iter__(self), key=self._key)
        if self._mode == "reverse":
            items.reverse()
        elif self._mode == "shuffle":
            self._rng.shuffle(items)
        return iter(items)


def canonical_processes(eng, added):
    """a deterministic enumeration of eng._processes: compiled processes in the order in which their
    wakers were registered (slot by slot), then those without wakers, then the added ones in order"""
    ids = {id(p): p for p in eng._processes}
    added_ids = {id(p) for p in added}
    order, seen = [], set()
    for slot in eng._state.slots:
        for w in getattr(slot, "wakers", []):
            for cell in (getattr(w, "__closure__", None) or ()):
                try:
                    obj = cell.cell_contents
                except ValueError:
                    continue
                if id(obj) in ids and id(obj) not in seen and id(obj) not in added_ids:
                    seen.add(id(obj))
                    order.append(obj)
    rest = [p for i, p in ids.items() if i not in seen and i not in added_ids]
    rest.sort(key=lambda p: repr(getattr(getattr(p, "run", None), "__code__", None) and p.run.__code__.co_consts))
    return order + rest + list(added)


def install_order(sim, added, mode, seed):
    eng = sim._engine
    st = eng._state
    rng = random.Random(seed)
    guard = [0]
    procs = canonical_processes(eng, added)
    pkey = {id(p): i for i, p in enumerate(procs)}
    owners = procs + list(eng._testbenches)
    okey = {id(p): i for i, p in enumerate(owners)}
    eng._processes = OrderedSet(eng._processes, lambda p: pkey[id(p)], mode, rng, guard)

    def slot_key(s):
        for i, x in enumerate(st.slots):
            if x is s:
                return i
        return -1
    pend = OrderedSet(st.pending, slot_key, mode, rng, guard)
    st.pending = pend
    for slot in st.slots:
        slot.pending = pend
    eng._active_triggers = OrderedSet(eng._active_triggers, lambda t: okey.get(id(t._combination._process), -1),
                                      mode, rng, guard)
    return guard


# ------------------------------------------------------------------------------------------------
# the expression mini-language of user processes (exact Python integers on the sampled values)

def gen_tree(rng, nin, depth):
    if depth <= 0 or rng.random() < 0.25:
        if rng.random() < 0.8:
            return ("in", rng.randrange(nin))
        return ("const", rng.randint(-4, 9))
    k = rng.choice(["add", "sub", "and", "or", "xor", "mux", "eq", "lt", "neg", "shr", "bit", "add", "xor"])
    if k in ("add", "sub", "and", "or", "xor", "eq", "lt"):
        return (k, gen_tree(rng, nin, depth - 1), gen_tree(rng, nin, depth - 1))
    if k == "mux":
        return (k, gen_tree(rng, nin, depth - 1), gen_tree(rng, nin, depth - 1), gen_tree(rng, nin, depth - 1))
    if k == "neg":
        return (k, gen_tree(rng, nin, depth - 1))
    if k == "shr":
        return (k, gen_tree(rng, nin, depth - 1), rng.randint(0, 3))
    return ("bit", rng.randrange(nin), rng.randint(0, 5))


def pyeval(t, vals):
    k = t[0]
    if k == "in":
        return vals[t[1]]
    if k == "const":
        return t[1]
    if k == "add":
        return pyeval(t[1], vals) + pyeval(t[2], vals)
    if k == "sub":
        return pyeval(t[1], vals) - pyeval(t[2], vals)
    if k == "and":
        return pyeval(t[1], vals) & pyeval(t[2], vals)
    if k == "or":
        return pyeval(t[1], vals) | pyeval(t[2], vals)
    if k == "xor":
        return pyeval(t[1], vals) ^ pyeval(t[2], vals)
    if k == "eq":
        return int(pyeval(t[1], vals) == pyeval(t[2], vals))
    if k == "lt":
        return int(pyeval(t[1], vals) < pyeval(t[2], vals))
    if k == "mux":
        return pyeval(t[2], vals) if pyeval(t[1], vals) != 0 else pyeval(t[3], vals)
    if k == "neg":
        return -pyeval(t[1], vals)
    if k == "shr":
        return pyeval(t[1], vals) >> t[2]
    if k == "bit":
        return (vals[t[1]] >> t[2]) & 1
    raise ValueError(k)


def build_tree(t, ins):
    from amaranth.hdl import Const, Mux
    k = t[0]
    if k == "in":
        return ins[t[1]]
    if k == "const":
        return Const(t[1])
    if k in ("add", "sub", "and", "or", "xor", "eq", "lt"):
        a, b = build_tree(t[1], ins), build_tree(t[2], ins)
        return {"add": lambda: a + b, "sub": lambda: a - b, "and": lambda: a & b, "or": lambda: a | b,
                "xor": lambda: a ^ b, "eq": lambda: a == b, "lt": lambda: a < b}[k]()
    if k == "mux":
        return Mux(build_tree(t[1], ins), build_tree(t[2], ins), build_tree(t[3], ins))
    if k == "neg":
        return -build_tree(t[1], ins)
    if k == "shr":
        return build_tree(t[1], ins) >> t[2]
    if k == "bit":
        s = ins[t[1]]
        # bit `i` of the infinitely sign-extended value: beyond the width it is the sign bit (or 0)
        if t[2] < len(s):
            return s[t[2]]
        return s[-1] if s.shape().signed else Const(0, 1)
    raise ValueError(k)


# ------------------------------------------------------------------------------------------------
# scenarios

class Scn:
    pass


def _pick_clocks(rng, scn, ncd):
    auto = [d for d in range(ncd) if rng.random() < 0.6]
    if not auto:
        auto = [rng.randrange(ncd)]
    scale = rng.choice([1, 1, 1, 1000, 10 ** 6])
    scn.clocks = []
    for d in auto:
        if scale == 1:
            period = rng.randint(2, 25)
        else:
            period = rng.randint(2, 24) * scale + rng.choice([0, 1, 1, 3, scale // 2 + 1])
        r = rng.random()
        phase = None if r < 0.4 else 0 if r < 0.5 else rng.randint(0, 2 * period)
        scn.clocks.append((d, period, phase))
    scn.auto = auto
    scn.hand = [d for d in range(ncd) if d not in auto]
    scn.maxperiod = max(p for _d, p, _ph in scn.clocks)


def _gen_scripts(rng, scn, hist):
    """testbench scripts over scn.settable / scn.sigs / scn.cds"""
    from amaranth.hdl import Cat
    from .. import gen_expr
    cds = scn.cds
    g = gen_expr.Gen(rng, [s for s in scn.sigs if len(s) > 0], maxw=5)
    hand_clks = [cds[d].clk for d in scn.hand]
    auto_clks = [cds[d].clk for d in scn.auto]
    rsts = [cd.rst for cd in cds if cd.rst is not None]
    data = list(scn.settable)
    safe = True
    scripts = []
    ntb = rng.randint(1, 3)
    maxlen = rng.choice([8, 12, 20, 30, 30])
    level = {}

    def note(k):
        hist[k] = hist.get(k, 0) + 1

    def samples():
        return [g.expr(rng.randint(0, 1)) if rng.random() < 0.4 else rng.choice(scn.sigs)
                for _ in range(rng.choice([0, 0, 1, 1, 2]))]

    def edge_elem(pool):
        s = rng.choice(pool)
        if len(s) == 0:
            s = auto_clks[0]
        return ("edge", s, rng.randrange(len(s)), rng.randint(0, 1))

    for _t in range(ntb):
        ops = []
        for _ in range(rng.randint(3, maxlen)):
            r = rng.random()
            if r < 0.30:
                q = rng.random()
                if hand_clks and q < 0.45:
                    if len(hand_clks) > 1 and rng.random() < 0.25:
                        tgt = Cat(*hand_clks)
                        v = rng.randrange(1 << len(hand_clks))
                    elif data and rng.random() < 0.2:
                        c = rng.choice(hand_clks)
                        dsig = rng.choice(data)
                        level[id(c)] = 1 - level.get(id(c), 0)
                        tgt = Cat(c, dsig)
                        v = level[id(c)] | (rng.getrandbits(len(dsig)) << 1)
                    else:
                        c = rng.choice(hand_clks)
                        level[id(c)] = 1 - level.get(id(c), 0) if rng.random() < 0.85 else rng.randint(0, 1)
                        tgt, v = c, level[id(c)]
                    note("op:set-clock")
                elif rsts and q < 0.6:
                    tgt, v = rng.choice(rsts), rng.choice([0, 0, 1])
                    note("op:set-reset")
                elif data:
                    tgt = rng.choice(data)
                    if rng.random() < 0.12 and len(tgt) > 1:
                        a = rng.randrange(len(tgt))
                        tgt = tgt[a:rng.randint(a + 1, len(tgt))]
                        note("op:set-slice")
                    else:
                        note("op:set-data")
                    v = rng.choice([gen_expr.rand_value(rng, tgt.shape()), rng.randint(-20, 40)])
                else:
                    continue
                ops.append(("set", tgt, v))
            elif r < 0.35 and data:
                ops.append(("setfrom", rng.choice(data), g.expr(rng.randint(0, 2))))
                note("op:setfrom")
            elif r < 0.60:
                ops.append(("get", g.expr(rng.randint(0, 2)) if rng.random() < 0.5 else rng.choice(scn.sigs)))
                note("op:get")
            elif r < 0.80:
                d = rng.choice(scn.auto) if (rng.random() < 0.8 or not scn.hand) else rng.choice(scn.hand)
                if d not in scn.auto:
                    safe = False
                ops.append(("tick", d, samples()))
                note("op:tick")
            elif r < 0.88:
                n = rng.choice([0, 1, rng.randint(0, 3 * scn.maxperiod), rng.randint(0, scn.maxperiod)])
                ops.append(("wait", [("delay", n)] + [("sample", e) for e in samples()]))
                note("op:delay")
            elif r < 0.94:
                q = rng.random()
                unsafe = False
                if q < 0.5:
                    el = edge_elem(auto_clks)
                elif q < 0.75 and (hand_clks or rsts or data):
                    el = edge_elem(hand_clks + rsts + data)
                    unsafe = True
                else:
                    el = edge_elem(scn.sigs)
                    unsafe = not any(el[1] is c for c in auto_clks)
                els = [el]
                if rng.random() < 0.08:
                    els.append(edge_elem(auto_clks + hand_clks + data))
                    note("op:multi-element-wait")
                if unsafe and rng.random() < 0.85:
                    els.append(("delay", rng.randint(0, 4 * scn.maxperiod)))
                    note("op:edge+delay")
                elif unsafe:
                    safe = False
                ops.append(("wait", els + [("sample", e) for e in samples()]))
                note("op:edge")
            else:
                pool = auto_clks if rng.random() < 0.4 else scn.sigs
                sigs = rng.sample(pool, min(len(pool), 1 if rng.random() < 0.85 else 2))
                if len(sigs) > 1:
                    note("op:multi-element-wait")
                els = [("changed", s) for s in sigs]
                if not all(any(s is c for c in auto_clks) for s in sigs):
                    if rng.random() < 0.85:
                        els.append(("delay", rng.randint(0, 4 * scn.maxperiod)))
                        note("op:changed+delay")
                    else:
                        safe = False
                ops.append(("wait", els + [("sample", e) for e in samples()]))
                note("op:changed")
        withgets = []
        for op in ops:
            withgets.append(op)
            if op[0] in ("tick", "wait") and rng.random() < 0.5 and len(withgets) < 30:
                withgets.append(("get", rng.choice(scn.sigs) if rng.random() < 0.6 else g.expr(1)))
        scripts.append(withgets[:30])
    scn.tbs = scripts
    if safe and rng.random() < 0.5:
        scn.mode = ("run",)
    else:
        scn.mode = ("until", rng.randint(8, 60) * scn.maxperiod + rng.randint(0, scn.maxperiod))
    hist["mode:" + scn.mode[0]] = hist.get("mode:" + scn.mode[0], 0) + 1
    hist[f"testbenches:{ntb}"] = hist.get(f"testbenches:{ntb}", 0) + 1


def gen_scenario_a(rng, hist):
    """a C03 design + user processes + clocks + scripts"""
    from amaranth.hdl import Signal
    from .. import gen_design, gen_expr
    D = gen_design.gen_design(rng, hist)
    scn = Scn()
    scn.kind = "A"
    scn.D = D
    scn.top = D.top
    scn.cds = D.cds
    scn.leaf_mode = "c03"
    base = gen_design.all_signals(D)
    regs = [s for s in D.targets if not s.name.startswith("c")]
    _pick_clocks(rng, scn, len(D.cds))
    free_inputs = list(D.inputs)
    scn.users = []
    extra = []
    driven = set()
    for k in range(rng.choice([0, 0, 1, 1, 2, 3])):
        kind = rng.choice(["comb", "sync"])
        cands = [s for s in free_inputs if id(s) not in driven and len(s) > 0]
        if cands and rng.random() < 0.3 and len(free_inputs) - len(driven) > 1:
            out = rng.choice(cands)
        else:
            sh = gen_expr.rand_shape(rng, 5, allow_zero=False)
            out = Signal(sh, name=f"po{k}", init=gen_expr.rand_value(rng, sh))
            extra.append(out)
        driven.add(id(out))
        if kind == "comb":
            pool = [s for s in free_inputs + regs if id(s) not in driven and len(s) > 0]
        else:
            pool = [s for s in base + extra if len(s) > 0]
        if not pool:
            pool = [D.ctls[0]]
        ins = rng.sample(pool, min(len(pool), rng.randint(1, 3)))
        tree = gen_tree(rng, len(ins), rng.randint(0, 2))
        if kind == "sync" and rng.random() < 0.45:
            # the bits of one fresh unsigned signal are split between two processes (possibly of different domains):
            # partial `ctx.set` calls that must accumulate whatever the order in which the processes run
            from amaranth.hdl import unsigned
            w = rng.randint(2, 6)
            out = Signal(unsigned(w), name=f"pp{k}", init=rng.randint(0, (1 << w) - 1))
            extra.append(out)
            cut = rng.randint(1, w - 1)
            same = rng.random() < 0.6
            d0 = rng.randrange(len(D.cds))
            for (lo, hi) in ((0, cut), (cut, w)):
                ins_p = rng.sample(pool, min(len(pool), rng.randint(1, 3)))
                scn.users.append(("syncp", d0 if same else rng.randrange(len(D.cds)), ins_p, (out, lo, hi),
                                  gen_tree(rng, len(ins_p), rng.randint(0, 2))))
            hist["user:syncp"] = hist.get("user:syncp", 0) + 1
            continue
        if kind == "comb" and rng.random() < 0.3:
            # the combinational form entered only after a delay: no wake-up "to see the initial values"
            scn.users.append(("late", rng.randint(1, 3 * scn.maxperiod), ins, out, tree))
            hist["user:late"] = hist.get("user:late", 0) + 1
            continue
        scn.users.append((kind, rng.randrange(len(D.cds)), ins, out, tree))
        hist["user:" + kind] = hist.get("user:" + kind, 0) + 1
    hist[f"users:{len(scn.users)}"] = hist.get(f"users:{len(scn.users)}", 0) + 1
    scn.sigs = base + extra
    scn.settable = [s for s in D.inputs + D.ctls if id(s) not in driven and len(s) > 0]
    _gen_scripts(rng, scn, hist)
    return scn


class Simple(Elaboratable):
    """the design of stream B: units `out = f(ins)` (comb) or `out <= f(ins)` (a domain), as circuits"""

    def __init__(self, cds, units, as_process):
        self.cds, self.units, self.as_process = cds, units, as_process

    def elaborate(self, platform):
        from amaranth.hdl import Module
        m = Module()
        for cd in self.cds:
            m.domains += cd
        for k, (kind, d, ins, out, tree) in enumerate(self.units):
            if k in self.as_process:
                continue
            if kind == "comb":
                m.d.comb += out.eq(build_tree(tree, ins))
            else:
                m.d[self.cds[d].name] += out.eq(build_tree(tree, ins))
        return m


def gen_scenario_b(rng, hist):
    """two scenarios that differ only in which units are circuits and which are processes"""
    from amaranth.hdl import Signal, ClockDomain
    from .. import gen_expr
    ncd = rng.randint(1, 2)
    cds = []
    for k in range(ncd):
        kind = rng.choice(["none", "sync", "sync", "async"])
        cds.append(ClockDomain(["sync", "d1"][k], clk_edge=rng.choice(["pos", "pos", "neg"]),
                               reset_less=(kind == "none"), async_reset=(kind == "async")))
    inputs = [Signal(gen_expr.rand_shape(rng, 4, allow_zero=False), name=f"i{k}") for k in range(rng.randint(2, 3))]
    units = []
    outs = []
    for k in range(rng.randint(1, 3)):
        kind = rng.choice(["comb", "sync", "sync"])
        sh = gen_expr.rand_shape(rng, 5, allow_zero=False)
        out = Signal(sh, name=f"{'c' if kind == 'comb' else 's'}{k}", init=gen_expr.rand_value(rng, sh),
                     reset_less=(kind == "sync" and rng.random() < 0.2))
        if kind == "comb":
            pool = inputs + outs            # earlier units only: no combinational loop
        else:
            pool = inputs + outs + [out]
        ins = rng.sample(pool, min(len(pool), rng.randint(1, 3)))
        units.append((kind, rng.randrange(ncd), ins, out, gen_tree(rng, len(ins), rng.randint(0, 2))))
        outs.append(out)
    # a reset-less register in a domain with a reset is not expressible by the documented form (it always resets)
    proc_units = [k for k in range(len(units)) if rng.random() < 0.6
                  and not (units[k][0] == "sync" and units[k][3].reset_less and cds[units[k][1]].rst is not None)]
    out = []
    base = None
    for as_process in ([], proc_units):
        scn = Scn()
        scn.kind = "B"
        scn.cds = cds
        scn.top = Simple(cds, units, as_process)
        scn.leaf_mode = "units"
        scn.units = units
        scn.as_process = as_process
        scn.inputs = inputs
        scn.users = [units[k] for k in as_process]
        sigs = []
        for cd in cds:
            sigs.append(cd.clk)
            if cd.rst is not None:
                sigs.append(cd.rst)
        scn.sigs = sigs + inputs + outs
        scn.settable = list(inputs)
        if base is None:
            _pick_clocks(rng, scn, ncd)
            _gen_scripts(rng, scn, hist)
            base = scn
        else:
            for a in ("clocks", "auto", "hand", "maxperiod", "tbs", "mode"):
                setattr(scn, a, getattr(base, a))
        out.append(scn)
    hist[f"replaced_units:{len(proc_units)}"] = hist.get(f"replaced_units:{len(proc_units)}", 0) + 1
    return out


def gen_scenario_d(rng, hist):
    """directed: shared signals between testbenches at one instant, tick sampling on a counter"""
    from amaranth.hdl import Signal, ClockDomain, Cat
    cd = ClockDomain("sync", clk_edge=rng.choice(["pos", "neg"]), reset_less=rng.random() < 0.5)
    w = rng.randint(2, 5)
    a = Signal(w, name="i0")
    x = Signal(w, name="i1")
    y = Signal(w, name="i2")
    cnt = Signal(w, name="s0", init=rng.randrange(1 << w))
    dbl = Signal(w + 1, name="c1")
    units = [("sync", 0, [cnt, a], cnt, ("add", ("in", 0), ("in", 1))),
             ("comb", 0, [cnt], dbl, ("add", ("in", 0), ("in", 0)))]
    scn = Scn()
    scn.kind = "D"
    scn.cds = [cd]
    scn.top = Simple([cd], units, [])
    scn.leaf_mode = "units"
    scn.units = units
    scn.as_process = []
    scn.inputs = [a, x, y]
    scn.users = []
    sigs = [cd.clk] + ([cd.rst] if cd.rst is not None else [])
    scn.sigs = sigs + [a, x, y, cnt, dbl]
    scn.settable = [a, x, y]
    period = rng.randint(2, 31)
    scn.clocks = [(0, period, rng.choice([None, 0, rng.randint(0, period)]))]
    scn.auto, scn.hand, scn.maxperiod = [0], [], period
    n = rng.randint(2, 6)
    # tb0 writes, tb1 copies what tb0 wrote in the same instant, tb2 reads both; then everybody ticks
    tb0, tb1, tb2 = [], [], []
    for _ in range(n):
        v = rng.randrange(1 << w)
        tb0 += [("set", a, rng.randrange(1 << w)), ("set", x, v), ("get", dbl), ("tick", 0, [cnt, dbl, a]), ("get", cnt), ("get", dbl)]
        tb1 += [("setfrom", y, x + 1), ("get", y), ("tick", 0, [x, y]), ("get", cnt)]
        tb2 += [("get", Cat(x, y)), ("tick", 0, [cnt]), ("get", Cat(x, y))]
    scn.tbs = [tb0, tb1, tb2][:rng.randint(2, 3)]
    scn.mode = ("run",)
    hist["directed"] = hist.get("directed", 0) + 1
    return scn


class MemTop(Elaboratable):
    def __init__(self, cds, mem, acc, rp):
        self.cds, self.mem, self.acc, self.rp = cds, mem, acc, rp

    def elaborate(self, platform):
        from amaranth.hdl import Module
        m = Module()
        for cd in self.cds:
            m.domains += cd
        m.submodules.mem = self.mem
        m.d[self.cds[-1].name] += self.acc.eq(self.acc + self.rp.data)
        return m


def gen_scenario_m(rng, hist):
    """implementation only (memories are not in the C08 model): a memory written in one domain and read in
    another (and combinationally), clocks that often coincide; rows are part of the observations"""
    from amaranth.hdl import Signal, ClockDomain, signed, unsigned
    from amaranth.lib.memory import Memory
    from .. import gen_expr
    cds = [ClockDomain("sync", clk_edge=rng.choice(["pos", "neg"]), reset_less=True),
           ClockDomain("d1", clk_edge=rng.choice(["pos", "neg"]), reset_less=rng.random() < 0.5)]
    w = rng.randint(1, 6)
    shape = signed(w) if rng.random() < 0.3 else unsigned(w)
    depth = rng.choice([1, 2, 3, 4, 5, 8])
    mem = Memory(shape=shape, depth=depth, init=[gen_expr.rand_value(rng, shape) for _ in range(rng.randint(0, depth))])
    gran = rng.choice([None, None, 1, w]) if not shape.signed else None
    wps = [mem.write_port(domain="sync", granularity=gran)]
    if rng.random() < 0.4:
        wps.append(mem.write_port(domain="sync"))          # same domain: one process, fixed port order
    rp = mem.read_port(domain="d1")
    rs = mem.read_port(domain="sync", transparent_for=[wps[0]] if rng.random() < 0.5 else [])
    rc = mem.read_port(domain="comb")
    acc = Signal(8, name="acc")
    scn = Scn()
    scn.kind = "M"
    scn.nomodel = True
    scn.cds = cds
    scn.top = MemTop(cds, mem, acc, rp)
    scn.users = []
    sigs = [cd.clk for cd in cds] + [cd.rst for cd in cds if cd.rst is not None]
    port_in = []
    for wp in wps:
        port_in += [wp.addr, wp.data, wp.en]
    port_in += [rp.addr, rp.en, rs.addr, rs.en, rc.addr]
    scn.sigs = sigs + port_in + [rp.data, rs.data, rc.data, acc]
    scn.rows = [mem.data[i] for i in range(depth)]
    scn.settable = [s for s in port_in if len(s) > 0]
    _pick_clocks(rng, scn, 2)
    if rng.random() < 0.6:
        # both domains clocked, same period and phase: every edge coincides
        p, ph = scn.clocks[0][1], scn.clocks[0][2]
        scn.clocks = [(0, p, ph), (1, p if rng.random() < 0.7 else 2 * p, ph)]
        scn.auto, scn.hand = [0, 1], []
        scn.maxperiod = max(c[1] for c in scn.clocks)
    _gen_scripts(rng, scn, hist)
    for script in scn.tbs:
        for _ in range(rng.randint(1, 4)):
            script.insert(rng.randint(0, len(script)), ("get", rng.choice(scn.rows)))
    hist["memory"] = hist.get("memory", 0) + 1
    return scn


# ------------------------------------------------------------------------------------------------
# running a scenario on the real engine

def run_impl(scn, mode, oseed):
    from amaranth.hdl import Period
    from amaranth.sim import Simulator
    sim = Simulator(scn.top)
    eng = sim._engine
    added = []

    def newest(before):
        new = [p for p in eng._processes if id(p) not in before]
        added.extend(new)

    for d, period, phase in scn.clocks:
        before = {id(p) for p in eng._processes}
        sim.add_clock(Period(fs=period), phase=None if phase is None else Period(fs=phase), domain=scn.cds[d])
        newest(before)
    for kind, d, ins, out, tree in scn.users:
        before = {id(p) for p in eng._processes}
        sim.add_process(_mk_process(kind, d if kind == "late" else scn.cds[d], ins, out, tree))
        newest(before)
    trace = []
    for t, script in enumerate(scn.tbs):
        sim.add_testbench(_mk_testbench(t, script, scn.cds, trace))
    # "native": the engine's own set order, only counted (so that a non-terminating loop is detected)
    guard = install_order(sim, added, "sorted" if mode == "rerun" else mode, oseed)
    try:
        if mode == "rerun":
            # the same Simulator after reset(): circuits, circuit-replacing processes and testbenches restart, and the
            # observations of the second run are the ones reported (seeded change C08-r5-1)
            if scn.mode[0] == "run":
                sim.run()
            else:
                sim.run_until(Period(fs=scn.mode[1]))
            sim.reset()
            del trace[:]
            guard[0] = 0
        if scn.mode[0] == "run":
            sim.run()
        else:
            sim.run_until(Period(fs=scn.mode[1]))
        final = [int(eng.get_value(s)) for s in scn.sigs + getattr(scn, "rows", [])]
        return ("ok", trace, final)
    except Hang:
        return ("hang", trace, [])
    except Exception as e:
        return ("raise:" + errkind(e), trace, [repr(e)[:200]])


def _mk_process(kind, cd, ins, out, tree):
    if kind == "comb":
        async def proc(ctx):
            async for vals in ctx.changed(*ins):
                ctx.set(out, pyeval(tree, [int(v) for v in vals]))
    elif kind == "late":
        from amaranth.hdl import Period

        async def proc(ctx):
            await ctx.delay(Period(fs=cd))
            async for vals in ctx.changed(*ins):
                ctx.set(out, pyeval(tree, [int(v) for v in vals]))
    elif kind == "syncp":
        sig, lo, hi = out

        async def proc(ctx):
            async for clk_edge, rst, *vals in ctx.tick(cd).sample(*ins):
                if rst:
                    ctx.set(sig[lo:hi], sig.init >> lo)
                elif clk_edge:
                    ctx.set(sig[lo:hi], pyeval(tree, [int(v) for v in vals]))
    else:
        async def proc(ctx):
            async for clk_edge, rst, *vals in ctx.tick(cd).sample(*ins):
                if rst:
                    ctx.set(out, out.init)
                elif clk_edge:
                    ctx.set(out, pyeval(tree, [int(v) for v in vals]))
    return proc


def _mk_testbench(t, script, cds, trace):
    async def tb(ctx):
        for op in script:
            k = op[0]
            if k == "set":
                ctx.set(op[1], op[2])
            elif k == "setfrom":
                ctx.set(op[1], ctx.get(op[2]))
            elif k == "get":
                trace.append((t, ctx.elapsed_time().femtoseconds, [int(ctx.get(op[1]))]))
            elif k == "tick":
                r = await ctx.tick(cds[op[1]]).sample(*op[2])
                trace.append((t, ctx.elapsed_time().femtoseconds, [int(x) for x in r]))
            else:
                trig = None
                for el in op[1]:
                    src = ctx if trig is None else trig
                    if el[0] == "edge":
                        s = el[1] if len(el[1]) == 1 else el[1][el[2]]
                        trig = src.edge(s, el[3])
                    elif el[0] == "changed":
                        trig = src.changed(el[1])
                    elif el[0] == "delay":
                        from amaranth.hdl import Period
                        trig = src.delay(Period(fs=el[1]))
                    else:
                        trig = trig.sample(el[1])
                r = await trig
                trace.append((t, ctx.elapsed_time().femtoseconds, [int(x) for x in r]))
    return tb


def show_run(res):
    status, trace, final = res
    if status != "ok":
        return status + " " + ";".join(f"{t}:{now}:{','.join(map(str, vs))}" for t, now, vs in trace)
    return ";".join(f"{t}:{now}:{','.join(map(str, vs))}" for t, now, vs in trace) + "|" + ",".join(map(str, final))


# ------------------------------------------------------------------------------------------------
# protocol

def ser_scenario(scn):
    from amaranth.hdl import Fragment
    from .. import gen_prog
    sigs = scn.sigs
    sigidx = {id(s): i for i, s in enumerate(sigs)}
    cds = scn.cds
    domidx = {cd.name: k for k, cd in enumerate(cds)}
    ctx = ser_ctx([s.shape() for s in sigs])
    inits = "(inits " + " ".join(str(s.init) for s in sigs) + ")"
    rl = "(resetless " + " ".join("1" if s.reset_less else "0" for s in sigs) + ")"
    doms = "(doms " + " ".join(
        f"({sigidx[id(cd.clk)]} {cd.clk_edge} {sigidx[id(cd.rst)] if cd.rst is not None else 'none'} {1 if cd.async_reset else 0})"
        for cd in cds) + ")"
    frag = Fragment.get(scn.top, None)
    procs = []

    def walk(f):
        if type(f) is Fragment:
            for dom, stmts in f.statements.items():
                d = "comb" if dom == "comb" else domidx[dom]
                procs.append(f"(proc {d} (seq {gen_prog.ser_stmts(stmts, sigidx)}))")
        for sub, _name, _loc in f.subfragments:
            walk(sub)
    walk(frag)
    leaves = []
    if scn.leaf_mode == "c03":
        for leaf in scn.D.leaves:
            ws = []
            for w in leaf["stack"]:
                if w[0] == "rename":
                    ws.append(f"(rename {domidx[w[1]]} {domidx[w[2]]})")
                else:
                    ws.append(f"({w[0]} {domidx[w[1]]} {ser_value(w[2], sigidx)})")
            for dom in ["comb"] + list(scn.D.domnames):
                prog = gen_prog.ser_prog(leaf["items"], dom, sigidx)
                if prog.strip():
                    d = "comb" if dom == "comb" else domidx[dom]
                    leaves.append(f"(leaf {d} (wrappers {' '.join(ws)}) (prog {prog}))")
    else:
        for k, (kind, d, ins, out, tree) in enumerate(scn.units):
            if k in scn.as_process:
                continue
            dd = "comb" if kind == "comb" else d
            leaves.append(f"(leaf {dd} (wrappers) (prog (= (sig {sigidx[id(out)]}) {ser_value(build_tree(tree, ins), sigidx)})))")
    users = []
    for kind, d, ins, out, tree in scn.users:
        e = ser_value(build_tree(tree, ins), sigidx)
        ii = " ".join(str(sigidx[id(s)]) for s in ins)
        if kind == "late":
            users.append(f"(ulate {d} ({ii}) {sigidx[id(out)]} {e})")
        elif kind == "syncp":
            users.append(f"(usyncp {d} ({ii}) {sigidx[id(out[0])]} {out[1]} {out[2]} {e})")
        elif kind == "comb":
            users.append(f"(ucomb ({ii}) {sigidx[id(out)]} {e})")
        else:
            users.append(f"(usync {d} ({ii}) {sigidx[id(out)]} {e})")
    clocks = " ".join(f"({sigidx[id(cds[d].clk)]} {phase if phase is not None else round(Fraction(period, 2))} {period})" for d, period, phase in scn.clocks)
    tbs = []
    for script in scn.tbs:
        ops = []
        for op in script:
            k = op[0]
            if k == "set":
                ops.append(f"(set {ser_value(op[1], sigidx)} {op[2]})")
            elif k == "setfrom":
                ops.append(f"(setfrom {ser_value(op[1], sigidx)} {ser_value(op[2], sigidx)})")
            elif k == "get":
                ops.append(f"(get {ser_value(op[1], sigidx)})")
            elif k == "tick":
                ops.append(f"(tick {op[1]}" + "".join(" " + ser_value(e, sigidx) for e in op[2]) + ")")
            else:
                els = []
                for el in op[1]:
                    if el[0] == "edge":
                        els.append(f"(edge {sigidx[id(el[1])]} {el[2]} {el[3]})")
                    elif el[0] == "changed":
                        els.append(f"(changed {sigidx[id(el[1])]})")
                    elif el[0] == "delay":
                        els.append(f"(delay {el[1]})")
                    else:
                        els.append(f"(sample {ser_value(el[1], sigidx)})")
                ops.append("(wait " + " ".join(els) + ")")
        tbs.append("(tb " + " ".join(ops) + ")")
    mode = "(run)" if scn.mode[0] == "run" else f"(until {scn.mode[1]})"
    return (f"(c08 {ctx} {inits} {rl} {doms} (actual {' '.join(procs)}) (leaves {' '.join(leaves)}) "
            f"(user {' '.join(users)}) (clocks {clocks}) (tbs {' '.join(tbs)}) {mode})")


def describe(scn):
    return {"kind": scn.kind, "signals": [s.name for s in scn.sigs],
            "clocks": [(scn.cds[d].name, p, ph) for d, p, ph in scn.clocks],
            "users": [(k, d if k == "late" else scn.cds[d].name, [s.name for s in ins], out.name if not isinstance(out, tuple) else f"{out[0].name}[{out[1]}:{out[2]}]", tree)
                      for k, d, ins, out, tree in scn.users],
            "mode": scn.mode, "script_lengths": [len(s) for s in scn.tbs]}


# ------------------------------------------------------------------------------------------------
# jobs (worker processes)

def gen_job_scenarios(rng, hist, n_scn, cases=None):
    """the scenarios of one job, in order: [(index, variant, scenario)]"""
    scns = []
    for k in range(n_scn):
        r = rng.random()
        try:
            if r < 0.5:
                scns.append((k, None, gen_scenario_a(rng, hist)))
            elif r < 0.58:
                scns.append((k, None, gen_scenario_m(rng, hist)))
            elif r < 0.9:
                a, b = gen_scenario_b(rng, hist)
                scns.append((k, "circuit", a))
                scns.append((k, "process", b))
            else:
                scns.append((k, None, gen_scenario_d(rng, hist)))
        except Exception as e:
            import traceback
            hist["generator_error:" + errkind(e)] = hist.get("generator_error:" + errkind(e), 0) + 1
            if cases is not None:
                cases.append({"index": k, "gen_error": traceback.format_exc()[-800:]})
    return scns


def scenario_job(args):
    seed, n_scn, n_perm, exe = args
    rng = random.Random(seed)
    hist = {}
    cases = []
    scns = gen_job_scenarios(rng, hist, n_scn, cases)
    for c in cases:
        c["seed"] = seed
    reqs = []
    for k, variant, scn in scns:
        case = {"seed": seed, "index": k, "variant": variant, "desc": describe(scn), "per_job": n_scn}
        orders = [("sorted", 0), ("native", 0), ("reverse", 0)] + [("shuffle", rng.getrandbits(32)) for _ in range(n_perm)]
        if not getattr(scn, "rows", None):
            orders.append(("rerun", 0))
        runs = []
        try:
            for mode, oseed in orders:
                runs.append(((mode, oseed), show_run(run_impl(scn, mode, oseed))))
                if runs[-1][1].startswith("hang"):
                    break
            case["runs"] = runs
            if getattr(scn, "nomodel", False):
                case["nomodel"] = True
                case["req"] = repr(describe(scn)) + repr([[str(op)[:80] for op in sc] for sc in scn.tbs])
            else:
                case["req"] = ser_scenario(scn)
        except Exception as e:
            import traceback
            case["harness_error"] = traceback.format_exc()[-1500:]
        cases.append(case)
        if "req" in case and not case.get("nomodel"):
            reqs.append(case)
    if reqs:
        drv = common.Driver(exe)
        lines = [c["req"] for c in reqs]
        for c, resp in zip(reqs, drv.ask(lines)):
            c["resp"] = resp
    return {"cases": cases, "hist": hist}


def time_job(args):
    """stream T: Period arithmetic and instants observed through elapsed_time()"""
    seed, n, exe = args
    from amaranth.hdl import Module, Signal, ClockDomain, Period
    from amaranth.sim import Simulator
    rng = random.Random(seed)
    out = []
    for _ in range(n):
        case = {"seed": seed}
        how = rng.choice(["fs", "fs", "ps", "ns", "us", "MHz", "kHz", "GHz", "Hz", "arith"])
        try:
            if how == "fs":
                v = rng.choice([rng.randint(2, 60), rng.randint(2, 10 ** 7) | 1, rng.randint(2, 10 ** 12)])
                period, exact = Period(fs=v), Fraction(v)
            elif how in ("ps", "ns", "us"):
                unit = {"ps": 10 ** 3, "ns": 10 ** 6, "us": 10 ** 9}[how]
                num, den = rng.randint(1, 4000), rng.choice([1, 1, 2, 4, 8, 5, 10, 1000])
                period, exact = Period(**{how: num / den}), Fraction(num, den) * unit
            elif how in ("MHz", "kHz", "GHz", "Hz"):
                unit = {"Hz": 10 ** 15, "kHz": 10 ** 12, "MHz": 10 ** 9, "GHz": 10 ** 6}[how]
                f = rng.choice([rng.randint(1, 999), rng.choice([1, 3, 7, 12, 25, 33, 48, 50, 100, 125, 133])])
                period, exact = Period(**{how: f}), Fraction(unit, f)
            else:
                a, b = rng.randint(1, 10 ** 6), rng.randint(1, 10 ** 6)
                k = rng.randint(1, 9)
                period, exact = (Period(fs=a) + Period(fs=b)) * k - Period(fs=b), Fraction((a + b) * k - b)
            case["how"] = how
            case["period_fs"] = period.femtoseconds
            case["period_exact"] = (exact.numerator, exact.denominator)
            pf = period.femtoseconds
            if pf < 2 or pf > 10 ** 13:
                continue
            r = rng.random()
            phase = None if r < 0.45 else Period(fs=rng.choice([0, 1, rng.randint(0, 3 * pf)]))
            case["phase_fs"] = None if phase is None else phase.femtoseconds
            ntog = rng.randint(3, 9)
            delays = [rng.choice([0, 1, rng.randint(0, pf), rng.randint(0, 3 * pf)]) for _ in range(rng.randint(1, 5))]
            m = Module()
            m.domains.sync = cd = ClockDomain(clk_edge=rng.choice(["pos", "neg"]))
            q = Signal(4)
            m.d.sync += q.eq(q + 1)
            sim = Simulator(m)
            sim.add_clock(period, phase=phase)
            toggles, wakes, ticks = [], [], []

            async def watch(ctx):
                use_edge = rng.random() < 0.5
                lvl = 0
                for _k in range(ntog):
                    if use_edge:
                        lvl = 1 - lvl
                        await ctx.edge(cd.clk, lvl)
                    else:
                        await ctx.changed(cd.clk)
                    toggles.append(ctx.elapsed_time().femtoseconds)

            async def sleeper(ctx):
                for dl in delays:
                    t0 = ctx.elapsed_time().femtoseconds
                    await ctx.delay(Period(fs=dl))
                    wakes.append((t0, dl, ctx.elapsed_time().femtoseconds))

            async def ticker(ctx):
                for _k in range(3):
                    await ctx.tick()
                    ticks.append(ctx.elapsed_time().femtoseconds)
            sim.add_testbench(watch)
            sim.add_testbench(sleeper)
            sim.add_testbench(ticker)
            if rng.random() < 0.5:
                # like `sim.run()`, but bounded: everything below must have finished long before
                bound = (3 * pf if phase is None else phase.femtoseconds) + (ntog + 8) * pf + sum(delays) + 1
                sim.run_until(Period(fs=bound))
                case["until"] = None
                case["complete"] = (len(toggles) == ntog and len(wakes) == len(delays) and len(ticks) == 3)
            else:
                T = rng.randint(1, (ntog + 1) * pf)
                sim.run_until(Period(fs=T))
                case["until"] = T
            case.update(toggles=toggles, wakes=wakes, ticks=ticks, ntog=ntog, posedge=cd.clk_edge == "pos")
        except Exception as e:
            import traceback
            case["error"] = (errkind(e), traceback.format_exc()[-600:])
        out.append(case)
    live = [c for c in out if "toggles" in c]
    if live:
        drv = common.Driver(exe)
        halves = drv.ask([f"(halfdefault {c['period_fs']})" for c in live])
        for c, h in zip(live, halves):
            c["phase_spec"] = int(common.kv(h)["spec"]) if c["phase_fs"] is None else c["phase_fs"]
        resps = drv.ask([f"(clock {c['phase_spec']} {c['period_fs']} {c['ntog']})" for c in live])
        for c, r in zip(live, resps):
            c["resp"] = r
    return out


# ------------------------------------------------------------------------------------------------
# stream W (implementation only): several memory rows written in ONE delta cycle, seen through asynchronous
# read ports.  The expectation is the array semantics, computed here from a list of rows: after the delta in
# which the writes happen, every asynchronous read port shows the row its address selects *after all writes of
# that delta*, whatever else is (or is not) scheduled in the delta and in whichever order.

def gen_memwrite(rng):
    """abstract scenario (plain data, so that it can be stored in a replay)"""
    w = rng.randint(1, 8)
    depth = rng.choice([2, 2, 3, 4, 4, 5, 8])
    signed_ = rng.random() < 0.2
    init = [rng.getrandbits(w) for _ in range(depth)]
    trigger = rng.choice(["clock", "clock", "hand", "hand", "process"])
    n_wp = 0 if trigger == "process" and rng.random() < 0.6 else rng.choice([1, 2, 2, 2, 3])
    grans = []
    for _ in range(n_wp):
        g = rng.choice([None, None, 1] + [d for d in (2, 4) if w % d == 0 and d < w])
        grans.append(None if signed_ else g)
    other = rng.choice(["none", "none", "none", "counter", "syncread", "both"])
    n_rc = rng.choice([1, 1, 2])
    scn = {"w": w, "depth": depth, "signed": signed_, "init": init, "trigger": trigger, "grans": grans, "other": other,
           "n_rc": n_rc, "edge": rng.choice(["pos", "pos", "neg"]), "period": rng.choice([2, 7, 10, 1000]), "steps": []}
    style = rng.choice(["idle-second", "random", "random", "same-value"])
    for _ in range(rng.randint(3, 9)):
        st = {"wp": [], "rc": [], "rows": []}
        for k in range(n_wp):
            nen = 1 if grans[k] is None else w // grans[k]
            if rng.random() < 0.75:
                if style == "idle-second" and k > 0:
                    en = 0 if rng.random() < 0.8 else rng.getrandbits(nen)
                else:
                    en = rng.choice([0, (1 << nen) - 1, rng.getrandbits(nen)])
                st["wp"].append((k, rng.randrange(depth), ("same" if style == "same-value" and k > 0 and rng.random() < 0.7
                                                           else rng.getrandbits(w)), en))
        for k in range(n_rc):
            if rng.random() < 0.5:
                st["rc"].append((k, rng.randrange(depth)))
        if trigger == "process":
            # the rows one wake-up of the writer process sets, in order; "same" = the value the row already has
            for _k in range(rng.choice([1, 2, 2, 3, 3])):
                st["rows"].append((rng.randrange(depth), "same" if rng.random() < 0.45 else rng.getrandbits(w)))
        st["fire"] = rng.random() < 0.9
        scn["steps"].append(st)
    return scn


def memwrite_expected(scn):
    """(trace the testbench must record, statistics) under the array semantics"""
    w, depth = scn["w"], scn["depth"]
    full = (1 << w) - 1
    rows = list(scn["init"])
    wp = [[0, 0, 0] for _ in scn["grans"]]
    rc = [0] * scn["n_rc"]
    rs_data = 0
    trace = []
    stats = {"deltas": 0, "multi_row": 0, "last_unchanged_earlier_changed": 0, "max_rows": 0}

    def obs(i):
        trace.append((i, [rows[a] for a in rc], list(rows)) + ((rs_data,) if scn["other"] in ("syncread", "both") else ()))

    for i, st in enumerate(scn["steps"]):
        for k, a, d, en in st["wp"]:
            wp[k] = [a, rows[a] if d == "same" else d, en]
        for k, a in st["rc"]:
            rc[k] = a
        obs(i)                                            # after the sets: a testbench's set() has settled
        if not st["fire"]:
            continue
        queue = {}                                        # row -> value, in the order in which rows are first written
        if scn["trigger"] == "process":
            # no clock edge: the write ports do nothing; the writer process sets rows ("same": the committed value)
            for a, v in st["rows"]:
                queue[a] = rows[a] if v == "same" else v
        else:
            new_rs = rows[0]                              # the synchronous read port: row 0, enabled, not transparent
            for (a, d, en), g in zip(wp, scn["grans"]):
                if g is None:
                    mask = full if en else 0
                else:
                    mask = 0
                    for b in range(w // g):
                        if (en >> b) & 1:
                            mask |= ((1 << g) - 1) << (b * g)
                cur = queue.get(a, rows[a])
                queue[a] = (d & mask) | (cur & ~mask & full)
        if queue:
            stats["deltas"] += 1
            stats["max_rows"] = max(stats["max_rows"], len(queue))
            if len(queue) >= 2:
                stats["multi_row"] += 1
                last = list(queue)[-1]
                if queue[last] == rows[last] and any(queue[a] != rows[a] for a in queue):
                    stats["last_unchanged_earlier_changed"] += 1
        for a, v in queue.items():
            rows[a] = v
        if scn["trigger"] != "process" and scn["other"] in ("syncread", "both"):
            rs_data = new_rs
        obs(i)                                            # after the edge / the wake-up of the writer has settled
        if scn["trigger"] == "hand":
            obs(i)                                        # and again after the clock went back
    return trace, stats


def run_memwrite(scn, mode, oseed):
    from amaranth.hdl import Module, Signal, ClockDomain, Period, signed, unsigned
    from amaranth.lib.memory import Memory
    from amaranth.sim import Simulator
    w, depth = scn["w"], scn["depth"]
    full = (1 << w) - 1
    m = Module()
    cd = ClockDomain("sync", clk_edge=scn["edge"], reset_less=True)
    m.domains += cd
    shape = signed(w) if scn["signed"] else unsigned(w)

    def tosh(v):
        return v - (1 << w) if scn["signed"] and v >> (w - 1) else v
    m.submodules.mem = mem = Memory(shape=shape, depth=depth, init=[tosh(v) for v in scn["init"]])
    wps = [mem.write_port(domain="sync", granularity=g) for g in scn["grans"]]
    rcs = [mem.read_port(domain="comb") for _ in range(scn["n_rc"])]
    rs = None
    if scn["other"] in ("syncread", "both"):
        rs = mem.read_port(domain="sync")
    if scn["other"] in ("counter", "both"):
        ctr = Signal(8, name="ctr")
        m.d.sync += ctr.eq(ctr + 1)
    go = Signal(name="go")
    sim = Simulator(m)
    eng = sim._engine
    added = []
    if scn["trigger"] == "clock":
        before = {id(p) for p in eng._processes}
        sim.add_clock(Period(fs=scn["period"]), domain=cd)
        added += [p for p in eng._processes if id(p) not in before]
    cur_rows = {"rows": []}
    if scn["trigger"] == "process":
        async def writer(ctx):
            async for _v in ctx.changed(go):
                for a, v in cur_rows["rows"]:                 # several rows (or one row twice) before yielding
                    ctx.set(mem.data[a], tosh(v))
        before = {id(p) for p in eng._processes}
        sim.add_process(writer)
        added += [p for p in eng._processes if id(p) not in before]
    trace = []
    active, idle = (1, 0) if scn["edge"] == "pos" else (0, 1)

    async def tb(ctx):
        def obs(i):
            rec = (i, [int(ctx.get(r.data)) & full for r in rcs], [int(ctx.get(mem.data[a])) & full for a in range(depth)])
            if rs is not None:
                rec += (int(ctx.get(rs.data)) & full,)
            trace.append(rec)
        if scn["trigger"] == "hand":
            ctx.set(cd.clk, idle)
        for i, st in enumerate(scn["steps"]):
            for k, a, d, en in st["wp"]:
                ctx.set(wps[k].addr, a)
                ctx.set(wps[k].data, tosh(int(ctx.get(mem.data[a])) & full if d == "same" else d))
                ctx.set(wps[k].en, en)
            for k, a in st["rc"]:
                ctx.set(rcs[k].addr, a)
            obs(i)
            if not st["fire"]:
                continue
            if scn["trigger"] == "clock":
                await ctx.tick()
            elif scn["trigger"] == "hand":
                ctx.set(cd.clk, active)
                obs(i)                                    # set() returns after everything it caused has settled
                ctx.set(cd.clk, idle)
            else:
                # "same": the value the row holds now (a process cannot call get(); the testbench resolves it)
                cur_rows["rows"] = [(a, int(ctx.get(mem.data[a])) & full if v == "same" else v) for a, v in st["rows"]]
                ctx.set(go, 1 - int(ctx.get(go)))
            obs(i)
    sim.add_testbench(tb)
    install_order(sim, added, mode, oseed)
    try:
        sim.run()
        return ("ok", trace)
    except Hang:
        return ("hang", trace)
    except Exception as e:
        return ("raise:" + errkind(e), trace + [("error", repr(e)[:200])])


def memwrite_job(args):
    seed, n, n_perm = args
    rng = random.Random(seed)
    out = []
    for k in range(n):
        scn = gen_memwrite(rng)
        case = {"seed": seed, "index": k, "per_job": n, "scn": scn}
        orders = [("sorted", 0), ("native", 0), ("reverse", 0)] + [("shuffle", rng.getrandbits(32)) for _ in range(n_perm)]
        try:
            exp, stats = memwrite_expected(scn)
            case["expected"] = [list(x) for x in exp]
            case["stats"] = stats
            case["runs"] = []
            for mode, oseed in orders:
                status, trace = run_memwrite(scn, mode, oseed)
                case["runs"].append(((mode, oseed), status, [list(x) for x in trace]))
        except Exception:
            import traceback
            case["harness_error"] = traceback.format_exc()[-1500:]
        out.append(case)
    return out


def judge_memwrite(chk, case):
    scn = case["scn"]
    base = {"stream": "memwrite", "job_seed": case["seed"], "index": case["index"], "per_job": case["per_job"], "scenario": scn}
    if "harness_error" in case:
        chk.not_shown("the harness could not run a memory-write scenario", dict(base, error=case["harness_error"]))
        return
    runs, exp, stats = case["runs"], case["expected"], case["stats"]
    chk.count(len(runs))
    chk.hist("memwrite: trigger of the writes", {"clock": "add_clock + tick()", "hand": "testbench toggles the clock",
                                                 "process": "add_process sets rows"}[scn["trigger"]])
    chk.hist("memwrite: write ports in the domain", len(scn["grans"]))
    chk.hist("memwrite: other logic in the written domain", scn["other"])
    chk.hist("memwrite: asynchronous read ports", scn["n_rc"])
    chk.hist("memwrite: most rows queued in one delta", stats["max_rows"])
    chk.hist("memwrite: deltas with >= 2 rows queued", stats["multi_row"])
    chk.hist("memwrite: scenario has a delta whose last queued row is unchanged while an earlier one changes",
             stats["last_unchanged_earlier_changed"] > 0)
    (ref_order, ref_status, ref) = runs[0]
    for order, status, tr in runs:
        if status != "ok":
            chk.violation(f"simulating a memory with several writes in one delta cycle: {status} under order {order}",
                          dict(base, kind="memwrite-status", order=order, trace=tr[-5:], classes=[]))
            return
    for order, status, tr in runs[1:]:
        if tr != ref:
            k = next((i for i, (x, y) in enumerate(zip(ref, tr)) if x != y), min(len(ref), len(tr)))
            chk.violation(f"memory rows written in one delta cycle: the observations depend on the iteration order of the ready "
                          f"processes ({order} differs from {ref_order} at observation {k})",
                          dict(base, kind="memwrite-schedule", order_a=ref_order, order_b=order, first_difference=k,
                               obs_a=ref[k] if k < len(ref) else None, obs_b=tr[k] if k < len(tr) else None, classes=[]))
            return
    if ref != exp:
        k = next((i for i, (x, y) in enumerate(zip(ref, exp)) if x != y), min(len(ref), len(exp)))
        got, want = (ref[k] if k < len(ref) else None), (exp[k] if k < len(exp) else None)
        what = "rows" if got and want and got[2] != want[2] else "the data of an asynchronous read port" \
            if got and want and got[1] != want[1] else "the observations"
        chk.violation(f"{what} after a delta cycle with {stats['max_rows']} queued row(s) differ from the array semantics: "
                      f"observation {k} (step, read port data, rows[, sync read data]) is {got}, expected {want} "
                      f"(trigger: {scn['trigger']}, other logic in the domain: {scn['other']})",
                      dict(base, kind="memwrite-array", observation=k, impl=got, expected=want, classes=[]))
        return
    chk.distinct(("memwrite", repr(scn)), stats["multi_row"] > 0)
    if stats["last_unchanged_earlier_changed"]:
        chk.sample({"stream": "memwrite", "trigger": scn["trigger"], "write_ports": len(scn["grans"]), "other": scn["other"],
                    "deltas_with_last_row_unchanged": stats["last_unchanged_earlier_changed"], "observations": len(ref)}, limit=6)


# ------------------------------------------------------------------------------------------------
# stream P (implementation against an event-level specification evaluated here): MULTI-SHOT waits on trigger
# combinations that contain a delay - `async for ... in ctx.delay(T)[.sample(ctr)]`,
# `ctx.edge(clk, pol).delay(T)`, `ctx.changed(clk).delay(T)` - in testbenches and added processes whose loop BODY
# itself takes simulated time (`await ctx.delay(t)`, `await ctx.tick()`), shorter than, equal to and longer than T.
#
# What the documentation of TriggerCombination (sim/_async.py) and the engine (pysim._PyTriggerState) prescribe:
#   * the delay of the combination starts when the wait is created and restarts at the instant the combination
#     fires (for whichever of its triggers); the body does not postpone it: a delay-only loop wakes at
#     start + T, start + 2T, ... exactly ("delays expire after exactly the requested interval");
#   * a multi-shot wait keeps observing its triggers while the body runs: when the combination is activated again
#     before the next iteration (the delay expires, or the edge occurs, at an instant t with wake < t <= end of
#     the body), the next iteration raises BrokenTrigger at the end of the body;
#   * values sampled at a wake-up caused by a delay that coincides with a clock edge are those from before the edge;
#     a testbench resumed at an instant sees the registers after every edge of that instant.
# Instants at which the outcome depends on more than that (an added process that starts waiting for an edge in the
# very delta cycle in which the edge is committed; the delay and the edge of one combination at the same instant)
# are not generated: `periodic_expected` returns None and the scenario is drawn again (counted).

def _periodic_clock(scn, horizon):
    """[(time, level after the toggle)] of the added clock up to the horizon"""
    period = scn["period"]
    phase = round(Fraction(period, 2)) if scn["phase"] is None else scn["phase"]
    half = period // 2
    out = []
    j = 0
    while phase + j * half <= horizon:
        out.append((phase + j * half, (j + 1) % 2))
        j += 1
    return out


def periodic_expected(scn, horizon=None):
    """per agent: the list of records the agent must log, the last value it sets; then the counter at the bound.
    None: the scenario contains an instant this specification leaves open."""
    horizon = scn["bound"] + 4 * scn["period"] + 4 if horizon is None else horizon
    toggles = _periodic_clock(scn, horizon)
    active_level = 1 if scn["edge"] == "pos" else 0
    active = [t for t, lvl in toggles if lvl == active_level]
    active_set = set(active)

    def n_before(t):
        return sum(1 for x in active if x < t)

    def n_upto(t):
        return sum(1 for x in active if x <= t)

    def next_active(t):
        return next(x for x in active if x > t)

    def level_before(t):
        """the clock level just before instant t"""
        lv = 0
        for x, l in toggles:
            if x < t:
                lv = l
        return lv

    out = []
    for ag in scn["agents"]:
        tb, T, ek, n = ag["tb"], ag["T"], ag["edge"], len(ag["bodies"])
        if ek is None:
            match = []
        elif ek[0] == "edge":
            match = [(t, l) for t, l in toggles if l == ek[1]]
        else:
            match = list(toggles)
        match_set = {t for t, _l in match}

        def next_match(t):
            return next(((x, l) for x, l in match if x > t), (None, None))

        log = []
        last_set = None
        now = ag["start"]
        if ek is not None and not tb and now in match_set:
            return None                                # a process that starts waiting in the delta in which the edge is committed
        armed = now
        ended = False
        for k in range(n):
            deadline = armed + T
            e, lvl = next_match(now) if ek is not None else (None, None)
            if e is not None and e == deadline:
                return None                            # delay and edge of one combination at the same instant
            if e is not None and e < deadline:
                w, by_delay = e, False
            else:
                w, by_delay = deadline, True
            if w > scn["bound"] - 1:
                return None
            if ek is None:
                res = [1]
            elif ek[0] == "edge":
                res = [int(not by_delay), int(by_delay)]
            else:
                res = [level_before(w) if by_delay else lvl, int(by_delay)]
            if ag["sample"]:
                res.append(n_before(w) % 256)
            log.append(["wake", k, w, res])
            armed = now = w
            for j, st in enumerate(ag["bodies"][k]):
                if st[0] == "delay":
                    now += st[1]
                    log.append(["step", k, j, now])
                elif st[0] == "tick":
                    if not tb and now in active_set:
                        return None                    # a process awaiting tick() in the delta of the edge
                    now = next_active(now)
                    log.append(["step", k, j, now])
                elif st[0] == "get":
                    log.append(["get", k, j, now, n_upto(now) % 256])
                else:
                    last_set = st[1]
            if now > scn["bound"] - 1:
                return None
            broken = False
            if now > w:
                if armed + T <= now:
                    broken = True
                if ek is not None:
                    m, _l = next_match(w)
                    if m is not None and m < now:
                        broken = True
                    elif m is not None and m == now:
                        if not tb:
                            return None                # the process re-awaits in the delta in which the edge is committed
                        broken = True
            if broken and k < n - 1:
                log.append(["broken", k + 1, now])
                ended = True
                break
        if not ended:
            log.append(["done", now])
        out.append([log, last_set])
    return out, n_before(scn["bound"]) % 256


def gen_periodic(rng, stats):
    """abstract scenario (plain data: stored in the replay)"""
    for _try in range(200):
        scale = rng.choice([1, 1, 1, 1000, 10 ** 6 + 1])
        period = rng.randint(2, 30) * scale + rng.choice([0, 0, 1])
        scn = {"period": period, "phase": None if rng.random() < 0.25 else rng.randint(1, 2 * period),
               "edge": rng.choice(["pos", "pos", "neg"]), "agents": []}
        end = 0
        half = period // 2
        for _a in range(rng.choice([1, 1, 2, 2, 3])):
            r = rng.random()
            ek = None if r < 0.55 else ("edge", rng.randint(0, 1)) if r < 0.85 else ("changed",)
            if ek is None:
                T = rng.choice([rng.randint(1, 6), rng.randint(2, 40), rng.randint(2, 40)]) * scale + rng.choice([0, 0, 1])
            else:
                # comparable with the clock, so that both the delay and the edge wake the loop
                T = max(1, rng.randint(max(1, period // 4), 2 * period) + rng.choice([0, 0, 1, -1]))
            tb = rng.random() < 0.6
            ag = {"tb": tb, "T": T, "edge": ek, "sample": rng.random() < 0.5,
                  "start": rng.choice([0, 0, rng.randint(1, 2 * T)]) if ek is None or ek[0] != "changed" else rng.randint(1, 2 * T),
                  "bodies": [], "classes": []}
            n = rng.randint(2, 6)
            # the first body during which the combination fires again (it ends the loop with BrokenTrigger), if any
            bad_at = None if rng.random() < 0.45 else rng.randrange(n)
            room = T if ek is None else min(T, half if ek[0] == "changed" else period)
            span = ag["start"]
            for k in range(n):
                if k == bad_at:
                    cls = rng.choice(["equal", "long", "long"])
                else:
                    cls = rng.choice(["zero", "short", "short", "short", "short", "short", "tick", "tick"] if k else
                                     ["short", "short", "short", "short", "tick"])
                if room <= 1 and cls == "short":
                    cls = "zero"
                if cls == "zero":
                    total = 0
                elif cls == "short":
                    total = rng.randint(1, room - 1)
                elif cls == "equal":
                    total = T
                elif cls == "long":
                    total = T + rng.randint(1, 2 * T)
                body = []
                if cls == "tick":
                    body.append(("tick",))
                    if rng.random() < 0.3:
                        body.append(("delay", rng.randint(1, max(1, T // 2))))
                    if rng.random() < 0.15:
                        body.append(("tick",))
                elif total:
                    parts = []
                    left = total
                    while left > 0:
                        p = left if rng.random() < 0.6 else rng.randint(1, left)
                        parts.append(p)
                        left -= p
                    body = [("delay", p) for p in parts]
                if rng.random() < 0.6:
                    body.insert(rng.randint(0, len(body)), ("set", rng.randint(0, 255)))
                if tb and rng.random() < 0.5:
                    body.insert(rng.randint(0, len(body)), ("get",))
                ag["bodies"].append(body)
                ag["classes"].append(cls)
                span += T + sum(st[1] for st in body if st[0] == "delay") + sum(2 * period for st in body if st[0] == "tick")
            end = max(end, span)
            scn["agents"].append(ag)
        scn["bound"] = end + 2 * period + 3
        if periodic_expected(scn) is not None:
            return scn
        stats["redrawn"] = stats.get("redrawn", 0) + 1
    raise RuntimeError("no periodic scenario without an open instant in 200 draws")


def run_periodic(scn, mode, oseed):
    from amaranth.hdl import Module, Signal, ClockDomain, Period
    from amaranth.sim import Simulator, BrokenTrigger
    m = Module()
    cd = ClockDomain("sync", clk_edge=scn["edge"], reset_less=True)
    m.domains += cd
    ctr = Signal(8, name="ctr")
    m.d.sync += ctr.eq(ctr + 1)
    outs = [Signal(8, name=f"o{i}") for i in range(len(scn["agents"]))]
    sim = Simulator(m)
    eng = sim._engine
    added = []
    before = {id(p) for p in eng._processes}
    sim.add_clock(Period(fs=scn["period"]), phase=None if scn["phase"] is None else Period(fs=scn["phase"]), domain=cd)
    added += [p for p in eng._processes if id(p) not in before]
    logs = [[] for _ in scn["agents"]]

    def mk(ag, o, log):
        async def agent(ctx):
            def now():
                return ctx.elapsed_time().femtoseconds
            if ag["start"] > 0:
                await ctx.delay(Period(fs=ag["start"]))
            ek = ag["edge"]
            if ek is None:
                trig = ctx.delay(Period(fs=ag["T"]))
            elif ek[0] == "edge":
                trig = ctx.edge(cd.clk, ek[1]).delay(Period(fs=ag["T"]))
            else:
                trig = ctx.changed(cd.clk).delay(Period(fs=ag["T"]))
            if ag["sample"]:
                trig = trig.sample(ctr)
            k = 0
            try:
                async for res in trig:
                    log.append(["wake", k, now(), [int(x) for x in res]])
                    for j, st in enumerate(ag["bodies"][k]):
                        if st[0] == "delay":
                            await ctx.delay(Period(fs=st[1]))
                            log.append(["step", k, j, now()])
                        elif st[0] == "tick":
                            await ctx.tick(cd)
                            log.append(["step", k, j, now()])
                        elif st[0] == "get":
                            log.append(["get", k, j, now(), int(ctx.get(ctr))])
                        else:
                            ctx.set(o, st[1])
                    k += 1
                    if k == len(ag["bodies"]):
                        break
            except BrokenTrigger:
                log.append(["broken", k, now()])
                return
            log.append(["done", now()])
        return agent

    for ag, o, log in zip(scn["agents"], outs, logs):
        if ag["tb"]:
            sim.add_testbench(mk(ag, o, log))
        else:
            before = {id(p) for p in eng._processes}
            sim.add_process(mk(ag, o, log))
            added += [p for p in eng._processes if id(p) not in before]
    install_order(sim, added, mode, oseed)
    try:
        sim.run_until(Period(fs=scn["bound"]))
        return ("ok", logs, [int(eng.get_value(o)) for o in outs], int(eng.get_value(ctr)))
    except Hang:
        return ("hang", logs, [], None)
    except Exception as e:
        return ("raise:" + errkind(e) + ":" + repr(e)[:120], logs, [], None)


def periodic_job(args):
    seed, n, n_perm = args
    rng = random.Random(seed)
    out = []
    for k in range(n):
        case = {"seed": seed, "index": k, "per_job": n}
        try:
            stats = {}
            scn = gen_periodic(rng, stats)
            case["scn"] = scn
            case["redrawn"] = stats.get("redrawn", 0)
            exp, ctr_end = periodic_expected(scn)
            case["expected"] = exp
            case["ctr_end"] = ctr_end
            orders = [("sorted", 0), ("native", 0), ("reverse", 0)] + [("shuffle", rng.getrandbits(32)) for _ in range(n_perm)]
            case["runs"] = []
            for mode, oseed in orders:
                status, logs, finals, ctr = run_periodic(scn, mode, oseed)
                case["runs"].append(((mode, oseed), status, logs, finals, ctr))
        except Exception:
            import traceback
            case["harness_error"] = traceback.format_exc()[-1500:]
        out.append(case)
    return out


def _periodic_trigger_name(ag):
    ek = ag["edge"]
    base = "delay(T)" if ek is None else f"edge(clk,{ek[1]}).delay(T)" if ek[0] == "edge" else "changed(clk).delay(T)"
    return base + (".sample(ctr)" if ag["sample"] else "")


def judge_periodic(chk, case):
    base = {"stream": "periodic", "job_seed": case["seed"], "index": case["index"], "per_job": case["per_job"],
            "scenario": case.get("scn")}
    if "harness_error" in case:
        chk.not_shown("the harness could not run a periodic-wait scenario", dict(base, error=case["harness_error"]))
        return
    scn, runs, exp = case["scn"], case["runs"], case["expected"]
    chk.count(len(runs))
    chk.hist("periodic: scenarios drawn again (instant outside the event-level specification)", case["redrawn"] > 0)
    chk.hist("periodic: agents per scenario", len(scn["agents"]))
    for ag, (log, _last) in zip(scn["agents"], exp):
        chk.hist("periodic: multi-shot wait in", "testbench" if ag["tb"] else "added process")
        chk.hist("periodic: trigger combination", _periodic_trigger_name(ag))
        nwake = sum(1 for r in log if r[0] == "wake")
        for c in ag["classes"][:nwake]:
            chk.hist("periodic: loop body takes", {"zero": "no time", "short": "less than T", "equal": "exactly T",
                                                   "long": "more than T", "tick": "until the next tick()"}[c])
        chk.hist("periodic: loop ends with", "BrokenTrigger" if log[-1][0] == "broken" else "break after the last iteration")
        chk.hist("periodic: wake-ups after a body that took time",
                 sum(1 for a, b in zip(log, log[1:]) if b[0] == "wake" and a[0] == "step"))
    (ref_order, ref_status, ref_logs, ref_finals, ref_ctr) = runs[0]
    for order, status, logs, _f, _c in runs:
        if status != "ok":
            chk.violation(f"simulating repeated waits on a delay: {status} under order {order}",
                          dict(base, kind="periodic-status", order=order, logs=logs, classes=[]))
            return
    for order, _status, logs, finals, ctr in runs[1:]:
        if (logs, finals, ctr) != (ref_logs, ref_finals, ref_ctr):
            chk.violation(f"repeated waits on a delay: the observations depend on the iteration order of the ready processes "
                          f"({order} differs from {ref_order})",
                          dict(base, kind="periodic-schedule", order_a=ref_order, order_b=order, logs_a=ref_logs, logs_b=logs,
                               finals_a=[ref_finals, ref_ctr], finals_b=[finals, ctr], classes=[]))
            return
    for i, (ag, (elog, elast), got) in enumerate(zip(scn["agents"], exp, ref_logs)):
        if got != elog:
            k = next((j for j, (x, y) in enumerate(zip(got, elog)) if x != y), min(len(got), len(elog)))
            g, w = (got[k] if k < len(got) else None), (elog[k] if k < len(elog) else None)
            who = "a testbench" if ag["tb"] else "an added process"
            if g and w and g[0] == "wake" and w[0] == "wake" and g[2] != w[2]:
                what = (f"iteration {w[1]} of `async for ... in {_periodic_trigger_name(ag)}` (T = {ag['T']} fs, loop started at "
                        f"{ag['start']} fs) in {who} whose body awaits simulated time resumes at {g[2]} fs; the delay restarts when the "
                        f"combination fires, so it must resume at {w[2]} fs")
            elif w and w[0] == "broken" and (not g or g[0] != "broken"):
                what = (f"`async for ... in {_periodic_trigger_name(ag)}` (T = {ag['T']} fs) in {who}: the combination is activated "
                        f"again while the body of iteration {w[1] - 1} is running, the next iteration must raise BrokenTrigger at "
                        f"{w[2]} fs; got {g}")
            else:
                what = (f"`async for ... in {_periodic_trigger_name(ag)}` (T = {ag['T']} fs) in {who}: record {k} is {g}, "
                        f"the event-level specification gives {w}")
            chk.violation(what, dict(base, kind="periodic-spec", agent=i, record=k, impl=got, expected=elog, classes=[]))
            return
        elast_v = 0 if elast is None else elast
        if ref_finals[i] != elast_v:
            chk.violation(f"the signal set by the body of a repeated wait ends as {ref_finals[i]}, expected {elast_v}",
                          dict(base, kind="periodic-final", agent=i, impl=ref_finals, classes=[]))
            return
    if ref_ctr != case["ctr_end"]:
        chk.violation(f"the counter of the clocked domain is {ref_ctr} at {scn['bound']} fs, expected {case['ctr_end']}",
                      dict(base, kind="periodic-counter", classes=[]))
        return
    timed = any(a[0] == "step" and b[0] == "wake" for log, _l in exp for a, b in zip(log, log[1:]))
    chk.distinct(("periodic", repr(scn)), timed or any(log[-1][0] == "broken" for log, _l in exp))
    if timed:
        ag, (log, _l) = next((a, e) for a, e in zip(scn["agents"], exp) if any(x[0] == "step" and y[0] == "wake" for x, y in zip(e[0], e[0][1:])))
        chk.sample({"stream": "periodic", "wait": _periodic_trigger_name(ag), "in": "testbench" if ag["tb"] else "process",
                    "T": ag["T"], "start": ag["start"], "body_classes": ag["classes"], "records": log[:12]}, limit=8)


# ------------------------------------------------------------------------------------------------
# stream Q: Period division (`Period / number`, `number * Period / number`) against exact rationals - quotients with
# every fractional part, in particular >= 1/2 - and the default phase (`period / 2`) of clocks whose period is an odd
# number of femtoseconds, observed through the first toggles.

def perioddiv_job(args):
    seed, n = args
    from amaranth.hdl import Module, Signal, ClockDomain, Period
    from amaranth.sim import Simulator
    rng = random.Random(seed)
    out = []
    for i in range(n):
        case = {"seed": seed, "index": i}
        try:
            if i % 4 == 3:
                # default phase of an added clock: period / 2 rounded to the nearest femtosecond (ties to even)
                how = rng.choice(["MHz", "fs-odd", "fs-odd", "kHz"])
                if how == "fs-odd":
                    pf = rng.choice([rng.randint(1, 50), rng.randint(1, 10 ** 6), rng.randint(1, 10 ** 10)]) * 2 + 1
                    period = Period(fs=pf)
                else:
                    f = rng.choice([3, 7, 7, 9, 11, 13, 21, 27, 33, 49, 77, rng.randint(1, 999)])
                    period = Period(**{how: f})
                    pf = period.femtoseconds
                m = Module()
                m.domains.sync = cd = ClockDomain()
                q = Signal(4)
                m.d.sync += q.eq(q + 1)
                sim = Simulator(m)
                sim.add_clock(period)
                togs = []

                async def watch(ctx):
                    for _k in range(3):
                        await ctx.changed(cd.clk)
                        togs.append(ctx.elapsed_time().femtoseconds)
                sim.add_testbench(watch)
                sim.run()
                first = round(Fraction(pf, 2))
                case.update(kind="phase", how=how, period_fs=pf, toggles=togs,
                            expected=[first, first + pf // 2, first + 2 * (pf // 2)])
            else:
                unit = rng.choice(["fs", "fs", "ps", "ns", "ns", "us"])
                mul = {"fs": 1, "ps": 10 ** 3, "ns": 10 ** 6, "us": 10 ** 9}[unit]
                v = rng.choice([rng.randint(1, 9), rng.randint(1, 99), rng.randint(1, 10 ** 4)]) if unit != "fs" else \
                    rng.choice([rng.randint(1, 99), rng.randint(1, 10 ** 6), rng.randint(1, 10 ** 11)])
                den = rng.choice([2, 3, 3, 4, 6, 7, 7, 9, 11, 12, 13, rng.randint(2, 1000)])
                k = rng.choice([1, 1, 1, 2, 3, 5, rng.randint(1, 9)])
                neg = rng.random() < 0.15
                base = Period(**{unit: v})
                if neg:
                    base = -base
                got = (k * base / den) if k != 1 else (base / den)
                exact = Fraction((-1 if neg else 1) * k * v * mul, den)
                case.update(kind="div", expr=f"{'-' if neg else ''}{k} * Period({unit}={v}) / {den}", got=got.femtoseconds,
                            exact=(exact.numerator, exact.denominator), expected=round(exact),
                            frac=str(exact - (exact.numerator // exact.denominator)))
        except Exception as e:
            import traceback
            case["error"] = (errkind(e), traceback.format_exc()[-600:])
        out.append(case)
    return out


def judge_perioddiv(chk, case):
    if "error" in case:
        chk.violation(f"Period division stream: raises {case['error'][0]}", dict(case, stream="perioddiv", classes=[]))
        return
    chk.count(1)
    if case["kind"] == "phase":
        chk.hist("perioddiv: default phase of a clock with an odd period", "period = 3 mod 4 (half rounds up)"
                 if case["period_fs"] % 4 == 3 else "period = 1 mod 4 (half rounds down)" if case["period_fs"] % 2 else "even period")
        if case["toggles"] != case["expected"]:
            chk.violation(f"a clock of {case['period_fs']} fs added without a phase toggles at {case['toggles']}; period / 2 rounded to the "
                          f"nearest femtosecond gives {case['expected']}", dict(case, stream="perioddiv", classes=[]))
            return
        chk.distinct(("perioddiv-phase", case["period_fs"]), case["period_fs"] % 2 == 1)
        return
    fr = Fraction(case["frac"])
    chk.hist("perioddiv: fractional part of the exact quotient",
             "0" if fr == 0 else "(0, 1/2)" if fr < Fraction(1, 2) else "1/2" if fr == Fraction(1, 2) else "(1/2, 1)")
    if case["got"] != case["expected"]:
        chk.violation(f"{case['expr']} = {case['got']} fs; the exact quotient {Fraction(*case['exact'])} rounds to {case['expected']} fs",
                      dict(case, stream="perioddiv", classes=[]))
        return
    chk.distinct(("perioddiv", case["expr"]), fr != 0)


# ------------------------------------------------------------------------------------------------
# judging

def judge_scenario(chk, case, pair):
    base = {"job_seed": case["seed"], "index": case["index"], "variant": case.get("variant"), "scenario": case.get("desc"),
            "per_job": case.get("per_job")}
    if "gen_error" in case:
        chk.hist("generator_errors", 1)
        return
    if "harness_error" in case:
        chk.not_shown("the harness could not run a scenario", dict(base, error=case["harness_error"]))
        return
    runs = case["runs"]
    chk.count(len(runs))
    ref_order, ref = runs[0]
    for order, tr in runs[1:]:
        if tr != ref and order[0] == "rerun":
            chk.violation("the second run of one Simulator after reset() gives other testbench observations than its first run",
                          dict(base, kind="rerun", order_a=ref_order, order_b=order, trace_a=ref[:3000], trace_b=tr[:3000],
                               request=case["req"][:8000], classes=[]))
            return
        if tr != ref:
            chk.violation(f"the observation trace depends on the iteration order of the ready processes: order {order} differs from {ref_order}",
                          dict(base, kind="schedule", order_a=ref_order, order_b=order, trace_a=ref[:3000], trace_b=tr[:3000],
                               request=case["req"][:8000], classes=[]))
            return
    resp0 = common.kv(case.get("resp", "")) if case.get("resp", "").startswith("c08 ") else {}
    if ref.startswith(("raise", "hang")):
        chk.hist("impl_status", ref.split(" ")[0])
        if ref.startswith("hang"):
            chk.violation("a simulation of a loop-free design does not terminate", dict(base, kind="hang", request=case["req"][:8000], classes=[]))
        elif ref.startswith("raise:other:BrokenTrigger") and resp0.get("model", "").startswith(ref.split(" ", 1)[1] if " " in ref else ""):
            # every observation up to the exception agrees with the model; the one-shot wait that the model completes raises
            chk.violation("a one-shot await on a trigger with several waking elements raises BrokenTrigger",
                          dict(base, kind="broken-trigger", impl=ref[:3000], model=resp0.get("model", "")[:3000],
                               request=case["req"][:8000], classes=[F_BROKEN]))
        else:
            chk.violation(f"simulating a legal scenario raises {ref.split(' ')[0]}", dict(base, kind="raises", trace=ref[:2000], request=case["req"][:8000], classes=[]))
        return
    if case.get("nomodel"):
        # memories: order-independence on the implementation only
        ntr = ref.count(";") + 1 if ref.split("|")[0] else 0
        chk.hist("memory_scenarios", "ok")
        chk.distinct(case["req"], ntr >= 3)
        return
    resp = case.get("resp", "")
    if not resp.startswith("c08 "):
        chk.not_shown("driver could not evaluate a scenario", dict(base, response=resp[:300], request=case["req"][:8000]))
        return
    d = common.kv(resp)
    model, rev, spec = d.get("model", ""), d.get("rev", ""), d.get("spec", "")
    chk.hist("spec_covers", spec != "na")
    if spec != "na" and ref != spec:
        chk.violation("testbench observations differ from what the property prescribes (Spec)",
                      dict(base, kind="spec", impl=ref[:3000], spec=spec[:3000], model=model[:3000], request=case["req"][:8000], classes=[]))
        return
    if ref != model:
        if spec == "na":
            chk.violation("testbench observations differ from the delta-cycle model (script outside the Spec's domain)",
                          dict(base, kind="model", impl=ref[:3000], model=model[:3000], request=case["req"][:8000], classes=[]))
        else:
            chk.not_shown("impl = spec, the delta-cycle model differs", dict(base, impl=ref[:3000], model=model[:3000], request=case["req"][:8000]))
        return
    if model != rev:
        chk.not_shown("the model gives different traces under two schedules (DisjointWrites does not hold for this scenario)",
                      dict(base, model=model[:3000], rev=rev[:3000], request=case["req"][:8000]))
        return
    # process replaces circuit
    key = (case["seed"], case["index"])
    if case.get("variant"):
        other = pair.get(key)
        if other is None:
            pair[key] = (case["variant"], ref)
        elif other[1] != ref:
            chk.violation("replacing circuits by the documented process forms changes the testbench observations",
                          dict(base, kind="replace", circuit=other[1][:3000], process=ref[:3000], request=case["req"][:8000], classes=[]))
            return
    ntr = ref.count(";") + 1 if ref.split("|")[0] else 0
    chk.hist("observations_per_trace", f"{min(ntr // 10 * 10, 100):03d}+")
    nontrivial = ntr >= 3
    chk.distinct(case["req"], nontrivial)
    if nontrivial:
        chk.sample({"scenario": case["desc"], "trace": ref[:400]}, limit=4)


def exact_round(fr):
    """round half to even of a Fraction (what `round()` of an exactly computed value would give)"""
    return round(fr)


def judge_time(chk, case):
    if "error" in case:
        chk.violation(f"time stream: simulation raises {case['error'][0]}", dict(case, classes=[]))
        return
    if "toggles" not in case:
        return
    chk.count(1)
    chk.hist("period_unit", case["how"])
    if case.get("complete") is False:
        chk.violation(f"with an added clock of {case['period_fs']} fs the testbenches waiting for {case['ntog']} toggles, "
                      f"{len(case['wakes'])} delays and 3 ticks have not finished after {case['ntog'] + 8} periods",
                      dict(case, kind="stuck", classes=[]))
        return
    pe = Fraction(*case["period_exact"])
    if case["period_fs"] != exact_round(pe):
        # only a violation when the exact value is not a tie broken differently by float arithmetic
        chk.violation(f"Period({case['how']}) = {case['period_fs']} fs, the exact value {pe} rounds to {exact_round(pe)}",
                      dict(case, kind="period", classes=[]))
        return
    d = common.kv(case["resp"])
    spec = [int(x) for x in d["spec"].split(",")] if d["spec"] else []
    model = [int(x) for x in d["model"].split(",")] if d["model"] else []
    T = case["until"]
    exp = spec if T is None else [t for t in spec if t < T]
    mod = model if T is None else [t for t in model if t < T]
    if case["toggles"] != exp:
        chk.violation(f"clock toggles at {case['toggles'][:6]}, the property gives {exp[:6]} (period {case['period_fs']} fs, phase {case['phase_fs']})",
                      dict(case, kind="clock", classes=[]))
        return
    if case["toggles"] != mod:
        chk.not_shown("clock instants: impl = spec, model differs", dict(case))
        return
    for t0, dl, t1 in case["wakes"]:
        if t1 != t0 + dl:
            chk.violation(f"a delay of {dl} fs awaited at {t0} resumed at {t1}", dict(case, kind="delay", classes=[]))
            return
    # ticks: active edges are every second toggle
    first = 0 if case["posedge"] else 1
    exp_ticks = [t for k, t in enumerate(spec) if k % 2 == first]
    got = case["ticks"]
    if T is None and len(spec) >= 2 * 3 + 1 and got != exp_ticks[:3]:
        chk.violation(f"ticks at {got}, active edges at {exp_ticks[:3]}", dict(case, kind="tick", classes=[]))
        return
    chk.distinct(("time", case["period_fs"], case["phase_fs"], T), True)


def collision_probe():
    """outside DisjointWrites: write ports of two domains hit one row at a coincident edge. The real engine
    lets the last writer win, so the row depends on the order: recorded as the witness of the hypothesis."""
    from amaranth.hdl import Module, ClockDomain, Period
    from amaranth.lib.memory import Memory
    from amaranth.sim import Simulator
    res = {}
    for mode in ("sorted", "reverse"):
        m = Module()
        m.domains.a = ClockDomain()
        m.domains.b = ClockDomain()
        m.submodules.mem = mem = Memory(shape=8, depth=2, init=[0, 0])
        wa, wb = mem.write_port(domain="a"), mem.write_port(domain="b")
        sim = Simulator(m)
        sim.add_clock(Period(ns=10), domain="a")
        sim.add_clock(Period(ns=10), domain="b")
        out = []

        async def tb(ctx):
            ctx.set(wa.data, 0xAA)
            ctx.set(wa.en, 1)
            ctx.set(wb.data, 0x55)
            ctx.set(wb.en, 1)
            await ctx.tick("a")
            out.append(int(ctx.get(mem.data[0])))
        sim.add_testbench(tb)
        install_order(sim, [], mode, 0)
        sim.run()
        res[mode] = out
    return res


def run(chk):
    chk.lean()
    quick = chk.tier == "quick"
    rng = chk.rng
    n_perm = 8 if quick else 64
    n_jobs = 96 if quick else 500
    per_job = 12 if quick else 18
    workers = min(16, os.cpu_count() or 4)
    args = [(rng.getrandbits(48), per_job, n_perm, EXE) for _ in range(n_jobs)]
    targs = [(rng.getrandbits(48), 40 if quick else 150, EXE) for _ in range(16 if quick else 64)]
    # drawn after the seeds of the older streams, which therefore see the same scenarios as before
    wargs = [(rng.getrandbits(48), 10, n_perm) for _ in range(32 if quick else 240)]
    pargs = [(rng.getrandbits(48), 10, 4 if quick else 16) for _ in range(32 if quick else 240)]
    qargs = [(rng.getrandbits(48), 60 if quick else 250) for _ in range(16 if quick else 64)]
    pair = {}
    with ProcessPoolExecutor(max_workers=workers) as ex:
        for job in ex.map(scenario_job, args, chunksize=1):
            for k, v in job["hist"].items():
                chk.hist("constructs", k, v)
            for c in job["cases"]:
                judge_scenario(chk, c, pair)
        for out in ex.map(time_job, targs, chunksize=1):
            for c in out:
                judge_time(chk, c)
        for out in ex.map(memwrite_job, wargs, chunksize=1):
            for c in out:
                judge_memwrite(chk, c)
        for out in ex.map(periodic_job, pargs, chunksize=1):
            for c in out:
                judge_periodic(chk, c)
        for out in ex.map(perioddiv_job, qargs, chunksize=1):
            for c in out:
                judge_perioddiv(chk, c)
    try:
        chk.extra["hypothesis_witness"] = {
            "what": "memory row written by write ports of two domains at a coincident edge (DisjointWrites does not hold): "
                    "the value depends on the process order; this is the stated hypothesis of delta_perm, not a finding",
            "row_by_order": collision_probe()}
    except Exception as e:
        chk.extra["hypothesis_witness"] = {"error": errkind(e)}
    chk.cov["rule"] = (
        "A: designs of the C03 generator (1-3 domains, module trees, wrappers) + 0-3 user processes in the two documented forms "
        "(driving fresh signals or design inputs) + added clocks with periods 2..25 fs or k*1000/k*10^6 (+odd) fs and arbitrary/default phases "
        "+ 1-3 testbenches with scripts of 2-30 ops (set incl. hand-driven clocks, coincident Cat(clk, clk/input), slices; setfrom; get; "
        "tick.sample; delay; edge; changed, each with .sample). B: 1-3 units out=f(ins) / out<=f(ins) in 1-2 domains, once as circuits and "
        "once with a random subset replaced by processes. D: directed testbench-order and tick-sampling scripts on a counter. "
        f"Every scenario runs under native, canonical, reverse and {n_perm} shuffled iteration orders of _processes/pending/_active_triggers "
        "(re-drawn at every iteration); traces = every value read, elapsed_time() in fs at every wake-up, final value of every signal. "
        "M (implementation only): a memory with 1-2 write ports in one domain, read ports in another domain, in the same domain "
        "(transparent or not) and combinational, clocks that mostly coincide; rows are observed and part of the final state. "
        "W (implementation only): a memory (depth 2-8, width 1-8, signed or not) with 1-3 write ports of one domain (granularity "
        "none/1/2/4) or an added process that sets 1-3 rows per wake-up, 1-2 asynchronous read ports, optionally a counter and/or a "
        "synchronous read port in the written domain; 3-9 steps (set port inputs / read addresses, then a clock edge by add_clock+tick, "
        "by the testbench toggling the clock, or a toggle waking the writer process); after every set and every edge the read port "
        "data and all rows are compared with the array semantics computed by the harness; distinct = scenario, non-trivial = some "
        "delta queues two or more rows. "
        "T: Period(fs/ps/ns/us/Hz/kHz/MHz/GHz/arithmetic) vs exact rationals, toggle instants via edge/changed, delay chains, run_until deadlines. "
        "P (implementation vs an event-level specification evaluated by the harness): 1-3 testbenches / added processes each running "
        "`async for` over delay(T), delay(T).sample(ctr), edge(clk, pol).delay(T) or changed(clk).delay(T) for 2-6 iterations, next to an "
        "added clock (period 2..30 fs or scaled, explicit phase >= 1 or default) with a counter; every loop body takes no time, less "
        "than T, exactly T, more than T (chains of `await ctx.delay`) or runs until the next `await ctx.tick()`, and may set a signal / "
        "get the counter; logged: elapsed_time() and the trigger's result at every wake-up, the time after every await of the body, "
        "BrokenTrigger and when it is raised; expected: wake-ups at start + k*T (delay restarts when the combination fires, never "
        "postponed by the body), BrokenTrigger at the end of a body during which the combination fired again; distinct = scenario, "
        "non-trivial = some wake-up follows a body that took simulated time, or a loop ends with BrokenTrigger; all orders must agree. "
        "Q: k * Period(unit=v) / n (n in 2..1000, negative periods too) against the exactly rounded rational, and the first three "
        "toggles of clocks with odd femtosecond periods (7 MHz, ...) added without a phase. "
        "distinct = distinct request text; non-trivial = at least 3 observations")
    chk.assumptions += [
        "memories are not part of the C08 model (C11 models the write queue); their order-independence is explored on the implementation only (stream M)",
        "stream W compares the implementation with the array semantics evaluated by the harness in Python (rows after all writes of a delta, later port wins per bit), not with a Lean model",
        "write ports of different domains that hit one row at a coincident edge are outside DisjointWrites (last writer wins in the real engine): see coverage.hypothesis_witness",
        "periods below 2 fs (half period 0: simulated time never advances) and above 10^13 fs (Period / 2 goes through a float above 2^53 fs) are not generated",
        "the iteration order of the local set `nearest_wakers` inside _PyTimeline.advance cannot be replaced from outside; it is left native",
        "a compiled synchronous process starts from slots[i].next; the model starts from curr (equal at the start of every delta)",
        "DisjointWrites is a hypothesis for user processes (two processes never drive one signal in generated scenarios)",
        "Python's coroutine machinery, BrokenTrigger and VCD writing are not modelled",
        "stream P compares the implementation with an event-level specification evaluated by the harness in Python (not with the Lean "
        "engine model, which has no multi-shot waits in testbench scripts); instants it leaves open are not generated: an added process "
        "that starts waiting for an edge / tick in the delta cycle in which that edge is committed, and the delay and the edge of one "
        "combination falling on the same instant (coverage.distribution counts the scenarios drawn again); phases and delays are >= 1 fs there",
    ]


def replay(chk, path):
    """re-run the scenario of a replay file: ./check C08 --replay replays/C08-quick-1-0.json"""
    import json
    chk.lean()
    rep = json.load(open(path))["replay"]
    if rep.get("stream") == "memwrite":
        scn = rep["scenario"]
        exp, stats = memwrite_expected(scn)
        exp = [list(x) for x in exp]
        orders = [tuple(rep[k]) for k in ("order_a", "order_b") if k in rep] or [("sorted", 0), ("reverse", 0)]
        bad = False
        for o in orders:
            status, tr = run_memwrite(scn, o[0], o[1])
            tr = [list(x) for x in tr]
            k = next((i for i, (x, y) in enumerate(zip(tr, exp)) if x != y), None if len(tr) == len(exp) else min(len(tr), len(exp)))
            print("impl", o, status, "= array semantics" if k is None and status == "ok" else f"differs at observation {k}: "
                  f"{tr[k] if k is not None and k < len(tr) else None} expected {exp[k] if k is not None and k < len(exp) else None}")
            bad = bad or status != "ok" or k is not None
        print("replay:", "still failing" if bad else "passes now")
        return common.EXIT_VIOLATION if bad else common.EXIT_OK
    if rep.get("stream") == "periodic":
        scn = rep["scenario"]
        exp, ctr_end = periodic_expected(scn)
        orders = [tuple(rep[k]) for k in ("order_a", "order_b") if k in rep] or [("sorted", 0), ("reverse", 0)]
        bad = False
        for o in orders:
            status, logs, finals, ctr = run_periodic(scn, o[0], o[1])
            same = status == "ok" and logs == [e[0] for e in exp] and ctr == ctr_end
            print("impl", o, status, "= event-level specification" if same else "differs:")
            if not same:
                for i, (g, e) in enumerate(zip(logs, exp)):
                    print("  agent", i, "impl    ", g)
                    print("  agent", i, "expected", e[0])
            bad = bad or not same
        print("replay:", "still failing" if bad else "passes now")
        return common.EXIT_VIOLATION if bad else common.EXIT_OK
    if rep.get("stream") == "perioddiv":
        print("replay: the case carries its data in the file:", {k: rep.get(k) for k in ("expr", "got", "expected", "period_fs", "toggles")})
        return common.EXIT_OK
    if "job_seed" not in rep or rep.get("index") is None:
        print("replay: not a scenario replay (time-stream cases carry their data in the file)")
        return common.EXIT_OK
    rng = random.Random(rep["job_seed"])
    scns = gen_job_scenarios(rng, {}, rep.get("per_job") or (rep["index"] + 1))
    hit = [scn for k, v, scn in scns if k == rep["index"] and v == rep.get("variant")]
    if not hit:
        print("replay: scenario not regenerated")
        return common.EXIT_INFRA
    scn = hit[0]
    orders = [tuple(rep[k]) for k in ("order_a", "order_b") if k in rep] or [("sorted", 0), ("reverse", 0)]
    runs = [(o, show_run(run_impl(scn, o[0], o[1]))) for o in orders]
    for o, tr in runs:
        print("impl", o, tr[:1500])
    bad = any(tr != runs[0][1] for _o, tr in runs)
    if not getattr(scn, "nomodel", False):
        d = common.kv(chk.driver.ask([ser_scenario(scn)])[0])
        print("model", d.get("model", "")[:1500])
        print("spec ", d.get("spec", "")[:1500])
        bad = bad or d.get("model") != runs[0][1] or (d.get("spec") != "na" and d.get("spec") != runs[0][1])
    print("replay:", "still failing" if bad else "passes now")
    return common.EXIT_VIOLATION if bad else common.EXIT_OK
