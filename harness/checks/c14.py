"""C14 - interface signatures, flipping and connect() preserve direction and data flow.

Correspondence between /repo/amaranth/lib/wiring.py and lean/AmaranthVerif/Model/Wiring.lean
(driver amodel_c14), at the property's observables:

* `Signature.flatten(obj)` of a created object (paths, effective direction, cast shape, initial value),
  for the signature and for its flip                                  -> model `flatten`, spec `leafAt`/`flipLeaves`
* `Signature.create()` (structure of the created object, proxies included) and `is_compliant`
  of created and of single-point-corrupted objects                      -> model `create`, `isCompliant`
* objects made another way than `S.create()`: `PureInterface(S)`, a `Component` whose signature is S, and
  `flipped()` of those built on `S.flip()` (S flipped or not): leaves, what every sub-interface says about its
  own leaves through its own signature, compliance, structure           -> the same leaves (model/spec of S),
                                                                           model `isCompliant` on the harness mirror
* `connect(m, ...)`: accepted / error kind, the assignments added to the module, and a simulation
  in which every output leaf is set and every leaf read back           -> model `connect`, spec `Accepts`/`conns`
* `Component.metadata.as_json()` port records + schema validation       -> model `metadata`
* Component classes whose members are variable annotations, with inheritance (base, sibling subclasses, a second
  level, a class without annotations in between, a subclass redefining a member), instantiated in varied orders:
  every instance has the union of the annotations along the MRO of its own class                -> leaves / metadata
                                                                           (model/spec) of that union, connect + simulation
* a kept `flipped(intf)` proxy, used, then a sub-interface of the wrapped object replaced (attribute, array element,
  one level down, or through the proxy), then used again: flatten reaches the signals `intf` holds now (identity),
  connect wires them                                                    -> leaves (model/spec), model `connect`

Signature trees are abstract (plain dicts); the amaranth objects are *built* from them, and the
same tree is serialised for the driver.  Port shapes include shape-castables whose default constant
(no `init=`) is not 0: `data.Struct` / `data.Union` classes with field defaults and a user-defined
ShapeCastable; the expected initial value is computed here from field defaults and offsets.
Classes of known defects: F10 (array of sub-interfaces seen through a FlippedInterface), F13
(connect() below an array of sub-interfaces).
"""
import concurrent.futures
import os
import random

from .. import common

LEVEL = "proof"
EXE = "amodel_c14"

NAMES = ["a", "b", "a_", "aB", "B", "data", "valid", "x", "y", "A1", "ab", "z9"]


# ------------------------------------------------------------------------------------------------
# abstract shapes: spec -> (amaranth shape object, width, signed, init value as `_init_as_const.value`)

_ENUM_CACHE = {}
_AGG_CACHE = {}          # data.Struct / data.Union classes with field defaults (compared by identity)
_CAST_CACHE = {}
_CUSTOM = []


def _custom_castable():
    """a minimal user-defined ShapeCastable: plain shape, values are bare Values, and a default constant
    (`const(None)`) of its own"""
    if not _CUSTOM:
        from amaranth.hdl import Shape, ShapeCastable, Const, Value, Format

        class Custom(ShapeCastable):
            def __init__(self, w, sg, dv):
                self.w, self.sg, self.dv = w, sg, dv

            def as_shape(self):
                return Shape(self.w, self.sg)

            def __call__(self, target):
                return target

            def const(self, init):
                return Const(self.dv if init is None else init, self.as_shape())

            def from_bits(self, raw):
                return Const(raw, self.as_shape())

            def format(self, value, format_spec):
                return Format("{}", Value.cast(value))

            def __repr__(self):
                return f"Custom({self.w}, {self.sg}, {self.dv})"
        _CUSTOM.append(Custom)
    return _CUSTOM[0]


def _pick_init(rng, lo, hi, p_none=.35):
    """None, or a value in lo..hi with the ends of the range, -1 and 0 over-represented"""
    if rng.random() < p_none:
        return None
    edge = [v for v in (lo, hi, -1, 0, lo + 1, hi - 1) if lo <= v <= hi]
    return rng.choice(edge) if rng.random() < .5 else rng.randint(lo, hi)


def gen_shape(rng, signed_bias=False):
    """returns (spec, raw_init) ; raw_init is what is passed as init= (None allowed)"""
    kinds = ["u", "u", "u", "s", "int", "range", "struct", "arrl", "union", "enum", "enum_s",
             "structc", "structc", "unionc", "cast"]
    if signed_bias:
        kinds += ["s", "s", "enum_s", "enum_s", "range"]
    k = rng.choice(kinds)
    if k == "structc":
        # a data.Struct *class* whose fields have defaults: the constant of `init=None` is not 0
        fields = []
        for i in range(rng.randint(1, 3)):
            sg = rng.random() < .35
            w = rng.choice([1, 2, 3, 4]) if sg else rng.choice([0, 1, 2, 4, 4])
            lo, hi = (-(1 << (w - 1)), (1 << (w - 1)) - 1) if sg else (0, (1 << w) - 1)
            dv = None
            if w > 0 and rng.random() < .75:
                dv = rng.choice([v for v in (lo, hi, -1, 1, hi - 1, lo + 1) if lo <= v <= hi and v != 0] or [None]) \
                    if rng.random() < .6 else rng.randint(lo, hi)
            fields.append((f"f{i}", w, sg, dv))
        init = None
        if rng.random() < .4:
            init = {}
            for n, w, sg, _dv in fields:
                if rng.random() < .5 and w > 0:
                    init[n] = (_pick_init(rng, -(1 << (w - 1)), (1 << (w - 1)) - 1, 0) if sg
                               else _pick_init(rng, 0, (1 << w) - 1, 0))
            if not init:
                init = None
        return {"k": "structc", "fields": fields}, init
    if k == "unionc":
        # a data.Union class: at most one field may have a default
        fields = [[f"u{i}", rng.choice([1, 2, 4]), False, None] for i in range(rng.randint(1, 3))]
        if rng.random() < .8:
            f = rng.choice(fields)
            f[3] = rng.choice([1, (1 << f[1]) - 1, rng.randrange(1 << f[1])])
        fields = [tuple(f) for f in fields]
        init = None
        if rng.random() < .35:
            n, w, _sg, _dv = rng.choice(fields)
            init = {n: rng.randrange(1 << w)}
        return {"k": "unionc", "fields": fields}, init
    if k == "cast":
        # a custom ShapeCastable whose `const(None)` is its own default
        sg = rng.random() < .4
        w = rng.choice([1, 2, 3, 4, 8])
        lo, hi = (-(1 << (w - 1)), (1 << (w - 1)) - 1) if sg else (0, (1 << w) - 1)
        dv = rng.choice([lo, hi, -1 if sg else 1, rng.randint(lo, hi)])
        return {"k": "cast", "w": w, "sg": sg, "dv": dv}, _pick_init(rng, lo, hi, .6)
    if k == "u":
        w = rng.choice([0, 1, 1, 2, 3, 4, 8, 9])
        return {"k": "u", "w": w}, (None if w == 0 else _pick_init(rng, 0, (1 << w) - 1, .5))
    if k == "s":
        w = rng.choice([1, 2, 3, 4, 8])
        return {"k": "s", "w": w}, _pick_init(rng, -(1 << (w - 1)), (1 << (w - 1)) - 1)
    if k == "int":
        w = rng.choice([1, 2, 5])
        return {"k": "int", "w": w}, (None if rng.random() < .5 else rng.randrange(1 << w))
    if k == "range":
        lo = rng.choice([0, 0, -3, -4, -1, 2]); hi = lo + rng.choice([1, 2, 5, 7, 9])
        return {"k": "range", "lo": lo, "hi": hi}, _pick_init(rng, lo, hi - 1, .4)
    if k == "struct":
        fields = []
        for i in range(rng.randint(1, 3)):
            sg = rng.random() < .3
            fields.append((f"f{i}", rng.choice([1, 2, 3]) if sg else rng.choice([0, 1, 2, 4]), sg))
        init = None
        if rng.random() < .6:
            init = {}
            for n, w, sg in fields:
                if rng.random() < .7 and w > 0:
                    init[n] = (_pick_init(rng, -(1 << (w - 1)), (1 << (w - 1)) - 1, 0) if sg
                               else _pick_init(rng, 0, (1 << w) - 1, 0))
        return {"k": "struct", "fields": fields}, init
    if k == "arrl":
        w = rng.choice([1, 2, 3]); n = rng.choice([0, 1, 2, 3])
        init = None if rng.random() < .5 else [rng.randrange(1 << w) for _ in range(n)]
        return {"k": "arrl", "w": w, "n": n}, init
    if k == "union":
        fields = [(f"u{i}", rng.choice([1, 2, 4]), False) for i in range(rng.randint(1, 3))]
        init = None
        if rng.random() < .5:
            n, w, _ = rng.choice(fields)
            init = {n: rng.randrange(1 << w)}
        return {"k": "union", "fields": fields}, init
    if k == "enum":
        w = rng.choice([1, 2, 3])
        vals = sorted({0} | {rng.randrange(1 << w) for _ in range(rng.randint(1, 3))})
        return {"k": "enum", "w": w, "sg": False, "vals": vals}, (None if rng.random() < .4 else rng.choice(vals))
    w = rng.choice([1, 2, 3, 4])
    lo, hi = -(1 << (w - 1)), (1 << (w - 1)) - 1
    vals = {0} | {rng.randint(lo, hi) for _ in range(rng.randint(1, 3))}
    if rng.random() < .6:
        vals |= {lo}                    # the most negative value of the shape
    if rng.random() < .4:
        vals |= {hi, -1}
    vals = sorted(vals)
    return {"k": "enum", "w": w, "sg": True, "vals": vals}, (None if rng.random() < .3 else
                                                             rng.choice([vals[0], vals[-1], rng.choice(vals)]))


def shape_obj(spec):
    from amaranth.hdl import Shape, unsigned, signed
    from amaranth.lib import data, enum as aenum
    k = spec["k"]
    if k == "u":
        return unsigned(spec["w"])
    if k == "s":
        return signed(spec["w"])
    if k == "int":
        return spec["w"]
    if k == "range":
        return range(spec["lo"], spec["hi"])
    if k == "struct":
        return data.StructLayout({n: (signed(w) if sg else unsigned(w)) for n, w, sg in spec["fields"]})
    if k == "union":
        return data.UnionLayout({n: unsigned(w) for n, w, sg in spec["fields"]})
    if k == "arrl":
        return data.ArrayLayout(unsigned(spec["w"]), spec["n"])
    if k in ("structc", "unionc"):
        key = (k, tuple(tuple(f) for f in spec["fields"]))
        if key not in _AGG_CACHE:
            name = f"{'St' if k == 'structc' else 'Un'}{len(_AGG_CACHE)}"
            body = "\n".join(f"    {n}: {'signed' if sg else 'unsigned'}({w})" + ("" if dv is None else f" = {dv}")
                             for n, w, sg, dv in spec["fields"])
            ns = {}
            exec(f"class {name}(data.{'Struct' if k == 'structc' else 'Union'}):\n{body}",
                 {"data": data, "signed": signed, "unsigned": unsigned}, ns)
            _AGG_CACHE[key] = ns[name]
        return _AGG_CACHE[key]
    if k == "cast":
        key = (spec["w"], spec["sg"], spec["dv"])
        if key not in _CAST_CACHE:
            _CAST_CACHE[key] = _custom_castable()(*key)
        return _CAST_CACHE[key]
    if k == "enum":
        key = (spec["w"], spec["sg"], tuple(spec["vals"]))
        if key not in _ENUM_CACHE:
            name = f"E{len(_ENUM_CACHE)}"
            body = "\n".join(f"    M{i} = {v}" for i, v in enumerate(spec["vals"]))
            ns = {}
            exec(f"class {name}(aenum.Enum, shape=shp):\n{body}",
                 {"aenum": aenum, "shp": (signed(spec["w"]) if spec["sg"] else unsigned(spec["w"]))}, ns)
            _ENUM_CACHE[key] = ns[name]
        return _ENUM_CACHE[key]
    raise AssertionError(k)


def init_obj(spec, raw):
    if raw is None:
        return None
    if spec["k"] == "enum":
        return shape_obj(spec)(raw)
    return raw


def _range_shape(lo, hi):
    # minimal shape containing lo..hi-1 (C10's subject; recomputed here independently)
    def bits_u(n): return max(n.bit_length(), 0)
    hi1 = hi - 1
    if lo >= 0:
        return max(bits_u(hi1), 0) if hi1 > 0 else (0 if hi1 == 0 else 0), False
    w = max((-lo - 1).bit_length() + 1 if lo < 0 else 0, hi1.bit_length() + 1 if hi1 >= 0 else (-hi1 - 1).bit_length() + 1)
    return w, True


def shape_info(spec, raw):
    """(width, signed, value of the initial value as a constant of that shape) - independent of wiring.py"""
    k = spec["k"]
    if k in ("u", "int"):
        return spec["w"], False, (raw or 0)
    if k == "s":
        return spec["w"], True, (raw or 0)
    if k == "range":
        w, sg = _range_shape(spec["lo"], spec["hi"])
        return w, sg, (raw or 0)
    if k == "struct":
        off = 0; v = 0
        for n, w, sg in spec["fields"]:
            fv = (raw or {}).get(n, 0)
            v |= (fv & ((1 << w) - 1)) << off
            off += w
        return off, False, v
    if k == "union":
        w = max(w for _, w, _ in spec["fields"])
        v = 0
        for n, fw, _ in spec["fields"]:
            if raw and n in raw:
                v = raw[n] & ((1 << fw) - 1)
        return w, False, v
    if k == "arrl":
        v = 0
        for i, x in enumerate(raw or []):
            v |= (x & ((1 << spec["w"]) - 1)) << (i * spec["w"])
        return spec["w"] * spec["n"], False, v
    if k == "enum":
        return spec["w"], spec["sg"], (raw or 0)
    if k == "structc":
        # fields are packed in declaration order from bit 0; a field not named by the initial value keeps
        # the default written in the class body (0 when it has none)
        off = 0; v = 0
        for n, w, sg, dv in spec["fields"]:
            fv = raw[n] if (raw is not None and n in raw) else (dv if dv is not None else 0)
            v |= (fv & ((1 << w) - 1)) << off
            off += w
        return off, False, v
    if k == "unionc":
        # all fields at bit 0; an initial value names one field, otherwise the (single) default applies
        v = 0
        for n, fw, _sg, dv in spec["fields"]:
            if raw:
                if n in raw:
                    v = raw[n] & ((1 << fw) - 1)
            elif dv is not None:
                v = dv & ((1 << fw) - 1)
        return max(fw for _n, fw, _sg, _dv in spec["fields"]), False, v
    if k == "cast":
        return spec["w"], spec["sg"], (spec["dv"] if raw is None else raw)
    raise AssertionError(k)


# ------------------------------------------------------------------------------------------------
# abstract signature trees

def eff(flow, fl):
    return ({"o": "i", "i": "o"}[flow]) if fl else flow


def sub_flag(fl, f, df):
    return df != (eff(f, fl) == "i")


def gen_dims(rng, allow_zero=True):
    n = rng.choice([0, 0, 0, 1, 1, 2])
    return [rng.choice(([0] if allow_zero else []) + [1, 2, 2, 3]) for _ in range(n)]


def gen_sig(rng, depth, fl=False, all_out=False, iface_arrays=True, budget=None, signed_bias=False):
    """list of (name, member). `fl`: how this level is seen (for all_out)."""
    if budget is None:
        budget = [24]
    members = []
    names = rng.sample(NAMES, rng.choice([0, 1, 1, 2, 2, 3, 4]) if depth < 4 else rng.choice([1, 2]))
    for name in names:
        if budget[0] <= 0:
            break
        flow = rng.choice("oi")
        if depth > 1 and rng.random() < .4:
            df = rng.random() < .3
            dims = gen_dims(rng) if iface_arrays else []
            sub = gen_sig(rng, depth - 1, sub_flag(fl, flow, df), all_out, iface_arrays, budget, signed_bias)
            members.append((name, {"t": "iface", "f": flow, "df": df, "sig": sub, "dims": dims}))
        else:
            spec, raw = gen_shape(rng, signed_bias)
            if all_out:
                flow = eff("o", fl)          # so that the leaf is seen as an output
            dims = gen_dims(rng)
            n = 1
            for d in dims:
                n *= d
            budget[0] -= max(n, 1)
            members.append((name, {"t": "port", "f": flow, "shape": spec, "init": raw, "dims": dims}))
    return members


def has_iface_array(sig):
    for _n, m in sig:
        if m["t"] == "iface":
            if m["dims"] or has_iface_array(m["sig"]):
                return True
    return False


def f10_shaped(sig, wrapped):
    """an array of sub-interfaces is reached through a FlippedInterface proxy"""
    for _n, m in sig:
        if m["t"] == "iface":
            if wrapped and m["dims"]:
                return True
            if 0 not in m["dims"] and f10_shaped(m["sig"], sub_flag(wrapped, m["f"], m["df"])):
                return True
    return False


def depth_of(sig):
    return 1 + max([depth_of(m["sig"]) for _n, m in sig if m["t"] == "iface"] + [0])


def ser_dims(d):
    return "(" + " ".join(map(str, d)) + ")"


def ser_sig(sig):
    out = []
    for n, m in sig:
        if m["t"] == "port":
            w, sg, iv = shape_info(m["shape"], m["init"])
            out.append(f"({n} (port {m['f']} {w} {'s' if sg else 'u'} {iv} {ser_dims(m['dims'])}))")
        else:
            out.append(f"({n} (iface {m['f']} {int(m['df'])} {ser_sig(m['sig'])} {ser_dims(m['dims'])}))")
    return "(sig" + "".join(" " + x for x in out) + ")"


def ser_sv(fl, sig):
    return f"(sv {int(fl)} {ser_sig(sig)})"


def build_sig(sig, fl=False, reuse=None):
    """the amaranth signature for the abstract tree; with `reuse` (a `Reuse`) the members are not written
    afresh but taken from a pool of Member objects shared with everything built with the same `reuse`"""
    from amaranth.lib import wiring
    members = {}
    for n, m in sig:
        if reuse is not None:
            members[n] = reuse.member(m)
            continue
        flow = wiring.Out if m["f"] == "o" else wiring.In
        if m["t"] == "port":
            mem = flow(shape_obj(m["shape"]), init=init_obj(m["shape"], m["init"]))
        else:
            mem = flow(build_sig(m["sig"], m["df"]))
        if m["dims"]:
            mem = mem.array(*m["dims"])
        members[n] = mem
    s = wiring.Signature(members)
    return s.flip() if fl else s


class Reuse:
    """Member objects are immutable descriptions and may be used any number of times.  A `Reuse` keeps one scalar
    Member object per distinct abstract (flow, description) and hands out *that object* (or `.array(...)` taken
    from it) wherever the abstract tree has such a member - in several places of one signature, in nested
    signatures and in the signatures built later with the same `Reuse`.  Before `.array()` is taken the scalar
    object has (most of the time) already been used: flipped, seen through a flipped signature, flattened,
    connected, or used as a Component annotation.  What comes out must not depend on any of this: the expected
    results are those of the abstract tree.  Everything is drawn from `random.Random(seed)`."""
    PREUSE = ("flip", "flipped-members", "flipped-flatten", "connect", "component")

    def __init__(self, seed):
        self.seed = seed
        self.rng = random.Random(seed)
        self.pool = {}
        self.notes = {}
        self.errors = []

    def note(self, what):
        self.notes[what] = self.notes.get(what, 0) + 1

    def take_notes(self):
        n, self.notes = self.notes, {}
        return n

    def key(self, m):
        if m["t"] == "port":
            return ("port", m["f"], repr(sorted(m["shape"].items())), repr(m["init"]))
        return ("iface", m["f"], m["df"], ser_sig(m["sig"]))

    def scalar(self, m):
        from amaranth.lib import wiring
        k = self.key(m)
        if k in self.pool:
            self.note("scalar:pooled")
            return self.pool[k]
        flow, other = (wiring.Out, wiring.In) if m["f"] == "o" else (wiring.In, wiring.Out)
        if m["t"] == "port":
            desc, kw = shape_obj(m["shape"]), {"init": init_obj(m["shape"], m["init"])}
        else:
            desc, kw = build_sig(m["sig"], m["df"], reuse=self), {}
        if self.rng.random() < .3:
            mem = other(desc, **kw).flip()          # the member with the wanted flow, obtained by flipping
            self.note("scalar:new-by-flip")
        else:
            mem = flow(desc, **kw)
            self.note("scalar:new")
        self.pool[k] = mem
        return mem

    def preuse(self, mem):
        """use a Member object the way a design would, before it is used (again) elsewhere"""
        from amaranth.hdl import Module
        from amaranth.lib import wiring
        how = self.rng.choice(self.PREUSE)
        self.note("preuse:" + how)
        try:
            if how == "flip":
                mem.flip()
                return
            if how == "component":
                cls = type("Src", (wiring.Component,), {"__annotations__": {"p": mem, "q": wiring.Out(1)}})
                a = cls()
                b = a.signature.flip().create(path=("peer",))
                wiring.connect(Module(), a, b)
                return
            s0 = wiring.Signature({"p": mem, "q": wiring.Out(1)})
            f0 = s0.flip()
            if how == "flipped-members":
                f0.members["p"]
            elif how == "flipped-flatten":
                list(f0.flatten(f0.create()))
            else:
                wiring.connect(Module(), s0.create(path=("a",)), f0.create(path=("b",)))
        except Exception as e:
            self.errors.append(f"{how}:{errname(e)}:{str(e)[:100]}")

    def member(self, m):
        base = self.scalar(m)
        dims = m["dims"]
        if not dims:
            self.note("use:scalar")
            return base
        if self.rng.random() < .8:
            self.preuse(base)
        if len(dims) >= 2 and self.rng.random() < .5:
            inner = base.array(*dims[1:])
            if self.rng.random() < .5:
                self.preuse(inner)
            self.note("use:array-chained")
            return inner.array(dims[0])
        self.note("use:array")
        return base.array(*dims)


# ------------------------------------------------------------------------------------------------
# abstract objects (mirror of Model Obj); python mirror of create, used to build corrupted objects

def mk_arr(dims, leaf_fn):
    if not dims:
        return leaf_fn()
    return {"t": "arr", "items": [mk_arr(dims[1:], leaf_fn) for _ in range(dims[0])]}


def create_attrs(sig, fl=False):
    """attributes made by `members.create()` of a signature seen with `fl` (only the top level of an
    object built *directly* on a flipped signature is seen flipped; what is below is made by `.create()`)"""
    attrs = []
    for n, m in sig:
        if m["t"] == "port":
            w, sg, iv = shape_info(m["shape"], m["init"])
            attrs.append((n, mk_arr(m["dims"], lambda m=m, w=w, sg=sg, iv=iv: {"t": "signal", "w": w, "s": sg, "init": iv,
                                                                          "shape": m["shape"]})))
        else:
            attrs.append((n, mk_arr(m["dims"], lambda m=m: {"t": "iface", "w": sub_flag(fl, m["f"], m["df"]),
                                                            "fl": False, "sig": m["sig"],
                                                            "attrs": create_attrs(m["sig"])})))
    return attrs


def create_obj(fl, sig):
    return {"t": "iface", "w": fl, "fl": False, "sig": sig, "attrs": create_attrs(sig)}


def direct_obj(fl, sig):
    """the object `PureInterface(S)` / `Component(S)` for S = (fl, sig): not wrapped, its `signature` is S itself,
    and the members are created from S's (flipped, if fl) member collection"""
    return {"t": "iface", "w": False, "fl": fl, "sig": sig, "attrs": create_attrs(sig, fl)}


# ways of making an interface object for a signature S other than `S.create()`
ROUTES = ("pure", "comp", "fpure", "fcomp")


def route_obj(S, route, path=None):
    from amaranth.lib import wiring
    kw = {} if path is None else {"path": path}

    def component(SS):
        class C(wiring.Component):
            def __init__(self):
                super().__init__(SS)
        return C()
    if route == "create":
        return S.create(**kw)
    if route == "pure":
        return wiring.PureInterface(S, **kw)
    if route == "comp":
        return component(S)
    if route == "fpure":
        return wiring.flipped(wiring.PureInterface(S.flip(), **kw))
    if route == "fcomp":
        return wiring.flipped(component(S.flip()))
    raise AssertionError(route)


def route_direct_flipped(route, vfl):
    """is the signature handed to the constructor (PureInterface / Component.__init__) a flipped one,
    when an object for a signature seen with `vfl` is made by `route`?"""
    return {"create": None, "pure": vfl, "comp": vfl, "fpure": not vfl, "fcomp": not vfl}[route]


def has_iface(sig):
    return any(m["t"] == "iface" for _n, m in sig)


def iface_prefixes(sig, pre=()):
    """paths of all sub-interface objects, pre-order (the harness's own reading of the tree)"""
    for n, m in sig:
        if m["t"] != "iface":
            continue

        def idx(dims):
            if not dims:
                yield ()
            else:
                for i in range(dims[0]):
                    for r in idx(dims[1:]):
                        yield (i,) + r
        for ix in idx(m["dims"]):
            yield pre + (n,) + ix
            yield from iface_prefixes(m["sig"], pre + (n,) + ix)


def expected_nested(sig, leaves):
    """what every sub-interface must report about its own leaves, given the leaves of the whole (driver's
    rendering `path=flow:w:s:init;...`): exactly the leaves of the whole that lie below it"""
    ls = [] if leaves == "-" else leaves.split(";")
    out = []
    for p in iface_prefixes(sig):
        pp = pstr(p) + "."
        out.append(pstr(p) + "|" + (";".join(x for x in ls if x.startswith(pp)) or "-"))
    return "&".join(out) or "-"


def nz_default_ports(sig):
    """number of port members without an explicit initial value whose shape's default constant is not 0"""
    n = 0
    for _n, m in sig:
        if m["t"] == "port":
            n += int(m["init"] is None and shape_info(m["shape"], None)[2] != 0)
        else:
            n += nz_default_ports(m["sig"])
    return n


def port_members(sig):
    for _n, m in sig:
        if m["t"] == "port":
            yield m
        else:
            yield from port_members(m["sig"])


def ser_obj(o):
    t = o["t"]
    if t == "signal":
        return f"(signal {o['w']} {'s' if o['s'] else 'u'} {o['init']})"
    if t == "const":
        return f"(const {o['w']} {'s' if o['s'] else 'u'} {o['v']})"
    if t == "arr":
        return "(arr" + "".join(" " + ser_obj(x) for x in o["items"]) + ")"
    if t == "junk":
        return "(junk)"
    return (f"(iface {int(o['w'])} {int(o['fl'])} {ser_sig(o['sig'])} (" +
            " ".join(f"({n} {ser_obj(v)})" for n, v in o["attrs"]) + "))")


class Plain:
    pass


# shapes for which `Signature.create()` puts a view (not a bare Signal) into the interface
VIEW_KINDS = ("struct", "union", "arrl", "enum", "structc", "unionc")


def view_signal(spec, w, sg, init):
    """a signal of width/signedness (w, sg) with constant initial value `init`; when `spec` is an
    aggregate or enumeration of exactly that shape the signal is wrapped in its view (what
    `Signature.create()` puts into an interface for such a port), otherwise it is a bare Signal"""
    from amaranth.hdl import Signal, Shape
    sig = Signal(Shape(w, sg), init=init)
    if spec is not None and spec["k"] in VIEW_KINDS:
        sw, ssg, _ = shape_info(spec, None)
        if (sw, ssg) == (w, sg):
            return shape_obj(spec)(sig)
    return sig


def realize(o):
    from amaranth.hdl import Signal, Const, Shape
    from amaranth.lib import wiring
    t = o["t"]
    if t == "signal":
        return view_signal(o.get("shape"), o["w"], o["s"], o["init"])
    if t == "const":
        return Const(o["v"], Shape(o["w"], o["s"]))
    if t == "arr":
        return [realize(x) for x in o["items"]]
    if t == "junk":
        return object()
    p = Plain()
    p.signature = build_sig(o["sig"], o["fl"])
    for n, v in o["attrs"]:
        setattr(p, n, realize(v))
    return wiring.flipped(p) if o["w"] else p


def ser_real(obj, sig):
    """serialise an object made by the real `create()` in the driver's format"""
    from amaranth.hdl import Value, Const, Signal, Shape
    from amaranth.lib import wiring
    w = type(obj) is wiring.FlippedInterface
    inner = obj._FlippedInterface__unflipped if w else obj
    fl = type(inner.signature) is wiring.FlippedSignature

    def val(v, m, dims):
        if dims:
            assert isinstance(v, list) and len(v) == dims[0], "created dimensions"
            return "(arr" + "".join(" " + val(x, m, dims[1:]) for x in v) + ")"
        if m["t"] == "port":
            c = Value.cast(v)
            sh = c.shape()
            if isinstance(c, Const):
                return f"(const {sh.width} {'s' if sh.signed else 'u'} {c.value})"
            assert isinstance(c, Signal)
            return f"(signal {sh.width} {'s' if sh.signed else 'u'} {c.init})"
        return ser_real(v, m["sig"])
    attrs = " ".join(f"({n} {val(inner.__dict__[n], m, m['dims'])})" for n, m in sig)
    return f"(iface {int(w)} {int(fl)} {ser_sig(sig)} ({attrs}))"


def nodes(o, path=()):
    yield path, o
    if o["t"] == "arr":
        for i, x in enumerate(o["items"]):
            yield from nodes(x, path + (i,))
    elif o["t"] == "iface":
        for i, (n, v) in enumerate(o["attrs"]):
            yield from nodes(v, path + (i,))


def replace_at(o, path, fn):
    """functional update of the node at `path`; fn(node) -> new node or None (= delete from parent)"""
    import copy
    if not path:
        return fn(copy.deepcopy(o))
    o = dict(o)
    i = path[0]
    if o["t"] == "arr":
        items = list(o["items"])
        r = replace_at(items[i], path[1:], fn)
        if r is None:
            del items[i]
        else:
            items[i] = r
        o["items"] = items
    else:
        attrs = list(o["attrs"])
        r = replace_at(attrs[i][1], path[1:], fn)
        if r is None:
            del attrs[i]
        else:
            attrs[i] = (attrs[i][0], r)
        o["attrs"] = attrs
    return o


def corrupt_obj(rng, o):
    """one single-point change of an abstract object; returns (label, new object) or None"""
    cand = [(p, n) for p, n in nodes(o)]
    p, n = rng.choice(cand)
    t = n["t"]
    if t == "signal":
        c = rng.choice(["width", "init", "signed", "junk", "const", "constw", "drop"])
        if c == "width":
            return c, replace_at(o, p, lambda x: {**x, "w": x["w"] + 1})
        if c == "init":
            def f(x):
                iv = x["init"] + 1
                lo, hi = (-(1 << (x["w"] - 1)), (1 << (x["w"] - 1)) - 1) if x["s"] else (0, (1 << x["w"]) - 1)
                if x["w"] == 0:
                    return x
                if iv > hi:
                    iv = lo
                return {**x, "init": iv}
            return c, replace_at(o, p, f)
        if c == "signed":
            return c, replace_at(o, p, lambda x: {**x, "s": not x["s"]} if x["w"] > 0 else x)
        if c == "junk":
            return c, replace_at(o, p, lambda x: {"t": "junk"})
        if c == "const":
            return c, replace_at(o, p, lambda x: {"t": "const", "w": x["w"], "s": x["s"], "v": 0})
        if c == "constw":
            return c, replace_at(o, p, lambda x: {"t": "const", "w": x["w"] + 1, "s": x["s"], "v": 0})
        if c == "drop" and p:
            return c, replace_at(o, p, lambda x: None)
        return None
    if t == "arr":
        c = rng.choice(["shorter", "longer", "scalar", "drop"])
        if c == "shorter" and n["items"]:
            return c, replace_at(o, p, lambda x: {**x, "items": x["items"][:-1]})
        if c == "longer" and n["items"]:
            return c, replace_at(o, p, lambda x: {**x, "items": x["items"] + [x["items"][-1]]})
        if c == "scalar" and n["items"]:
            return c, replace_at(o, p, lambda x: x["items"][0])
        if c == "drop" and p:
            return c, replace_at(o, p, lambda x: None)
        return None
    if t == "iface":
        c = rng.choice(["dropattr", "sigflip", "wrap", "junk"])
        if c == "dropattr" and n["attrs"]:
            k = rng.randrange(len(n["attrs"]))
            return c, replace_at(o, p, lambda x: {**x, "attrs": x["attrs"][:k] + x["attrs"][k + 1:]})
        if c == "sigflip":
            return c, replace_at(o, p, lambda x: {**x, "fl": not x["fl"]})
        if c == "wrap":
            return c, replace_at(o, p, lambda x: {**x, "w": not x["w"]})
        if c == "junk" and p:
            return c, replace_at(o, p, lambda x: {"t": "junk"})
    return None


# ------------------------------------------------------------------------------------------------
# leaves of real objects, by raw navigation (no proxy access; independent of Signature.flatten)

def unwrap(obj):
    from amaranth.lib import wiring
    return obj._FlippedInterface__unflipped if type(obj) is wiring.FlippedInterface else obj


def raw_leaves(obj, sig, path=()):
    """yield (path, container, key, member) for every leaf slot; container[key] is the value"""
    inner = unwrap(obj)
    for n, m in sig:
        def rec(container, key, dims, p):
            v = container[key]
            if dims:
                for i in range(dims[0]):
                    yield from rec(v, i, dims[1:], p + (i,))
            elif m["t"] == "port":
                yield p, container, key, m
            else:
                yield from raw_leaves(v, m["sig"], p)
        yield from rec(inner.__dict__, n, m["dims"], path + (n,))


def pstr(path):
    return ".".join(str(x) for x in path)


def errname(e):
    msg = str(e)
    n = type(e).__name__
    if n == "ConnectionError":
        for key, kind in [("is present in", "missing"), ("signature member(s)", "kind"), ("shape widths", "width"),
                          ("initial values do not match", "init"), ("several output", "several"),
                          ("varying value", "constVarying"), ("different constant value", "constMismatch"),
                          ("Only input to input", "onlyInputs"), ("does not match its signature", "notCompliant")]:
            if key in msg:
                return kind
        return "ConnectionError:?"
    if n == "AssertionError":
        return "dims"
    if n == "TypeError" and "flipped() can only flip" in msg:
        return "F10:TypeError"
    if n == "AttributeError" and "'list' object has no attribute" in msg:
        return "F13:AttributeError"
    return "exc:" + common.errkind(e)


# ------------------------------------------------------------------------------------------------
# the amaranth side of the cases (runs in worker processes)

def impl_flatten(S, obj, pre=()):
    from amaranth.hdl import Value, Shape, Const
    out = []
    for p, m, v in S.flatten(obj):
        c = Value.cast(v)
        sh = Shape.cast(m.shape)
        iv = c.value if isinstance(c, Const) else c.init
        if not isinstance(c, Const) and iv != m._init_as_const.value:
            # the member yielded by flatten() and the signal found at that place disagree
            return f"error:member-init:{pstr(pre + tuple(p))}:member={m._init_as_const.value}:signal={iv}"
        out.append(f"{pstr(pre + tuple(p))}={'o' if m.flow.name == 'Out' else 'i'}:{sh.width}:{'s' if sh.signed else 'u'}:{iv}")
    return ";".join(out) or "-"


def impl_nested(obj, sig):
    """every sub-interface object, reached by attribute access and indexing from `obj` (pre-order), asked about
    its own leaves through its *own* signature: `sub.signature.flatten(sub)`; paths prefixed with the way there"""
    out = []

    def walk(o, sg, pre):
        for n, m in sg:
            if m["t"] != "iface":
                continue
            try:
                v = getattr(o, n)
            except Exception as e:
                out.append(f"{pstr(pre + (n,))}|error:{errname(e)}")
                continue

            def rec(v, dims, p):
                if dims:
                    for i in range(dims[0]):
                        try:
                            x = v[i]
                        except Exception as e:
                            out.append(f"{pstr(p + (i,))}|error:{errname(e)}")
                            continue
                        rec(x, dims[1:], p + (i,))
                    return
                try:
                    leaves = impl_flatten(v.signature, v, p)
                except Exception as e:
                    leaves = "error:" + errname(e)
                out.append(f"{pstr(p)}|{leaves}")
                walk(v, m["sig"], p)
            rec(v, m["dims"], pre + (n,))
    walk(obj, sig, ())
    return "&".join(out) or "-"


def observe_route(SS, route, sig):
    """an object for the signature SS made by `route`: its leaves, its sub-interfaces' leaves, compliance"""
    try:
        obj = route_obj(SS, route)
    except Exception as e:
        return {"build": "error:" + errname(e) + ":" + str(e)[:80]}
    ob = {}
    try:
        ob["top"] = impl_flatten(SS, obj)
    except Exception as e:
        ob["top"] = "error:" + errname(e)
    try:
        ob["nested"] = impl_nested(obj, sig)
    except Exception as e:
        ob["nested"] = "error:" + errname(e)
    try:
        ob["compliant"] = "ok:" + str(int(SS.is_compliant(obj)))
    except Exception as e:
        ob["compliant"] = "error:" + type(e).__name__
    return ob


def impl_entries(SS):
    """`SS.members.flatten()` (the recursive member listing `connect()` walks), every member with the dimensions
    of each level on the way and, for ports, the flow / width / initial value the listing shows"""
    from amaranth.hdl import Shape
    dims = {}
    out = []
    for path, mem in SS.members.flatten():
        path = tuple(path)
        dims[path] = tuple(mem.dimensions)
        segs = ".".join(path[i] + "".join(f"[{k}]" for k in dims[path[:i + 1]]) for i in range(len(path)))
        if mem.is_port:
            out.append(f"{segs}={'o' if mem.flow.name == 'Out' else 'i'}:{Shape.cast(mem.shape).width}:{mem._init_as_const.value}")
        else:
            out.append(f"{segs}=iface")
    return ";".join(out) or "-"


def case_flatten(fl, sig, reuse=None):
    rec = {"kind": "flatten", "req": f"(flatten {ser_sv(fl, sig)})", "fl": fl, "sig": sig}
    try:
        S = build_sig(sig, fl, reuse=reuse)
    except Exception as e:
        rec["build_error"] = errname(e) + ":" + str(e)[:120]
        return rec
    rec["routes"] = {}
    for key, SS in (("flat", S), ("flip", S.flip())):
        try:
            rec[key] = impl_flatten(SS, SS.create())
        except Exception as e:
            rec[key] = "error:" + errname(e)
        try:
            rec[key + "_entries"] = impl_entries(SS)
        except Exception as e:
            rec[key + "_entries"] = "error:" + errname(e)
        rec["routes"][key] = {r: observe_route(SS, r, sig) for r in ("create",) + ROUTES}
    try:
        rec["flipflip"] = (S.flip().flip() is S) or (S.flip().flip() == S)
    except Exception as e:
        rec["flipflip"] = "error:" + errname(e)
    return rec


def case_create(fl, sig, reuse=None):
    rec = {"kind": "create", "req": f"(create {ser_sv(fl, sig)})", "fl": fl, "sig": sig}
    S = build_sig(sig, fl, reuse=reuse)
    obj = S.create()
    rec["obj"] = ser_real(obj, sig)
    rec["mirror"] = ser_obj(create_obj(fl, sig))
    try:
        rec["compliant"] = "ok:" + str(int(S.is_compliant(obj)))
    except Exception as e:
        rec["compliant"] = "error:" + type(e).__name__
    return rec


def case_create_direct(fl, sig):
    """objects built directly on the signature value (fl, sig): PureInterface(S), a Component whose signature is S"""
    mirror = ser_obj(direct_obj(fl, sig))
    rec = {"kind": "create_direct", "req": f"(compliant {ser_sv(fl, sig)} {mirror})", "fl": fl, "sig": sig,
           "mirror": mirror, "objs": {}}
    S = build_sig(sig, fl)
    for route in ("pure", "comp"):
        ob = {}
        try:
            obj = route_obj(S, route)
            ob["obj"] = ser_real(obj, sig)
        except Exception as e:
            ob["crash"] = errname(e) + ":" + str(e)[:100]
            rec["objs"][route] = ob
            continue
        try:
            ob["compliant"] = "ok:" + str(int(S.is_compliant(obj)))
        except Exception as e:
            ob["compliant"] = "error:" + type(e).__name__
        rec["objs"][route] = ob
    return rec


def case_compliant(fl, sig, label, aobj):
    rec = {"kind": "compliant", "req": f"(compliant {ser_sv(fl, sig)} {ser_obj(aobj)})", "fl": fl, "sig": sig,
           "label": label}
    S = build_sig(sig, fl)
    real = realize(aobj)
    try:
        rec["compliant"] = "ok:" + str(int(S.is_compliant(real)))
    except Exception as e:
        rec["compliant"] = "error:" + type(e).__name__
    try:
        reasons = []
        S.is_compliant(real, reasons=reasons)
        rec["reasons"] = len(reasons)
    except Exception:
        rec["reasons"] = -1
    return rec


def ser_args(args):
    out = []
    for h, (fl, sig, consts) in enumerate(args):
        cs = " ".join("((" + " ".join(str(x) for x in p) + f") {v})" for p, v in sorted(consts.items(), key=lambda kv: pstr(kv[0])))
        out.append(f"(arg {h} {ser_sv(fl, sig)} ({cs}))")
    return "(connect " + " ".join(out) + ")"


def run_connect(args, order, rng_seed, simulate, obj_edit=None, routes=None, reuse=None, makers=None):
    """build the real objects (argument h by `routes[h]`, default `S.create()`), connect them in `order`;
    returns observation dict.  `reuse`: the signatures are built from that pool of Member objects.
    `makers`: {h: callable(S, path)} - argument h is whatever that callable returns (an object that is to
    behave as an interface for the h-th abstract tree; its leaves are found by raw navigation as for the others)"""
    from amaranth.hdl import Module, Const, Signal, Value, Shape
    from amaranth.lib import wiring
    from amaranth.sim import Simulator
    rng = random.Random(rng_seed)
    objs = []
    slot = {}          # id(value) -> (handle, path)
    leaves = {}        # (handle, path) -> dict(kind, value object, w, init)
    for h, (fl, sig, consts) in enumerate(args):
        S = build_sig(sig, fl, reuse=reuse)
        if makers and h in makers:
            obj = makers[h](S, (f"h{h}",))
        else:
            obj = route_obj(S, routes[h] if routes else "create", path=(f"h{h}",))
        for p, container, key, m in raw_leaves(obj, sig):
            w, sg, iv = shape_info(m["shape"], m["init"])
            if obj_edit is not None and obj_edit[0] == h and obj_edit[1] == p:
                # single-point corruption of the interface *object*: same place, another signal
                _h, _p, what, nw, niv = obj_edit
                container[key] = view_signal(m["shape"], nw, sg, niv)
                w, iv = nw, niv
            if p in consts:
                container[key] = Const(consts[p], Shape(w, sg))
                c = container[key]
                leaves[(h, p)] = {"kind": "const", "val": c, "w": w, "v": consts[p]}
            else:
                c = Value.cast(container[key])
                leaves[(h, p)] = {"kind": "signal", "val": c, "w": w, "sg": sg, "init": iv}
            slot[id(c)] = (h, p)
        objs.append(obj)
    res = {}
    if obj_edit is not None:
        try:
            res["compliant"] = "ok:" + str(int(objs[obj_edit[0]].signature.is_compliant(objs[obj_edit[0]])))
        except Exception as e:
            res["compliant"] = "error:" + type(e).__name__
    m = Module()
    try:
        wiring.connect(m, *[objs[i] for i in order])
        res["result"] = "ok"
    except Exception as e:
        res["result"] = "error:" + errname(e)
        res["msg"] = str(e)[:160]
        return res
    conns = []
    for dom, stmts in m._statements.items():
        for st in stmts:
            if dom != "comb":
                conns.append("domain:" + str(dom))
                continue
            lhs = slot.get(id(st.lhs))
            rhs = slot.get(id(st.rhs))
            if rhs is None and isinstance(st.rhs, Const):
                # the constant object may have been re-cast; identify by the input's path
                cands = [k for k, lf in leaves.items() if lf["kind"] == "const" and lhs and k[1] == lhs[1]
                         and lf["v"] == st.rhs.value and k[0] != lhs[0]]
                rhs = cands[0] if len(cands) == 1 else None
            if lhs is None or rhs is None:
                conns.append(f"unknown:{st!r}"[:80])
            else:
                conns.append(f"{lhs[0]}.{pstr(lhs[1])}<-{rhs[0]}.{pstr(rhs[1])}")
    res["conns"] = sorted(conns)
    if simulate:
        # which leaves does the implementation itself call outputs? (Signature.flatten)
        outs = set()
        try:
            for h, (fl, sig, consts) in enumerate(args):
                for p, mem, v in objs[h].signature.flatten(objs[h]):
                    if mem.flow.name == "Out":
                        outs.add((h, p))
        except Exception as e:
            res["sim"] = "skipped:" + errname(e)
            return res
        setv, readv = {}, {}
        sim = Simulator(m)

        async def tb(ctx):
            for k, lf in leaves.items():
                if lf["kind"] == "signal" and k in outs and lf["w"] > 0:
                    bits = rng.getrandbits(lf["w"])
                    setv[k] = bits
                    val = bits - (1 << lf["w"]) if (lf["sg"] and bits >> (lf["w"] - 1)) else bits
                    ctx.set(lf["val"], val)
            for k, lf in leaves.items():
                if lf["kind"] == "signal":
                    readv[k] = ctx.get(lf["val"]) & ((1 << lf["w"]) - 1)
        sim.add_testbench(tb)
        try:
            sim.run()
            res["sim"] = "ran"
            res["set"] = {f"{h}.{pstr(p)}": v for (h, p), v in setv.items()}
            res["read"] = {f"{h}.{pstr(p)}": v for (h, p), v in readv.items()}
            res["leafinfo"] = {f"{h}.{pstr(p)}": ([lf["kind"], lf["w"], lf.get("init", lf.get("v")), (h, p) in outs])
                               for (h, p), lf in leaves.items()}
        except Exception as e:
            res["sim"] = "error:" + common.errkind(e) + ":" + str(e)[:100]
    return res


def case_connect(args, label, seed, simulate, routes=None, reuse=None, makers=None):
    rec = {"kind": "connect", "req": ser_args(args), "label": label, "args": args, "routes": routes}
    try:
        rec["impl"] = run_connect(args, list(range(len(args))), seed, simulate, routes=routes, reuse=reuse, makers=makers)
    except Exception as e:
        rec["impl"] = {"result": "error:build:" + errname(e), "msg": str(e)[:160]}
        return rec
    order = list(range(len(args)))
    random.Random(seed + 1).shuffle(order)
    if order == list(range(len(args))):
        order.reverse()
    rec["order"] = order
    try:
        rec["perm"] = run_connect(args, order, seed, False, routes=routes, reuse=reuse, makers=makers)
    except Exception as e:
        rec["perm"] = {"result": "error:build:" + errname(e)}
    return rec


def abs_edit(o, path, fn):
    """functional update of the leaf of an abstract object reached by an indexed path"""
    if not path:
        return fn(dict(o))
    o = dict(o)
    if o["t"] == "arr":
        items = list(o["items"])
        items[path[0]] = abs_edit(items[path[0]], path[1:], fn)
        o["items"] = items
    else:
        attrs = list(o["attrs"])
        i = [n for n, _v in attrs].index(path[0])
        attrs[i] = (attrs[i][0], abs_edit(attrs[i][1], path[1:], fn))
        o["attrs"] = attrs
    return o


def is_view_shape(spec):
    return spec["k"] in VIEW_KINDS


def obj_corruptions(rng, args):
    """single-point corruptions of one *interface object* of a compliant tuple (the signatures stay
    as they are): a leaf signal replaced by one with another initial value / another width.
    One site anywhere, one site on a leaf whose attribute is a view (aggregate / enumeration)."""
    out = []
    sites = []
    for h, (fl, sig, consts) in enumerate(args):
        for p, d, m in leaf_paths(fl, sig):
            w, sg, iv = shape_info(m["shape"], m["init"])
            if w > 0 and p not in consts:
                sites.append((h, p, m, w, sg, iv))
    if not sites:
        return out
    views = [x for x in sites if is_view_shape(x[2]["shape"])]
    picks = [("obj-init", rng.choice(sites)), ("obj-width", rng.choice(sites))]
    if views:
        picks.append(("obj-init", rng.choice(views)))
        picks.append(("obj-init", rng.choice(views)))
    for what, (h, p, m, w, sg, iv) in picks:
        lo, hi = (-(1 << (w - 1)), (1 << (w - 1)) - 1) if sg else (0, (1 << w) - 1)
        if what == "obj-init":
            cands = [v for v in (iv + 1, iv - 1, lo, hi, 0) if lo <= v <= hi and v != iv]
            if not cands:
                continue
            out.append((what, (h, p, what, w, rng.choice(cands))))
        else:
            out.append((what, (h, p, what, w + 1, iv)))
    return out


def case_connect_obj(args, edit, seed):
    h, p, what, nw, niv = edit
    fl, sig, _c = args[h]
    spec = dict(next(m for pp, _d, m in leaf_paths(fl, sig) if pp == p))["shape"]
    aobj = abs_edit(create_obj(fl, sig), p, lambda x: {**x, "w": nw, "init": niv})
    rec = {"kind": "connect_obj", "req": f"(compliant {ser_sv(fl, sig)} {ser_obj(aobj)})", "label": what,
           "args": args, "edit": [h, pstr(p), what, nw, niv], "view_leaf": is_view_shape(spec), "shape_kind": spec["k"]}
    order = list(range(len(args)))
    try:
        rec["impl"] = run_connect(args, order, seed, False, obj_edit=edit)
        rec["perm"] = run_connect(args, order[::-1], seed, False, obj_edit=edit)
    except Exception as e:
        rec["crash"] = errname(e) + ":" + str(e)[:120]
    return rec


def case_meta(sig, validate_mutant, fl=False):
    """metadata of a Component whose signature is (fl, sig) (fl: the component is built on a flipped signature)"""
    from amaranth.lib import wiring
    rec = {"kind": "meta", "req": f"(flatten {ser_sv(fl, sig)})", "sig": sig, "fl": fl}
    S = build_sig(sig, fl)

    class C(wiring.Component):
        def __init__(self):
            super().__init__(S)
    try:
        comp = C()
        j = comp.metadata.as_json()           # validates against the schema itself
    except Exception as e:
        rec["meta"] = "error:" + errname(e) + ":" + str(e)[:100]
        return rec
    out = []

    def walk(node):
        if isinstance(node, list):
            for x in node:
                walk(x)
        elif node["type"] == "port":
            out.append(f"{node['name']}={'o' if node['dir'] == 'out' else 'i'}:{node['width']}:"
                       f"{'s' if node['signed'] else 'u'}:{int(node['init'])}")
        else:
            for _n, x in node["members"].items():
                walk(x)
    for _n, x in j["interface"]["members"].items():
        walk(x)
    rec["meta"] = ";".join(out) or "-"
    try:
        wiring.ComponentMetadata.validate(j)
        rec["valid"] = True
    except Exception as e:
        rec["valid"] = "error:" + type(e).__name__
    if validate_mutant and out:
        import copy
        jm = copy.deepcopy(j)

        def first_port(node):
            if isinstance(node, list):
                for x in node:
                    r = first_port(x)
                    if r is not None:
                        return r
                return None
            if node["type"] == "port":
                return node
            for x in node["members"].values():
                r = first_port(x)
                if r is not None:
                    return r
            return None
        prt = None
        for x in jm["interface"]["members"].values():
            prt = first_port(x)
            if prt is not None:
                break
        prt["dir"] = "inout"
        try:
            wiring.ComponentMetadata.validate(jm)
            rec["mutant_rejected"] = False
        except wiring.InvalidMetadata:
            rec["mutant_rejected"] = True
    return rec


# ------------------------------------------------------------------------------------------------
# corruptions of a compliant connect tuple (on the tree of one argument)

def port_paths(sig, pre=()):
    for i, (n, m) in enumerate(sig):
        if m["t"] == "port":
            yield pre + (i,)
        else:
            yield from port_paths(m["sig"], pre + (i,))


def member_paths(sig, pre=()):
    for i, (n, m) in enumerate(sig):
        yield pre + (i,)
        if m["t"] == "iface":
            yield from member_paths(m["sig"], pre + (i,))


def edit_member(sig, path, fn):
    """fn(member) -> member or None (drop)"""
    sig = list(sig)
    i = path[0]
    n, m = sig[i]
    if len(path) == 1:
        r = fn(dict(m))
        if r is None:
            del sig[i]
        else:
            sig[i] = (n, r)
    else:
        sig[i] = (n, {**m, "sig": edit_member(m["sig"], path[1:], fn)})
    return sig


def leaf_paths(fl, sig, pre=()):
    """(indexed path, effective direction) of every leaf, in the harness's own reading of the tree"""
    for n, m in sig:
        def idx(dims):
            if not dims:
                yield ()
            else:
                for i in range(dims[0]):
                    for r in idx(dims[1:]):
                        yield (i,) + r
        for ix in idx(m["dims"]):
            p = pre + (n,) + ix
            if m["t"] == "port":
                yield p, eff(m["f"], fl), m
            else:
                yield from leaf_paths(sub_flag(fl, m["f"], m["df"]), m["sig"], p)


def gen_tuple(rng, quick):
    """a compliant tuple: (args, description)"""
    k = rng.choice([2, 2, 2, 3, 4])
    all_out = k > 2 or rng.random() < .2
    fl0 = rng.random() < .5
    depth = rng.choice([1, 2, 2, 3, 4])
    # the first argument is seen with `fl0`; for all_out its leaves must be outputs as *seen*
    sig = gen_sig(rng, depth, fl=fl0, all_out=all_out, iface_arrays=rng.random() < .35)
    args = [(fl0, sig, {})] + [(not fl0, sig, {}) for _ in range(k - 1)]
    # constants: some output leaf becomes a constant, some of the matching inputs too
    lv = list(leaf_paths(fl0, sig))
    outs0 = [(p, m) for p, d, m in lv if d == "o"]
    ins0 = [(p, m) for p, d, m in lv if d == "i"]
    if rng.random() < .35 and (outs0 or ins0):
        for _ in range(rng.choice([1, 1, 2])):
            if outs0 and (not ins0 or rng.random() < .6):
                p, m = rng.choice(outs0); src, dsts = 0, list(range(1, k))
            else:
                p, m = rng.choice(ins0); src, dsts = rng.randrange(1, k), [0]
                if k > 2:
                    continue           # with several flipped twins the leaf has several outputs anyway
            w, sg, iv = shape_info(m["shape"], m["init"])
            if w == 0:
                v = 0
            else:
                v = rng.randrange(-(1 << (w - 1)), 1 << (w - 1)) if sg else rng.randrange(1 << w)
            args[src][2][p] = v
            for d in dsts:
                if rng.random() < .6:
                    args[d][2][p] = v
    return args


def corruptions(rng, args):
    """every kind of single-point corruption, one random site each: list of (label, args)"""
    out = []
    k = len(args)
    v = rng.randrange(k)
    fl, sig, consts = args[v]

    def with_sig(newsig, newconsts=None):
        a = list(args)
        a[v] = (fl, newsig, dict(consts if newconsts is None else newconsts))
        return a
    mp = list(member_paths(sig))
    pp = list(port_paths(sig))
    if mp:
        p = rng.choice(mp)
        out.append(("drop-member", with_sig(edit_member(sig, p, lambda m: None), {})))
    if pp:
        p = rng.choice(pp)

        def wider(m):
            s = dict(m["shape"])
            if s["k"] in ("u", "s", "int"):
                s["w"] += 1
            else:
                s = {"k": "u", "w": shape_info(m["shape"], m["init"])[0] + 1}
                m["init"] = None
            m["shape"] = s
            return m
        out.append(("width", with_sig(edit_member(sig, p, wider), {})))
        p = rng.choice(pp)

        def reinit(m):
            w, sg, iv = shape_info(m["shape"], m["init"])
            if w == 0:
                return m
            m["shape"] = {"k": "s" if sg else "u", "w": w}
            lo, hi = (-(1 << (w - 1)), (1 << (w - 1)) - 1) if sg else (0, (1 << w) - 1)
            if sg and iv > hi:
                iv -= 1 << w
            m["init"] = iv + 1 if iv + 1 <= hi else lo
            return m
        out.append(("init", with_sig(edit_member(sig, p, reinit), {})))
        p = rng.choice(pp)
        out.append(("flip-port", with_sig(edit_member(sig, p, lambda m: {**m, "f": eff(m["f"], True)}), {})))
        p = rng.choice(pp)

        def resign(m):
            w, sg, iv = shape_info(m["shape"], m["init"])
            if w == 0 or iv != 0:
                return m
            m["shape"] = {"k": "u" if sg else "s", "w": w}
            m["init"] = None
            return m
        out.append(("signedness", with_sig(edit_member(sig, p, resign), {})))
        p = rng.choice(pp)
        out.append(("port-dims", with_sig(edit_member(sig, p, lambda m: {**m, "dims": m["dims"] + [2]}), {})))
        p = rng.choice(pp)
        out.append(("port-to-iface", with_sig(edit_member(sig, p, lambda m: {"t": "iface", "f": m["f"], "df": False,
                                                                             "sig": [], "dims": []}), {})))
    # the same members in another order (dict order): nothing may change
    def shuffled(sg):
        sg = [(n, ({**m, "sig": shuffled(m["sig"])} if m["t"] == "iface" else m)) for n, m in sg]
        rng.shuffle(sg)
        return sg
    out.append(("shuffle-members", with_sig(shuffled(sig))))
    # a second output: one more argument seen like the first
    out.append(("second-output", list(args) + [args[0]]))
    # flip one argument as a whole
    a = list(args); a[v] = (not fl, sig, dict(consts)); out.append(("flip-arg", a))
    # constants
    lv = list(leaf_paths(fl, sig))
    if lv:
        p, d, m = rng.choice(lv)
        w, sg, iv = shape_info(m["shape"], m["init"])
        if w > 0:
            val = consts.get(p)
            if val is None:
                val = rng.randrange(-(1 << (w - 1)), 1 << (w - 1)) if sg else rng.randrange(1 << w)
                out.append(("add-const", with_sig(sig, {**consts, p: val})))
            else:
                lo, hi = (-(1 << (w - 1)), (1 << (w - 1)) - 1) if sg else (0, (1 << w) - 1)
                out.append(("other-const", with_sig(sig, {**consts, p: (val + 1 if val + 1 <= hi else lo)})))
                c2 = dict(consts); del c2[p]
                out.append(("drop-const", with_sig(sig, c2)))
    return out


# ------------------------------------------------------------------------------------------------
# tuples that are NOT one tree and its flipped twins: every argument has a signature of its own (own top-level
# view, own In/Out and proxy flag at every sub-interface member), the arguments agree only where connect() needs
# them to.  The effective direction of every leaf is chosen per argument: exactly one output ("one") or an input
# on every argument ("in": nobody drives it, nothing is wired, all keep their initial value).

def gen_hetero(rng):
    """(args, sites): sites["in"] / sites["one"] = [(index path of the port member, below an array of
    sub-interfaces?, nesting depth, driving argument or None)]"""
    k = rng.choice([2, 2, 3, 3, 4])
    budget = [16]
    sites = {"in": [], "one": []}

    def level(depth, fls, pre, below_arr):
        membs = [[] for _ in range(k)]
        for name in rng.sample(NAMES, rng.choice([1, 2, 2, 3, 4])):
            if budget[0] <= 0:
                break
            idx = len(membs[0])
            if depth > 1 and rng.random() < .45:
                dims = gen_dims(rng, allow_zero=False) if rng.random() < .6 else []
                fs = [rng.choice("oi") for _ in range(k)]
                dfs = [rng.random() < .3 for _ in range(k)]
                subs = level(depth - 1, [sub_flag(fls[h], fs[h], dfs[h]) for h in range(k)], pre + (idx,),
                             below_arr or bool(dims))
                for h in range(k):
                    membs[h].append((name, {"t": "iface", "f": fs[h], "df": dfs[h], "sig": subs[h], "dims": list(dims)}))
            else:
                spec, raw = gen_shape(rng)
                dims = gen_dims(rng, allow_zero=rng.random() < .3)
                n = 1
                for d_ in dims:
                    n *= d_
                budget[0] -= max(n, 1)
                pat = rng.choice(["one", "one", "in", "in", "in"])
                drv = rng.randrange(k) if pat == "one" else None
                for h in range(k):
                    seen = "o" if h == drv else "i"
                    membs[h].append((name, {"t": "port", "f": eff(seen, fls[h]), "shape": spec, "init": raw,
                                            "dims": list(dims)}))
                sites[pat].append((pre + (idx,), below_arr, len(pre), drv))
        return membs
    fls = [rng.random() < .5 for _ in range(k)]
    sigs = level(rng.choice([1, 2, 2, 3, 3]), fls, (), False)
    if not sites["one"]:
        # at least one real Out -> In connection (otherwise "only input to input connections" is the answer anyway)
        drv = rng.randrange(k)
        for h in range(k):
            sigs[h].append(("q_", {"t": "port", "f": eff("o" if h == drv else "i", fls[h]), "shape": {"k": "u", "w": 8},
                                   "init": None, "dims": []}))
        sites["one"].append(((len(sigs[0]) - 1,), False, 0, drv))
    return [(fls[h], sigs[h], {}) for h in range(k)], sites


def m_wider(m):
    w = shape_info(m["shape"], m["init"])[0]
    if m["shape"]["k"] in ("u", "s", "int"):
        return {**m, "shape": {**m["shape"], "w": w + 1}}
    return {**m, "shape": {"k": "u", "w": w + 1}, "init": None}


def m_reinit(m):
    w, sg, iv = shape_info(m["shape"], m["init"])
    if w == 0:
        return m
    lo, hi = (-(1 << (w - 1)), (1 << (w - 1)) - 1) if sg else (0, (1 << w) - 1)
    if sg and iv > hi:
        iv -= 1 << w
    return {**m, "shape": {"k": "s" if sg else "u", "w": w}, "init": iv + 1 if iv + 1 <= hi else lo}


def m_resign(m):
    w, sg, iv = shape_info(m["shape"], m["init"])
    if w == 0 or iv != 0:
        return m
    return {**m, "shape": {"k": "u" if sg else "s", "w": w}, "init": None}


def hetero_variants(rng, args, sites):
    """list of (label, args, site description, simulate).  The single-point changes are made in ONE argument,
    on a leaf nobody drives ("inonly-*") and - as controls - on a leaf with one output ("oneout-*")."""
    k = len(args)
    out = []

    def changed(v, path, fn):
        a = list(args)
        fl, sig, c = a[v]
        a[v] = (fl, edit_member(sig, path, fn), dict(c))
        return a

    def where(site, v):
        path, below, depth, drv = site
        return {"depth": depth, "below_iface_array": below, "n_args": k,
                "changed_arg": "first" if v == 0 else "last" if v == k - 1 else "middle"}
    if sites["in"]:
        for label, fn, sim in (("inonly-width", m_wider, False), ("inonly-init", m_reinit, False),
                               ("inonly-signedness", m_resign, True),
                               ("inonly-dims", lambda m: {**m, "dims": m["dims"] + [2]}, True)):
            site = rng.choice(sites["in"]); v = rng.randrange(k)
            out.append((label, changed(v, site[0], fn), where(site, v), sim))
        # one argument now drives the leaf: a connection to every other argument appears
        site = rng.choice(sites["in"]); v = rng.randrange(k)
        out.append(("inonly-gets-output", changed(v, site[0], lambda m: {**m, "f": eff(m["f"], True)}), where(site, v), True))
    for label, fn in (("oneout-width", m_wider), ("oneout-init", m_reinit)):
        site = rng.choice(sites["one"]); v = rng.randrange(k)
        out.append((label, changed(v, site[0], fn), where(site, v), False))
    # a second output on a driven leaf (one of the reading arguments), and the driver turned into a reader
    site = rng.choice(sites["one"])
    v = rng.choice([h for h in range(k) if h != site[3]])
    out.append(("oneout-second-output", changed(v, site[0], lambda m: {**m, "f": eff(m["f"], True)}), where(site, v), False))
    site = rng.choice(sites["one"])
    out.append(("oneout-loses-output", changed(site[3], site[0], lambda m: {**m, "f": eff(m["f"], True)}),
                where(site, site[3]), True))
    return out


# ------------------------------------------------------------------------------------------------
# signatures built from reused Member objects (see `Reuse`): a few abstract member templates, used scalar first
# and with array dimensions later, in a sequence of signatures built over one pool

REUSE_DIMS = [[2], [3], [1], [2, 2], [2, 3], [3, 1], [0], [4]]


def gen_reuse_scenario(rng):
    """list of (fl, sig): trees over shared templates.  The first uses them mostly as scalars, the later ones
    mostly with dimensions"""
    ports = []
    for _ in range(rng.randint(1, 3)):
        spec, raw = gen_shape(rng)
        ports.append({"t": "port", "f": rng.choice("oi"), "shape": spec, "init": raw})

    def small_sig(depth):
        members = []
        for name in rng.sample(NAMES, rng.randint(1, 3)):
            if depth > 1 and rng.random() < .3:
                members.append((name, {"t": "iface", "f": rng.choice("oi"), "df": rng.random() < .3,
                                       "sig": small_sig(depth - 1), "dims": rng.choice([[], [], [2]])}))
            else:
                members.append((name, {**rng.choice(ports), "dims": rng.choice([[], [], [], [2], [3]])}))
        return members
    ifaces = [{"t": "iface", "f": rng.choice("oi"), "df": rng.random() < .3, "sig": small_sig(2)}
              for _ in range(rng.randint(0, 2))]
    trees = []
    for step in range(rng.choice([2, 2, 3])):
        members = []
        for name in rng.sample(NAMES, rng.randint(1, 4)):
            tpl = rng.choice(ports + ports + ifaces)
            scalar = rng.random() < (.7 if step == 0 else .2)
            members.append((name, {**tpl, "dims": [] if scalar else list(rng.choice(REUSE_DIMS))}))
        trees.append((rng.random() < .4, members))
    return trees


def reuse_cases(rng):
    """all observations of one scenario; every record carries what is needed to rebuild the pool (`reuse`)"""
    seed = rng.randrange(1 << 30)
    R = Reuse(seed)
    trees = gen_reuse_scenario(rng)
    recs = []
    for step, (fl, sig) in enumerate(trees):
        tag = {"seed": seed, "step": step, "trees": [ser_sv(f, s) for f, s in trees[:step]]}
        new = []
        new.append(case_flatten(fl, sig, reuse=R))
        if "build_error" not in new[-1]:
            try:
                new.append(case_create(fl, sig, reuse=R))
            except Exception as e:
                new.append({"kind": "create", "req": f"(create {ser_sv(fl, sig)})", "fl": fl, "sig": sig,
                            "crash": errname(e) + ":" + str(e)[:100]})
            k = rng.choice([2, 2, 3])
            if k == 2:
                args = [(fl, sig, {}), (not fl, sig, {})]
            else:
                # three arguments: a tree whose leaves are all outputs as seen, and two flipped twins
                def outs(sg, f):
                    return [(n, ({**m, "f": eff("o", f)} if m["t"] == "port" else
                                 {**m, "sig": outs(m["sig"], sub_flag(f, m["f"], m["df"]))})) for n, m in sg]
                so = outs(sig, fl)
                args = [(fl, so, {}), (not fl, so, {}), (not fl, so, {})]
            new.append(case_connect(args, "reuse-base", rng.randrange(1 << 30), True, reuse=R))
            if rng.random() < .5:
                new.append(case_connect(args, "reuse-base", rng.randrange(1 << 30), True,
                                        routes=[rng.choice(ROUTES) for _ in args], reuse=R))
        notes = R.take_notes()
        errors, R.errors = R.errors, []
        for i, r in enumerate(new):
            r["reuse"] = {**tag, "notes": notes if i == 0 else {}, "preuse_errors": errors if i == 0 else []}
        recs.extend(new)
    return recs


# ------------------------------------------------------------------------------------------------
# Component classes whose members are variable annotations, with INHERITANCE: a base class with annotations,
# subclasses adding members (siblings, a second level, a class in between without annotations, a subclass that
# redefines a member), instantiated in varied orders.  The signature of an instance is the union of the annotations
# along the MRO of *its* class (base first), whatever other classes of the hierarchy were instantiated before.

def meta_ports(j):
    out = []

    def walk(node):
        if isinstance(node, list):
            for x in node:
                walk(x)
        elif node["type"] == "port":
            out.append(f"{node['name']}={'o' if node['dir'] == 'out' else 'i'}:{node['width']}:"
                       f"{'s' if node['signed'] else 'u'}:{int(node['init'])}")
        else:
            for _n, x in node["members"].items():
                walk(x)
    for _n, x in j["interface"]["members"].items():
        walk(x)
    return ";".join(out) or "-"


def gen_annot_scenario(rng):
    """(sig, classes, order, pattern): classes = [(name, parent index or None, own member names, redefines?)]"""
    for _ in range(100):
        sig = gen_sig(rng, rng.choice([1, 2, 2, 3]), False)
        if len(sig) >= 2:
            break
    else:
        sig = [("a", {"t": "port", "f": "o", "shape": {"k": "u", "w": 4}, "init": 3, "dims": []}),
               ("b", {"t": "port", "f": "i", "shape": {"k": "u", "w": 1}, "init": None, "dims": [2]})]
    names = [n for n, _m in sig]
    rng.shuffle(names)
    nb = rng.randint(1, len(names) - 1)
    base_own, rest = names[:nb], names[nb:]

    def subset(pool, allow_empty=False):
        pool = list(pool)
        if not pool:
            return []
        k = rng.randint(0 if allow_empty else 1, len(pool))
        return rng.sample(pool, k)
    classes = [("Base", None, base_own, False)]
    d1 = subset(rest)
    classes.append(("D1", 0, d1, False))
    if rng.random() < .6:
        classes.append(("D2", 0, subset(rest), False))                    # a sibling (may declare the same names as D1)
    if rng.random() < .5:
        classes.append(("E", 1, subset([n for n in rest if n not in d1], True), False))   # second level
    if rng.random() < .4:
        classes.append(("Mid", 0, [], False))                             # no annotations of its own
        classes.append(("F", len(classes) - 1, subset(rest), False))
    if rng.random() < .35:
        par = rng.randrange(len(classes))
        inherited = class_names(classes, par)
        classes.append(("R", par, [rng.choice(inherited)] + subset([n for n in rest if n not in inherited], True), True))
    others = list(range(1, len(classes)))
    pattern = rng.choice(["base-first", "base-first", "derived-first", "base-never", "random"])
    rng.shuffle(others)
    if pattern == "base-first":
        order = [0] + others
    elif pattern == "derived-first":
        order = others + [0]
    elif pattern == "base-never":
        order = list(others)
    else:
        order = [rng.randrange(len(classes)) for _ in range(rng.randint(3, 6))]
    order += [rng.randrange(len(classes)) for _ in range(rng.choice([0, 1, 2]))]       # repeated instantiation
    return sig, classes, order[:8], pattern


def class_names(classes, i):
    """member names of class i: the annotations along its chain of bases, base first"""
    _n, par, own, _r = classes[i]
    return (class_names(classes, par) if par is not None else []) + [n for n in own]


def annot_cases(rng, scenario=None):
    from amaranth.lib import wiring
    sig, classes, order, pattern = scenario or gen_annot_scenario(rng)
    bysig = dict(sig)
    full = build_sig(sig)                       # the Member objects written as annotations
    narrow = {"t": "port", "f": "o", "shape": {"k": "u", "w": 1}, "init": None, "dims": []}
    real = []
    for name, par, own, redef in classes:
        ann = {n: full.members[n] for n in own}
        if redef:
            ann[own[0]] = wiring.Out(1)         # the same name again, in a subclass: NameError
        real.append(type(name, (real[par] if par is not None else wiring.Component,), {"__annotations__": ann}))
    shape = "+".join(c[0] for c in classes[1:])
    recs = []
    made = []                                   # indices instantiated so far, in order

    def ancestors(i):
        out = []
        while classes[i][1] is not None:
            i = classes[i][1]
            out.append(i)
        return out
    for i in order:
        name, par, own, redef = classes[i]
        cnames = class_names(classes, i)
        csig = [(n, bysig[n]) for n in (cnames if not redef else class_names(classes, par))]
        info = {"hierarchy": shape, "pattern": pattern, "class": name, "own": list(own), "redefines": redef,
                "classes": [[c[0], (classes[c[1]][0] if c[1] is not None else None), list(c[2])] for c in classes],
                "instantiated_before": [classes[k][0] for k in made],
                "ancestor_before": any(a in made for a in ancestors(i)), "nth": made.count(i)}
        rec = {"kind": "annot", "req": f"(flatten {ser_sv(False, csig)})", "sig": csig, "annot": info}
        made.append(i)
        recs.append(rec)
        try:
            comp = real[i]()
            rec["build"] = "ok"
        except Exception as e:
            rec["build"] = "error:" + type(e).__name__ + ":" + str(e)[:80]
            continue
        try:
            rec["names"] = sorted(comp.signature.members)
        except Exception as e:
            rec["names"] = "error:" + errname(e)
        if redef:
            continue
        expected = build_sig(csig)              # the expected signature, written independently of the class
        for key, SS in (("top", None), ("top_expected", expected)):
            try:
                rec[key] = impl_flatten(comp.signature if SS is None else SS, comp)
            except Exception as e:
                rec[key] = "error:" + errname(e)
        try:
            rec["nested"] = impl_nested(comp, csig)
        except Exception as e:
            rec["nested"] = "error:" + errname(e)
        try:
            rec["compliant"] = "ok:" + str(int(expected.is_compliant(comp)))
        except Exception as e:
            rec["compliant"] = "error:" + type(e).__name__
        try:
            j = comp.metadata.as_json()
            rec["meta"] = meta_ports(j)
            wiring.ComponentMetadata.validate(j)
            rec["valid"] = True
        except Exception as e:
            rec.setdefault("meta", "error:" + errname(e) + ":" + str(e)[:80])
            rec["valid"] = rec.get("valid", "error:" + type(e).__name__)
    # connect an instance of every (proper) class that was instantiated to an interface made from the flipped
    # expected signature, and watch the data flow
    for i in sorted(set(made)):
        name, par, own, redef = classes[i]
        if redef:
            continue
        csig = [(n, bysig[n]) for n in class_names(classes, i)]
        r = case_connect([(False, csig, {}), (True, csig, {})], "annot-connect", rng.randrange(1 << 30), True,
                         makers={0: lambda S, path, cls=real[i]: cls()})
        r["annot"] = {"hierarchy": shape, "pattern": pattern, "class": name,
                      "instantiated_before": [classes[k][0] for k in made]}
        recs.append(r)
    return recs


# ------------------------------------------------------------------------------------------------
# a KEPT FlippedInterface proxy: `resp = flipped(intf)` is made once, used (or not), then a sub-interface of the
# wrapped object `intf` is replaced (attribute, array element, one level further down, or - control - through the
# proxy), then `resp` is used again.  The proxy has no state of its own: what is reached through it is what `intf`
# holds NOW (identity of the signals), and connect() wires those.

STALE_TOUCH = ("none", "compliant", "flatten", "getattr", "connect", "nested")
STALE_HOW = ("attr", "attr", "elem", "elem", "deep", "proxy")


def _idx(rng, dims):
    return [rng.randrange(d) for d in dims]


def gen_stale_scenario(rng):
    """(fl, sig, sc)"""
    def live(sg):
        return [(n, m) for n, m in sg if m["t"] == "iface" and 0 not in m["dims"]]
    fl = rng.random() < .5
    for _ in range(300):
        sig = gen_sig(rng, rng.choice([2, 3, 3]), fl, iface_arrays=rng.random() < .7)
        if live(sig) and (_ > 40 or any(m["dims"] or live(m["sig"]) for _n, m in live(sig))):
            break
    else:
        bus = [("x", {"t": "port", "f": "o", "shape": {"k": "u", "w": 8}, "init": None, "dims": []}),
               ("y", {"t": "port", "f": "i", "shape": {"k": "u", "w": 8}, "init": 2, "dims": []})]
        sig = [("a", {"t": "iface", "f": "o", "df": False, "sig": bus, "dims": []}),
               ("b", {"t": "iface", "f": "o", "df": False, "sig": bus, "dims": [2]}),
               ("z9", {"t": "port", "f": "i", "shape": {"k": "u", "w": 1}, "init": None, "dims": []})]
    how = rng.choice(STALE_HOW)
    # prefer a member the chosen kind of replacement applies to (an array / one with sub-interfaces of its own)
    fit = [(n, m) for n, m in live(sig) if (how != "elem" or m["dims"]) and (how != "deep" or live(m["sig"]))]
    n, m = rng.choice(fit or live(sig))
    sc = {"route": rng.choice(["pure", "comp"]), "touch": rng.choice(STALE_TOUCH), "member": n,
          "index": _idx(rng, m["dims"])}
    if how == "elem" and not m["dims"]:
        how = "attr"
    if how == "deep":
        sub = live(m["sig"])
        if sub:
            k, mk = rng.choice(sub)
            sc["deep_member"] = k
            sc["deep_index"] = _idx(rng, mk["dims"])
            sc["deep_how"] = "elem" if (mk["dims"] and rng.random() < .5) else "attr"
        else:
            how = "elem" if m["dims"] else "attr"
    sc["how"] = how
    sc["twice"] = rng.random() < .25            # use, replace, use, replace again, use
    return fl, sig, sc


def _at(v, index):
    for i in index:
        v = v[i]
    return v


def _put(holder, key, index, donor_holder, whole):
    """holder[key] (a dict slot holding a sub-interface or nested lists of them): replace the whole value or the
    element at `index` by the corresponding one of donor_holder"""
    if whole or not index:
        holder[key] = donor_holder[key]
    else:
        _at(holder[key], index[:-1])[index[-1]] = _at(donor_holder[key], index)


def stale_touch(SS, resp, sc):
    from amaranth.hdl import Module
    from amaranth.lib import wiring
    t = sc["touch"]
    try:
        if t == "compliant":
            SS.is_compliant(resp)
        elif t == "flatten":
            list(SS.flatten(resp))
        elif t == "getattr":
            _at(getattr(resp, sc["member"]), sc["index"])
        elif t == "nested":
            v = _at(getattr(resp, sc["member"]), sc["index"])
            list(v.signature.flatten(v))
        elif t == "connect":
            wiring.connect(Module(), resp, SS.flip().create(path=("t",)))
    except Exception:
        pass


def make_stale(SS, sc, path):
    """the scenario on an object for SS: returns the kept proxy"""
    from amaranth.lib import wiring
    T = SS.flip()
    intf = route_obj(T, sc["route"], path=path)
    resp = wiring.flipped(intf)                 # kept by its user
    for rnd in range(2 if sc["twice"] else 1):
        donor = route_obj(T, sc["route"], path=tuple(path) + (f"new{rnd}",))
        stale_touch(SS, resp, sc)
        n, how = sc["member"], sc["how"]
        if how == "attr":
            setattr(intf, n, donor.__dict__[n])
        elif how == "elem":
            _put(intf.__dict__, n, sc["index"], donor.__dict__, False)
        elif how == "proxy":
            setattr(resp, n, getattr(wiring.flipped(donor), n))
        else:
            sub = unwrap(_at(intf.__dict__[n], sc["index"]))
            dsub = unwrap(_at(donor.__dict__[n], sc["index"]))
            _put(sub.__dict__, sc["deep_member"], sc["deep_index"], dsub.__dict__, sc["deep_how"] == "attr")
    return resp


def stale_cases(rng, scenario=None):
    from amaranth.hdl import Value
    fl, sig, sc = scenario or gen_stale_scenario(rng)
    rec = {"kind": "stale", "req": f"(flatten {ser_sv(fl, sig)})", "fl": fl, "sig": sig, "stale": sc}
    recs = [rec]
    try:
        SS = build_sig(sig, fl)
        resp = make_stale(SS, sc, ("intf",))
        rec["build"] = "ok"
    except Exception as e:
        rec["build"] = "error:" + errname(e) + ":" + str(e)[:80]
        return recs
    try:
        rec["top"] = impl_flatten(SS, resp)
    except Exception as e:
        rec["top"] = "error:" + errname(e)
    try:
        # identity: the signals reached through the proxy are the ones the wrapped object holds now
        cur = {tuple(p): id(Value.cast(container[key])) for p, container, key, _m in raw_leaves(resp, sig)}
        seen = {}
        for p, _m, v in SS.flatten(resp):
            seen.setdefault(tuple(p), []).append(id(Value.cast(v)))
        bad = sorted(pstr(p) for p in set(cur) | set(seen) if seen.get(p) != [cur.get(p)])
        rec["ident"] = bad
        pre = (sc["member"],) + tuple(sc["index"] if sc["how"] != "attr" and sc["how"] != "proxy" else ())
        rec["replaced_leaves"] = sum(1 for p in cur if p[:len(pre)] == pre)
    except Exception as e:
        rec["ident"] = "error:" + errname(e)
    try:
        rec["nested"] = impl_nested(resp, sig)
    except Exception as e:
        rec["nested"] = "error:" + errname(e)
    try:
        rec["compliant"] = "ok:" + str(int(SS.is_compliant(resp)))
    except Exception as e:
        rec["compliant"] = "error:" + type(e).__name__
    r = case_connect([(fl, sig, {}), (not fl, sig, {})], "stale-" + sc["how"], rng.randrange(1 << 30), True,
                     makers={0: lambda S, path: make_stale(S, sc, path)})
    r["stale"] = sc
    recs.append(r)
    return recs


# ------------------------------------------------------------------------------------------------
# worker

def work(seed, n_trees, n_tuples, n_meta, quick, n_hetero=0, n_reuse=0, n_annot=0, n_stale=0):
    import warnings
    warnings.filterwarnings("ignore")
    rng = random.Random(seed)
    recs = []
    for _ in range(n_trees):
        depth = rng.choice([1, 2, 2, 3, 3, 4])
        fl = rng.random() < .5
        sig = gen_sig(rng, depth, fl)
        recs.append(case_flatten(fl, sig))
        if "build_error" in recs[-1]:
            continue
        try:
            recs.append(case_create(fl, sig))
        except Exception as e:
            recs.append({"kind": "create", "req": f"(create {ser_sv(fl, sig)})", "fl": fl, "sig": sig,
                         "crash": errname(e) + ":" + str(e)[:100]})
        for dfl in (fl, not fl):
            try:
                recs.append(case_create_direct(dfl, sig))
            except Exception as e:
                recs.append({"kind": "create_direct", "req": f"(compliant {ser_sv(dfl, sig)} {ser_obj(direct_obj(dfl, sig))})",
                             "fl": dfl, "sig": sig, "crash": errname(e) + ":" + str(e)[:100]})
        base = create_obj(fl, sig)
        for _c in range(3):
            r = corrupt_obj(rng, base)
            if r is None:
                continue
            try:
                recs.append(case_compliant(fl, sig, r[0], r[1]))
            except Exception as e:
                recs.append({"kind": "compliant", "req": f"(compliant {ser_sv(fl, sig)} {ser_obj(r[1])})", "fl": fl,
                             "sig": sig, "label": r[0], "crash": errname(e) + ":" + str(e)[:100]})
    for _ in range(n_tuples):
        args = gen_tuple(rng, quick)
        recs.append(case_connect(args, "base", rng.randrange(1 << 30), True))
        # the same tuple, every argument made another way than `S.create()`
        recs.append(case_connect(args, "base", rng.randrange(1 << 30), True, routes=[rng.choice(ROUTES) for _ in args]))
        for label, a in corruptions(rng, args):
            sim = label in ("signedness", "add-const", "drop-const", "flip-port", "shuffle-members")
            recs.append(case_connect(a, label, rng.randrange(1 << 30), sim))
            if rng.random() < .3:
                recs.append(case_connect(a, label, rng.randrange(1 << 30), sim,
                                         routes=[rng.choice(("create",) + ROUTES) for _ in a]))
        if True:
            for _label, edit in obj_corruptions(rng, args):
                recs.append(case_connect_obj(args, edit, rng.randrange(1 << 30)))
    for i in range(n_meta):
        sig = gen_sig(rng, rng.choice([1, 2, 3, 4]), False, signed_bias=(i % 2 == 0))
        recs.append(case_meta(sig, i % 4 == 0, fl=rng.random() < .4))
    # (new streams come last, so that the cases above are what they were for a given seed)
    for _ in range(n_hetero):
        args, sites = gen_hetero(rng)
        info = {"n_in_only": len(sites["in"]), "n_one_output": len(sites["one"])}
        recs.append({**case_connect(args, "hetero-base", rng.randrange(1 << 30), True), "hetero": info})
        if rng.random() < .4:
            recs.append({**case_connect(args, "hetero-base", rng.randrange(1 << 30), True,
                                        routes=[rng.choice(("create",) + ROUTES) for _ in args]), "hetero": info})
        for label, a, where, sim in hetero_variants(rng, args, sites):
            recs.append({**case_connect(a, "hetero-" + label, rng.randrange(1 << 30), sim), "hetero": {**info, **where}})
    for _ in range(n_reuse):
        recs.extend(reuse_cases(rng))
    for _ in range(n_annot):
        recs.extend(annot_cases(rng))
    for _ in range(n_stale):
        recs.extend(stale_cases(rng))
    return recs


# ------------------------------------------------------------------------------------------------
# comparison (main process)

def args_class(args):
    """known-defect classes a connect tuple can hit"""
    cl = set()
    for fl, sig, _c in args:
        if f10_shaped(sig, fl):
            cl.add("F10")
        if has_iface_array(sig):
            cl.add("F13")
    return cl


def small(rec):
    keep = {k: v for k, v in rec.items() if k not in ("args",)}
    return keep


def run(chk):
    if not chk.lean():
        chk.not_shown("Lean build of Properties/C14 failed", chk.build_log[-3000:]); return
    quick = chk.tier == "quick"
    workers = min(16, os.cpu_count() or 4)
    n_jobs = workers * (1 if quick else 12)
    per = {"trees": 14 if quick else 40, "tuples": 9 if quick else 30, "meta": 6 if quick else 8,
           "hetero": 4 if quick else 16, "reuse": 3 if quick else 12, "annot": 3 if quick else 10,
           "stale": 5 if quick else 16}
    seeds = [chk.rng.randrange(1 << 30) for _ in range(n_jobs)]
    recs = []
    # fixed witnesses first: F10 (p19), F13, dims boundary (p16)
    inner = [("x", {"t": "port", "f": "o", "shape": {"k": "u", "w": 1}, "init": None, "dims": []})]
    mid = [("arr", {"t": "iface", "f": "o", "df": False, "sig": inner, "dims": [2]})]
    recs.append({**case_flatten(True, mid), "witness": "F10"})
    try:
        recs.append({**case_create(True, mid), "witness": "F10"})
    except Exception as e:
        recs.append({"kind": "create", "req": f"(create {ser_sv(True, mid)})", "fl": True, "sig": mid, "witness": "F10",
                     "crash": errname(e)})
    midB = [("arr", {"t": "iface", "f": "i", "df": False, "sig": inner, "dims": [2]})]
    recs.append({**case_connect([(False, mid, {}), (False, midB, {})], "witness-F13", 1, True), "witness": "F13"})
    dA = [("x", {"t": "port", "f": "o", "shape": {"k": "u", "w": 1}, "init": None, "dims": [2]})]
    dB = [("x", {"t": "port", "f": "i", "shape": {"k": "u", "w": 1}, "init": None, "dims": [3]})]
    recs.append({**case_connect([(False, dA, {}), (False, dB, {})], "witness-dims", 1, False), "witness": "dims"})
    # an input-only leaf (nobody drives `mode`) whose initial value / width differs between the arguments, beside a
    # properly connected leaf; two and three arguments
    def strap(f_data, w, init):
        return [("data", {"t": "port", "f": f_data, "shape": {"k": "u", "w": 8}, "init": None, "dims": []}),
                ("mode", {"t": "port", "f": "i", "shape": {"k": "u", "w": w}, "init": init, "dims": []})]
    for lbl, a in (("witness-inonly-init", [(False, strap("o", 4, 3), {}), (False, strap("i", 4, 5), {})]),
                   ("witness-inonly-width", [(False, strap("o", 4, None), {}), (False, strap("i", 5, None), {})]),
                   ("witness-inonly-init", [(False, strap("o", 3, 1), {}), (False, strap("i", 3, 1), {}),
                                            (False, strap("i", 3, 6), {})]),
                   ("witness-inonly-same", [(False, strap("o", 4, 3), {}), (False, strap("i", 4, 3), {})])):
        recs.append({**case_connect(a, lbl, 1, True), "witness": lbl[8:] + f"/{len(a)}",
                     "hetero": {"n_in_only": 1, "n_one_output": 1, "depth": 0, "below_iface_array": False,
                                "n_args": len(a), "changed_arg": "last"}})
    # one Member object used as a scalar in a signature that is flipped and connected, then `.array(4)` of it
    wR = Reuse(1)
    word = {"t": "port", "f": "o", "shape": {"k": "u", "w": 8}, "init": 3}
    ack = {"t": "port", "f": "i", "shape": {"k": "u", "w": 1}, "init": None, "dims": []}
    for step, wsig in enumerate(([("d", {**word, "dims": []}), ("ack", ack)], [("d", {**word, "dims": [4]}), ("ack", ack)])):
        tag = {"seed": 1, "step": step, "trees": [], "notes": {}, "preuse_errors": []}
        recs.append({**case_flatten(False, wsig, reuse=wR), "witness": f"reuse/{step}", "reuse": tag})
        recs.append({**case_connect([(False, wsig, {}), (True, wsig, {})], "witness-reuse", 1, True, reuse=wR),
                     "witness": f"reuse-connect/{step}", "reuse": tag})
    # annotated Component classes: the base class is instantiated first, then a subclass adding two members
    def u(f, w, init=None, dims=()):
        return {"t": "port", "f": f, "shape": {"k": "u", "w": w}, "init": init, "dims": list(dims)}
    link = [("valid", u("o", 1)), ("data", u("i", 4, 9))]
    asig = [("x", u("i", 1)), ("data", u("o", 8, 5)),
            ("a", {"t": "iface", "f": "o", "df": False, "sig": link, "dims": [2]}), ("y", u("o", 1))]
    wrng = random.Random(1)
    for r in annot_cases(wrng, (asig, [("Base", None, ["x", "data"], False), ("D1", 0, ["a", "y"], False)],
                                [0, 1, 0, 1], "base-first")):
        recs.append({**r, "witness": "annot"})
    # a kept proxy: used once, then a sub-interface attribute / an array element of the wrapped object replaced
    bus = [("a", u("o", 8)), ("b", u("i", 8, 1))]
    ssig = [("x", {"t": "iface", "f": "o", "df": False, "sig": bus, "dims": []}),
            ("y", {"t": "iface", "f": "o", "df": False, "sig": bus, "dims": [2]}), ("z9", u("i", 1))]
    for member, index, how in (("x", [], "attr"), ("y", [1], "elem")):
        for r in stale_cases(wrng, (False, ssig, {"route": "pure", "touch": "compliant", "member": member, "index": index,
                                                  "how": how, "twice": False})):
            recs.append({**r, "witness": "stale-" + how})
    recs = [r for r in recs if r is not None]
    with concurrent.futures.ProcessPoolExecutor(max_workers=workers) as ex:
        futs = [ex.submit(work, s, per["trees"], per["tuples"], per["meta"], quick, per["hetero"], per["reuse"],
                          per["annot"], per["stale"])
                for s in seeds]
        for f in futs:
            recs.extend(f.result())
    resps = chk.driver.ask([r["req"] for r in recs])
    viol = {}          # class -> count, to cap the number of reports per class
    stats = {}

    def report(kind, summary, rec, resp, classes, spec_broken):
        """spec_broken: impl != spec (a failing input of the property); else only the tie is broken"""
        key = (kind, tuple(sorted(classes)), spec_broken)
        viol[key] = viol.get(key, 0) + 1
        chk.hist("mismatches", f"{kind}/{'+'.join(sorted(classes)) or 'unclassified'}/{'spec' if spec_broken else 'model'}")
        if viol[key] > 2:
            return
        replay = {"case": small(rec), "driver": resp, "classes": sorted(classes)}
        if spec_broken:
            chk.violation(summary, replay)
        else:
            chk.not_shown(summary, replay)
            chk.extra.setdefault("tie_breaks", []).append({"summary": summary, "request": rec["req"][:1500],
                                                           "impl": {k: v for k, v in rec.items() if k in ("compliant", "label", "reasons", "impl", "flat", "flip", "obj")},
                                                           "driver": resp[:600]})

    n_sim = 0
    for rec, resp in zip(recs, resps):
        kind = rec["kind"]
        stats[kind] = stats.get(kind, 0) + 1
        chk.count(1)
        d = common.kv(resp)
        if resp.startswith("error"):
            raise common.Infra(f"driver rejected a request: {resp}: {rec['req'][:300]}")
        if rec.get("reuse") is not None:
            # built from reused Member objects; judged like every other case (object identity must not matter)
            ru = rec["reuse"]
            chk.hist("reuse_case", f"{kind}/step{ru['step']}" + (f"/{rec['label']}" if kind == "connect" else ""))
            for k_, n_ in ru["notes"].items():
                chk.hist("reuse_member", k_, n_)
            for err in ru["preuse_errors"]:
                report("reuse-preuse", f"a signature made of a reused Member object (and a fresh Out(1)) could not be flipped / "
                       f"flattened / connected with its flipped twin: {err}", rec, resp, set(), True)
            if kind == "flatten":
                nd = sum(1 for _n, m_ in rec["sig"] if m_["dims"])
                chk.hist("reuse_tree_members_with_dims", min(nd, 3))
        if rec.get("hetero") is not None:
            ht = rec["hetero"]
            chk.hist("hetero_label", rec["label"] + ("+routes" if rec.get("routes") else ""))
            chk.hist("hetero_leaf_patterns", f"in-only:{min(ht['n_in_only'], 3)}/one-output:{min(ht['n_one_output'], 3)}")
            if "depth" in ht and rec["label"].startswith(("hetero-inonly", "witness-inonly")):
                chk.hist("hetero_inonly_site", f"args:{ht['n_args']}/depth:{ht['depth']}/"
                         f"{'below-iface-array' if ht['below_iface_array'] else 'no-iface-array-above'}/changed:{ht['changed_arg']}")
                chk.hist("hetero_inonly_outcome", f"{rec['label']}: impl {rec['impl']['result']} / spec "
                         f"{'ok' if d['spec'].startswith('ok') else 'refused'}")
        if kind == "flatten":
            sig, fl = rec["sig"], rec["fl"]
            chk.distinct(("flatten", rec["req"]), nontrivial=bool(sig))
            chk.hist("depth", depth_of(sig)); chk.hist("top_flipped", fl)
            chk.hist("leaves", min(len(d["model"].split(";")) if d["model"] != "-" else 0, 30) // 5 * 5)
            if "build_error" in rec:
                report("build", f"Signature construction failed: {rec['build_error']}", rec, resp, set(), False)
                continue
            if d["model"] != d["spec"] or d["flip"] != d["specflip"]:
                chk.not_shown("model flatten differs from the spec on a concrete tree (theorem flatten_once/flip_leaf?)",
                              {"case": small(rec), "driver": resp})
            for key, mkey, skey, wrapped in (("flat", "model", "spec", fl), ("flip", "flip", "specflip", not fl)):
                if rec[key] != d[skey]:
                    classes = {"F10"} if (rec[key] == "error:F10:TypeError" and f10_shaped(sig, wrapped)) else set()
                    report("flatten", f"Signature.flatten of a created object ({'flipped view' if key == 'flip' else 'as given'}) "
                           f"is {rec[key][:80]!r}, the leaves are {d[skey][:80]!r}", rec, resp, classes, True)
                elif rec[key] != d[mkey]:
                    report("flatten", "flatten agrees with the spec but not with the model", rec, resp, set(), False)
            # the recursive member listing (what connect() walks) of the signature and of its flip: model only
            for key, ekey in (("flat_entries", "entries"), ("flip_entries", "flipentries")):
                if rec[key] != d[ekey]:
                    report("entries", f"members.flatten() of the {'flipped ' if key == 'flip_entries' else ''}signature lists "
                           f"{rec[key][:100]!r}, the model {d[ekey][:100]!r}", rec, resp, set(), False)
            if rec["flipflip"] is not True:
                report("flipflip", f"sig.flip().flip() is not sig: {rec['flipflip']}", rec, resp, set(), True)
            for m_ in port_members(sig):
                chk.hist("port_shape_kind", m_["shape"]["k"])
                _w, _sg, iv0 = shape_info(m_["shape"], None)
                chk.hist("port_init", "explicit" if m_["init"] is not None else
                         ("default:nonzero:" + m_["shape"]["k"] if iv0 != 0 else "default:0"))
            chk.hist("trees_with_nonzero_default_port", nz_default_ports(sig) > 0)
            # objects made in other ways than S.create(): PureInterface(S), a Component on S, and the flipped()
            # of those built on S.flip().  Same leaves, every sub-interface agrees about its own leaves, complies.
            for key, skey, vfl in (("flat", "spec", fl), ("flip", "specflip", not fl)):
                want_nested = expected_nested(sig, d[skey])
                for route, ob in rec["routes"][key].items():
                    dfl = route_direct_flipped(route, vfl)
                    how = (f"{route} on {'a flipped' if dfl else 'an unflipped'} signature" if dfl is not None else "create()") + \
                          f" for the {'flipped ' if key == 'flip' else ''}signature"
                    chk.hist("object_route", f"{route}/{'direct-on-flipped' if dfl else 'direct-on-plain' if dfl is not None else 'create'}"
                                             f"/{'sub-ifaces' if has_iface(sig) else 'no-sub-ifaces'}")
                    if "build" in ob:
                        report("route", f"building an interface object ({how}) failed: {ob['build']}", rec, resp, set(), True)
                        continue
                    f10c = lambda txt: ({"F10"} if ("F10:TypeError" in txt and has_iface_array(sig)) else set())
                    if ob["top"] != d[skey]:
                        report("route-flatten", f"Signature.flatten of an object made by {how} is {ob['top'][:80]!r}, "
                               f"the leaves are {d[skey][:80]!r}", {**rec, "route": route, "view": key}, resp, f10c(ob["top"]), True)
                    if ob["nested"] != want_nested:
                        report("route-nested", f"sub-interfaces of an object made by {how} report their own leaves as "
                               f"{ob['nested'][:100]!r}, the leaves of the whole below them are {want_nested[:100]!r}",
                               {**rec, "route": route, "view": key, "expected_nested": want_nested}, resp, f10c(ob["nested"]), True)
                    if ob["compliant"] != "ok:1":
                        report("route-compliant", f"an object made by {how} does not comply with it: is_compliant gives "
                               f"{ob['compliant']}", {**rec, "route": route, "view": key}, resp,
                               {"F10"} if (ob["compliant"] == "error:TypeError" and has_iface_array(sig)) else set(), True)
            if len(chk.cov["samples"]) < 2:
                chk.sample({"request": rec["req"][:400], "impl": rec["flat"][:300], "driver": resp[:300]})
        elif kind == "create":
            sig, fl = rec["sig"], rec["fl"]
            chk.distinct(("create", rec["req"]), nontrivial=bool(sig))
            f10 = f10_shaped(sig, fl)
            chk.hist("f10_shaped", f10)
            if "crash" in rec:
                report("create", f"create() crashed: {rec['crash']}", rec, resp, {"F10"} if f10 else set(), True)
                continue
            mobj = resp.split(" obj=", 1)[1]
            if rec["obj"] != mobj:
                report("create", "the object made by create() is not the model's", rec, resp, set(), False)
            if rec["mirror"] != mobj:
                raise common.Infra("harness mirror of create differs from the model: " + rec["req"][:300])
            if (d["old"] == "error:TypeError") != f10:
                raise common.Infra("F10 classifier disagrees with the model of the old accessor: " + rec["req"][:300])
            if rec["compliant"] != "ok:1":          # the property: created objects comply
                classes = {"F10"} if (rec["compliant"] == "error:TypeError" and f10) else set()
                report("create", f"sig.is_compliant(sig.create()) gives {rec['compliant']}", rec, resp, classes, True)
            elif rec["compliant"] != d["model"]:
                report("create", "is_compliant(create()) true, model disagrees", rec, resp, set(), False)
        elif kind == "create_direct":
            sig, fl = rec["sig"], rec["fl"]
            chk.distinct(("create_direct", rec["req"]), nontrivial=bool(sig))
            chk.hist("create_direct", f"{'flipped' if fl else 'plain'}-sig/{'sub-ifaces' if has_iface(sig) else 'no-sub-ifaces'}")
            if "crash" in rec:
                report("create-direct", f"building an object directly on a signature crashed: {rec['crash']}", rec, resp, set(), True)
                continue
            if d["model"] != "ok:1":
                raise common.Infra("harness mirror of a directly built object does not comply in the model: " + rec["req"][:300])
            for route, ob in rec["objs"].items():
                what = {"pure": "PureInterface(S)", "comp": "a Component with signature S"}[route] + \
                       f" (S {'flipped' if fl else 'not flipped'})"
                if "crash" in ob:
                    report("create-direct", f"{what} crashed: {ob['crash']}", rec, resp, set(), True)
                    continue
                if ob["compliant"] != "ok:1":          # the property: created objects comply
                    report("create-direct", f"S.is_compliant({what}) gives {ob['compliant']}", {**rec, "route": route}, resp,
                           {"F10"} if (ob["compliant"] == "error:TypeError" and has_iface_array(sig)) else set(), True)
                elif ob["obj"] != rec["mirror"]:
                    report("create-direct", f"{what} is not the object the model's members.create() gives", {**rec, "route": route},
                           resp, set(), False)
        elif kind == "compliant":
            sig, fl = rec["sig"], rec["fl"]
            chk.distinct(("compliant", rec["req"]))
            chk.hist("obj_corruption", rec["label"])
            if "crash" in rec:
                report("compliant", f"building the corrupted object crashed: {rec['crash']}", rec, resp, set(), False)
                continue
            chk.hist("compliant_result", d["model"])
            if rec["compliant"] != d["model"]:
                f10 = rec["compliant"] == "error:TypeError" and d["old"] == "error:TypeError"
                report("compliant", f"is_compliant of a corrupted object ({rec['label']}) gives {rec['compliant']}, "
                       f"model {d['model']}", rec, resp, {"F10"} if f10 else set(), f10)
            elif rec["compliant"] == "ok:0" and rec["reasons"] == 0:
                report("compliant", "is_compliant is False but gives no reason", rec, resp, set(), False)
        elif kind == "connect":
            args = rec["args"]
            impl = rec["impl"]
            routes = rec.get("routes")
            extra_key = repr(rec.get("annot") or rec.get("stale") or "")
            chk.distinct(("connect", rec["req"], tuple(routes or ()), extra_key), nontrivial=any(a[1] for a in args))
            if rec.get("annot") is not None:
                chk.hist("annot_connect", f"{'base' if rec['annot']['class'] == 'Base' else 'subclass'}/{rec['annot']['pattern']}: "
                                          f"impl {impl['result']}")
            if rec.get("stale") is not None:
                chk.hist("stale_proxy_connect", f"touch:{rec['stale']['touch']}/replace:{rec['stale']['how']}: impl {impl['result']}")
            chk.hist("connect_label", rec["label"] + ("+routes" if routes else "")); chk.hist("n_args", len(args))
            for h_, r_ in enumerate(routes or []):
                dfl = route_direct_flipped(r_, args[h_][0])
                chk.hist("connect_arg_route", f"{r_}/{'direct-on-flipped' if dfl else 'direct-on-plain' if dfl is not None else 'create'}"
                                              f"/{'sub-ifaces' if has_iface(args[h_][1]) else 'no-sub-ifaces'}")
            chk.hist("connect_nonzero_default_port", any(nz_default_ports(a[1]) > 0 for a in args))
            chk.hist("model_result", d["model"].split(":")[0] + (":" + d["model"].split(":")[1] if d["model"].startswith("error") else ""))
            mres = d["model"]; sres = d["spec"]
            mconns = sorted(mres[3:].split(";")) if mres.startswith("ok:") and mres != "ok:-" else []
            sconns = sorted(sres[3:].split(";")) if sres.startswith("ok:") and sres != "ok:-" else []
            if (mres.startswith("ok")) != (sres.startswith("ok")) or (mres.startswith("ok") and mconns != sconns):
                chk.not_shown("model connect differs from the spec on a concrete tuple (theorem connect_refines?)",
                              {"case": rec["req"][:2000], "driver": resp})
            known = args_class(args)
            ir = impl["result"]
            iclass = "ok" if ir == "ok" else ("refused" if ir.split(":", 1)[1] in
                     ("missing", "kind", "width", "init", "several", "constVarying", "constMismatch", "onlyInputs", "dims")
                     else ir)
            sclass = "ok" if sres.startswith("ok") else "refused"
            classes = set()
            if "F10:" in ir and "F10" in known:
                classes = {"F10"}
            if "F13:" in ir and "F13" in known:
                classes = {"F13"}
            if iclass != sclass:
                report("connect", f"connect() [{rec['label']}] gives {ir}, the description says {sclass}"
                       + (f" ({impl.get('msg', '')[:80]})" if "msg" in impl else ""), rec, resp, classes, True)
            elif ir == "ok":
                if impl["conns"] != sconns:
                    report("connect", f"connect() [{rec['label']}] made {impl['conns'][:4]}…, "
                           f"the description says {sconns[:4]}…", rec, resp, set(), True)
                elif impl["conns"] != mconns:
                    report("connect", "connections agree with the spec but not the model", rec, resp, set(), False)
            else:
                mk = mres.split(":", 1)[1] if mres.startswith("error:") else "ok"
                if ir.split(":", 1)[1] != mk:
                    report("connect", f"connect() [{rec['label']}] raises for {ir}, the model's walk stops at {mk}",
                           rec, resp, set(), False)
            # argument order
            perm = rec.get("perm")
            if perm is not None:
                pr = perm["result"]
                same = (pr == "ok") == (ir == "ok") and (pr != "ok" or perm.get("conns") == impl.get("conns"))
                pcl = "ConnectionError" if pr.split(":")[-1] in ("missing", "kind", "width", "init", "several", "constVarying",
                                                                  "constMismatch", "onlyInputs") else pr
                icl = "ConnectionError" if ir.split(":")[-1] in ("missing", "kind", "width", "init", "several", "constVarying",
                                                                  "constMismatch", "onlyInputs") else ir
                if pr != "ok" and ir != "ok" and "dims" in (pr.split(":")[-1], ir.split(":")[-1]) and pcl != icl:
                    # boundary (DESIGN §5): members differing in array dimensions assert; which of the two
                    # complaints comes first depends on the order.  connect_perm is about acceptance.
                    chk.hist("perm_dims_boundary", f"{icl} vs {pcl}")
                elif not same or (pr != "ok" and pcl != icl and not (classes or {"F10", "F13"} & known)):
                    report("connect-perm", f"argument order {rec['order']} changes the outcome: {ir} vs {pr}", rec, resp,
                           classes, True)
            # simulation: data flows from each output leaf to each input leaf
            if impl.get("sim") == "ran" and sres.startswith("ok"):
                n_sim += 1
                info, setv, readv = impl["leafinfo"], impl["set"], impl["read"]
                bad = []
                driven = {}
                for c in sconns:
                    lhs, rhs = c.split("<-")
                    driven[lhs] = rhs
                for k, (lkind, w, iv, is_out) in info.items():
                    if lkind != "signal":
                        continue
                    mask = (1 << w) - 1
                    if k in driven:
                        src = driven[k]
                        skind, sw, siv, _so = info[src]
                        exp = (siv & mask) if skind == "const" else (setv.get(src, siv & mask) & mask)
                    elif k in setv:
                        exp = setv[k]
                    else:
                        exp = iv & mask
                    if readv[k] != exp:
                        bad.append((k, readv[k], exp))
                    if k in driven and is_out:
                        bad.append((k, "output leaf is driven", driven[k]))
                if bad:
                    report("dataflow", f"after connect() [{rec['label']}] leaf {bad[0][0]} reads {bad[0][1]}, expected {bad[0][2]}",
                           {**rec, "bad": bad[:5]}, resp, set(), True)
            elif str(impl.get("sim", "")).startswith("error"):
                report("dataflow", f"simulation after connect() failed: {impl['sim']}", rec, resp, set(), True)
            if rec.get("witness"):
                chk.extra.setdefault("witnesses", {})[rec["witness"]] = {"impl": ir, "model": mres[:60], "spec": sres[:60]}
            if len(chk.cov["samples"]) < 5 and rec["label"] != "base":
                chk.sample({"request": rec["req"][:400], "label": rec["label"], "impl": ir, "driver": resp[:200]})
        elif kind == "connect_obj":
            chk.distinct(("connect_obj", rec["req"], tuple(rec["edit"])))
            chk.hist("obj_side_corruption", f"{rec['label']}/{'view:' + rec['shape_kind'] if rec['view_leaf'] else 'signal'}")
            if "crash" in rec:
                report("connect-obj", f"building the corrupted tuple crashed: {rec['crash']}", rec, resp, set(), False)
                continue
            if d["model"] != "ok:0":
                raise common.Infra("object-side corruption left the object compliant in the model: " + rec["req"][:300])
            impl, perm = rec["impl"], rec["perm"]
            where = f"leaf {rec['edit'][1]} of argument {rec['edit'][0]} ({rec['shape_kind']}-shaped" + \
                    (", held in a view" if rec["view_leaf"] else "") + ")"
            if impl.get("compliant") != "ok:0":
                report("connect-obj", f"[{rec['label']}] {where} replaced by a signal with "
                       f"{'initial value ' + str(rec['edit'][4]) if rec['label'] == 'obj-init' else 'width ' + str(rec['edit'][3])}: "
                       f"is_compliant gives {impl.get('compliant')}", rec, resp, set(), True)
            for which, r in (("given order", impl), ("reversed order", perm)):
                if r["result"] != "error:notCompliant":
                    report("connect-obj", f"[{rec['label']}] {where} no longer matches its signature, but connect() "
                           f"({which}) gives {r['result']} instead of ConnectionError", rec, resp, set(), True)
        elif kind == "annot":
            sig, an = rec["sig"], rec["annot"]
            chk.distinct(("annot", rec["req"], an["hierarchy"], an["class"], tuple(an["instantiated_before"])), nontrivial=True)
            role = "base" if an["class"] == "Base" else "redefining-subclass" if an["redefines"] else \
                   "subclass-without-annotations" if not an["own"] else "subclass"
            chk.hist("annot_hierarchy", an["hierarchy"]); chk.hist("annot_order", an["pattern"])
            chk.hist("annot_instance", f"{role}/{'an-ancestor-instantiated-before' if an['ancestor_before'] else 'no-ancestor-instantiated-before'}"
                                       f"/{'first' if an['nth'] == 0 else 'repeated'}")
            who = (f"Component class {an['class']} of the hierarchy {an['classes']} (instantiated before: "
                   f"{an['instantiated_before']})")
            if an["redefines"]:
                chk.hist("annot_outcome", rec["build"].split(":")[1] if rec["build"] != "ok" else "ok")
                if not rec["build"].startswith("error:NameError"):
                    report("annot", f"{who} redefines the member {an['own'][0]!r} of a base class; instantiating it gives "
                           f"{rec['build'][:60]} (members {rec.get('names')}), not NameError", rec, resp, set(), True)
                continue
            chk.hist("annot_outcome", rec["build"].split(":")[1] if rec["build"] != "ok" else "ok")
            if rec["build"] != "ok":
                report("annot", f"instantiating {who} failed: {rec['build']}", rec, resp, set(), True)
                continue
            f10c = lambda txt: ({"F10"} if ("F10:TypeError" in str(txt) and has_iface_array(sig)) else set())
            want_names = sorted(n for n, _m in sig)
            if rec["names"] != want_names:
                report("annot", f"{who}: signature members are {rec['names']}, the annotations along its MRO declare "
                       f"{want_names}", rec, resp, set(), True)
            for key, through in (("top", "its own signature"), ("top_expected", "the signature its annotations describe")):
                if rec[key] != d["spec"]:
                    report("annot", f"{who}: flatten through {through} gives {rec[key][:80]!r}, the leaves are "
                           f"{d['spec'][:80]!r}", rec, resp, f10c(rec[key]), True)
            want_nested = expected_nested(sig, d["spec"])
            if rec["nested"] != want_nested:
                report("annot", f"{who}: sub-interfaces report their own leaves as {rec['nested'][:100]!r}, below them are "
                       f"{want_nested[:100]!r}", {**rec, "expected_nested": want_nested}, resp, f10c(rec["nested"]), True)
            if rec["compliant"] != "ok:1":
                report("annot", f"{who}: does not comply with the signature its annotations describe: {rec['compliant']}",
                       rec, resp, {"F10"} if (rec["compliant"] == "error:TypeError" and has_iface_array(sig)) else set(), True)
            if rec["meta"] != d["meta"]:
                report("annot", f"{who}: as_json() ports {rec['meta'][:80]!r} are not the leaves {d['meta'][:80]!r}", rec, resp,
                       f10c(rec["meta"]), True)
            elif rec["valid"] is not True:
                report("annot", f"{who}: as_json() output does not validate against the schema: {rec['valid']}", rec, resp,
                       set(), True)
        elif kind == "stale":
            sig, fl, sc = rec["sig"], rec["fl"], rec["stale"]
            chk.distinct(("stale", rec["req"], repr(sorted(sc.items()))), nontrivial=True)
            chk.hist("stale_proxy_scenario", f"{sc['route']}/touch:{sc['touch']}/replace:{sc['how']}"
                                             + (":" + sc["deep_how"] if sc["how"] == "deep" else "") + ("/twice" if sc["twice"] else ""))
            chk.hist("stale_proxy_replaced_leaves", min(rec.get("replaced_leaves", -1), 8))
            what = (f"kept proxy flipped(intf) ({sc['route']}), used by {sc['touch']!r}, then {sc['member']!r}{sc['index']} of intf "
                    f"replaced ({sc['how']}" + (", twice" if sc["twice"] else "") + ")")
            if rec["build"] != "ok":
                report("stale", f"{what}: the scenario could not be built: {rec['build']}", rec, resp,
                       {"F10"} if ("F10:" in rec["build"] and has_iface_array(sig)) else set(), True)
                continue
            f10c = lambda txt: ({"F10"} if ("F10:TypeError" in str(txt) and has_iface_array(sig)) else set())
            if rec["top"] != d["spec"]:
                report("stale", f"{what}: flatten through the proxy gives {rec['top'][:80]!r}, the leaves are {d['spec'][:80]!r}",
                       rec, resp, f10c(rec["top"]), True)
            if rec["ident"] != []:
                report("stale", f"{what}: flatten through the proxy does not reach the signals the wrapped object holds now, at "
                       f"{rec['ident'][:4] if isinstance(rec['ident'], list) else rec['ident']}", rec, resp, f10c(rec["ident"]), True)
            want_nested = expected_nested(sig, d["spec"])
            if rec["nested"] != want_nested:
                report("stale", f"{what}: sub-interfaces reached through the proxy report {rec['nested'][:100]!r}, below them are "
                       f"{want_nested[:100]!r}", {**rec, "expected_nested": want_nested}, resp, f10c(rec["nested"]), True)
            if rec["compliant"] != "ok:1":
                report("stale", f"{what}: the proxy does not comply with its signature: {rec['compliant']}", rec, resp,
                       {"F10"} if (rec["compliant"] == "error:TypeError" and has_iface_array(sig)) else set(), True)
        elif kind == "meta":
            chk.distinct(("meta", rec["req"]), nontrivial=bool(rec["sig"]))
            chk.hist("meta_component_signature", "flipped" if rec["fl"] else "plain")
            chk.hist("meta_nonzero_default_port", nz_default_ports(rec["sig"]) > 0)
            for tok in (d["meta"].split(";") if d["meta"] != "-" else []):
                _dir, w, sg, iv = tok.split("=")[1].split(":")
                if sg == "s":
                    w, iv = int(w), int(iv)
                    chk.hist("meta_signed_init", "min" if iv == -(1 << (w - 1)) else "max" if iv == (1 << (w - 1)) - 1
                             else "-1" if iv == -1 else "0" if iv == 0 else "other")
            if rec["meta"].startswith("error"):
                classes = {"F10"} if ("F10:" in rec["meta"] and f10_shaped(rec["sig"], rec["fl"])) else set()
                report("meta", f"metadata.as_json() failed: {rec['meta'][:100]}", rec, resp, classes, True)
                continue
            if rec["meta"] != d["meta"]:
                report("meta", f"as_json() ports {rec['meta'][:80]!r} are not the leaves {d['meta'][:80]!r}", rec, resp, set(), True)
            if rec["valid"] is not True:
                report("meta", f"as_json() output does not validate against the schema: {rec['valid']}", rec, resp, set(), True)
            if rec.get("mutant_rejected") is False:
                report("meta", "schema validation accepts dir='inout' (validation is vacuous)", rec, resp, set(), True)
    # boundary (recorded, not judged): initial values outside the member's shape
    try:
        from amaranth.hdl import unsigned, signed
        from amaranth.lib import wiring
        bnd = {}
        for sh, init in ((unsigned(4), -1), (unsigned(2), 5), (signed(4), 9)):
            sg = wiring.Signature({"x": wiring.Out(sh, init=init)})
            bnd[f"Out({sh!r}, init={init})"] = {"create_complies": sg.is_compliant(sg.create()),
                                               "member_const": sg.members["x"]._init_as_const.value,
                                               "signal_init": sg.create().x.init}
        chk.extra["boundary_init_out_of_range"] = bnd
    except Exception as e:
        chk.extra["boundary_init_out_of_range"] = "error:" + errname(e)
    chk.extra["cases_by_kind"] = stats
    chk.extra["simulated_connects"] = n_sim
    chk.extra["exhaustive"] = {"witnesses": "F10 (p19), F13 (repro c14_connect_array_of_interfaces), dims boundary (p16), input-only leaf with "
                                            "differing init / width (2 and 3 arguments) and its matching control, Member object reused "
                                            "scalar-then-array, annotated Base-then-subclass hierarchy and kept-proxy replacement "
                                            "(attribute + array element after a first use) run on every invocation",
                               "corruption kinds": "every kind listed under distribution.connect_label / obj_corruption at one random site per tuple"}
    chk.cov["rule"] = ("random signature trees (depth<=4, <=2 dims incl. 0, 12 names, shapes: unsigned/signed/int/range/StructLayout/"
                       "UnionLayout/ArrayLayout/Enum(un/signed)/Struct and Union classes with field defaults/custom ShapeCastable with "
                       "a non-zero default, inits incl. none); per tree: flatten of sig and sig.flip(), create+is_compliant, 3 corrupted "
                       "objects; for sig and sig.flip() each, objects made by create(), PureInterface(S), Component(S), "
                       "flipped(PureInterface(S.flip())), flipped(Component(S.flip())): flatten, every sub-interface's own flatten, "
                       "is_compliant; structure of PureInterface(S)/Component(S) against the mirror of members.create(); "
                       "per tuple (2-4 args = tree + flipped twins, constants): connect + every single-point corruption kind, "
                       "each also in a permuted order, simulation of accepted ones; the base tuple again (and 30% of the corrupted ones) "
                       "with the arguments made by those other routes; "
                       "heterogeneous tuples (2-4 args, NOT flipped twins: every argument has its own top-level view and its own In/Out "
                       "+ proxy flag at each sub-interface member; per leaf either exactly one argument sees an output or all see an "
                       "input) + single-point changes in one argument on an input-only leaf (width, init, signedness, dims, becomes "
                       "an output) and on a driven leaf (width, init, second output, loses its output), nested and below arrays of "
                       "sub-interfaces; signatures built from REUSED Member objects (pool of scalar Member objects per scenario, used "
                       "scalar first, flipped / seen through a flipped signature / flattened / connected / used as a Component "
                       "annotation, then .array(n) / .array(n, m) / .array(m).array(n) taken from the same object) in sequences of "
                       "2-3 signatures: flatten of both views by all routes, members.flatten() listing, create+is_compliant, connect "
                       "with flipped twins + simulation, all judged against the abstract tree; "
                       "component metadata on plain and flipped signatures; "
                       "Component classes built from variable annotations WITH INHERITANCE (Base with >=1 member; D1(Base), sibling "
                       "D2(Base) possibly declaring the same names, E(D1), Mid(Base) without annotations + F(Mid), R(any) redefining an "
                       "inherited member -> NameError), instantiated base-first / derived-first / base-never / at random, with "
                       "repetitions: per instance member names, flatten through its own and through an independently written expected "
                       "signature, sub-interfaces' own flatten, is_compliant, metadata + schema; then connect of an instance of every "
                       "instantiated class with flipped(expected).create() + simulation; "
                       "kept FlippedInterface proxies (flipped(PureInterface(S.flip())) / flipped(Component(S.flip()))): used by "
                       "none / is_compliant / flatten / getattr / a sub-interface's flatten / connect, then a sub-interface member of "
                       "the WRAPPED object replaced by that of a second object of the same signature (whole attribute, one array "
                       "element, a sub-sub-interface one level down, or - control - by assignment through the proxy), once or twice, "
                       "then flatten (leaves and identity of the signals against raw navigation of the wrapped object), "
                       "sub-interfaces' own flatten, is_compliant, connect with the flipped twin + simulation; "
                       "plus object-side corruptions (a leaf signal of one "
                       "created interface replaced by one with another init / width, at a random leaf and at view-held "
                       "(Struct/Union/ArrayLayout/Enum) leaves): is_compliant False and ConnectionError in both orders; "
                       "metadata trees are half signed-biased with inits at min/max/-1/0; distinct = distinct request line; "
                       "non-trivial = non-empty signature")
    chk.assumptions += [
        "Signature.__eq__ is modelled structurally and order-sensitively (the harness never reorders members); "
        "Member.__eq__ comparing the raw init (None vs 0) is not modelled",
        "initial values are generated within the range of the member's shape: for plain shapes Member.__init__ keeps the raw "
        "value while Signal normalises it, so Out(unsigned(4), init=-1).create() does not comply (Signal warns about such inits)",
        "signature subclasses with custom create()/__eq__/annotations are not generated (anonymous Signature only)",
        "annotated Component hierarchies use single inheritance only (chains and siblings below one base; no mixins, no "
        "multiple inheritance); their classes are made with type(name, bases, {'__annotations__': ...}); the expected members of "
        "a class are the annotations of its bases, base first, then its own (Component.__init__'s walk of the reversed MRO)",
        "kept-proxy scenarios replace sub-interfaces only by structurally identical ones (taken from a second object built on "
        "the same signature); replacing by non-compliant values through a kept proxy is not exercised",
        "connect() keyword arguments (handles by name) are not exercised; handles are positions",
        "metadata schema validation uses ComponentMetadata.validate (jschon, local 2020-12 catalog; no network needed)",
        "the constant value of layouts/enums as a port's initial value is recomputed by the harness (struct/union/array packing; "
        "for Struct/Union classes: field defaults overridden by the fields the initial value names; custom ShapeCastable: its default)",
        "the object built directly on a signature (PureInterface(S), Component(S)) has no Lean definition of its own: its expected "
        "structure is the harness mirror `direct_obj`, which the model's isCompliant must accept (else Infra); its leaves and "
        "compliance are judged against the model/spec of S",
    ]
    chk.extra["trusted_base"] = ["harness: abstract tree -> amaranth objects (build_sig) and -> driver request (ser_sig) are two "
                                 "independent walks of the same tree"]
