"""C16 - CRC software and hardware agree with the Williams model for all parameters.

Order of a run (DESIGN 3): regenerate Generated/CrcCatalog.lean from the working tree of the repo ->
build + audit Properties/C16 and the driver -> correspondence:

  A  every catalogue name x data widths {1,3,8,crc_width,crc_width+5} x random messages : real
     `Parameters.compute` vs model `compute` vs Williams spec; check string and residue of every entry
     against the published values;
  B  random non-catalogue parameter sets (incl. even / zero polynomials, data words wider than the CRC);
  C  malformed stream: constructor range checks and out-of-range data words, compared as error kinds;
  D  `residue()` and `_matrices()` vs model (matrices are an internal observable);
  F  the real `Processor` simulated with random start/valid/data patterns: `crc` and `match_detected`
     after every clock edge vs `hwStep`, `crc` vs the Williams CRC of the words since the last start,
     `match_detected` vs "the words since start are a message followed by its own CRC";
  G  match detection: message + true trailer (transmission order, computed here independently of the
     driver) and every single-bit-corrupted trailer, and for even polynomials the trailer corrupted
     by the kernel word of the one-bit step (theorem even_poly_false_match).

  A' every software case again with the words in another container form (tuple, bytes, bytearray,
     generator, iter(list), map, re-iterable class, one-shot iterator class, deque, range): `data` is an
     iterable of int, the CRC depends on the sequence of words only;
  M  sequences on one `Algorithm` object: algo(w) used (compute / residue / simulated Processor), attributes
     reassigned, algo(w) used again with the same and with other data widths; every use against the model
     for the attribute values in force at that moment.

A false match with an even polynomial is the recorded finding class "C16-even-poly".
"""
import concurrent.futures
import os

from .. import common
from .. import gen_crc_catalog as gen

LEVEL = "proof"
EXE = "amodel_c16"
FINDING = "C16-even-poly"
FINDING_TEXT = ("Algorithm() accepts even polynomials, for which match_detected is also asserted after a "
                "corrupted trailer (the one-bit step is not injective); odd polynomials never")

SIZES = {
    #            msgs/combo  random-sw  malformed  residues  mats  hw-runs  match-cases  workers
    "quick":    dict(msgs=2, rnd=1500, bad=300, res=150, mats=60, hw=160, match=60, workers=16, rng=120, mut=100),
    "thorough": dict(msgs=12, rnd=15000, bad=3000, res=1500, mats=600, hw=1800, match=500, workers=16, rng=1200,
                     mut=1500),
}


# ------------------------------------------------------------------------------------------------
# helpers

def reflect(x, n):
    return int(f"{x:0{n}b}"[::-1], 2) if n else 0


def ptuple(a):
    return (a.crc_width, a.polynomial, a.initial_crc, int(a.reflect_input), int(a.reflect_output), a.xor_output)


def pstr(t):
    return " ".join(str(x) for x in t)


def mk_algo(t):
    from amaranth.lib.crc import Algorithm
    return Algorithm(crc_width=t[0], polynomial=t[1], initial_crc=t[2], reflect_input=bool(t[3]),
                     reflect_output=bool(t[4]), xor_output=t[5])


def trailer_words(t, dw, c):
    """CRC value `c` in transmission order as words of dw bits (harness' own reading of the property):
    the register's most significant bit goes first, i.e. c MSB-first without reflect_output, LSB-first
    with it; every word is laid out so that the processor (reflect_input) consumes its bits in that order"""
    w, refin, refout = t[0], t[3], t[4]
    bits = [(c >> i) & 1 for i in range(w)]
    if not refout:
        bits.reverse()
    words = []
    for i in range(w // dw):
        chunk = bits[i * dw:(i + 1) * dw]
        if refin:
            words.append(sum(b << j for j, b in enumerate(chunk)))
        else:
            words.append(sum(b << (dw - 1 - j) for j, b in enumerate(chunk)))
    return words


def corrupt_value(t, e_reg):
    """error pattern on the register side -> error pattern on the CRC value"""
    return reflect(e_reg, t[0]) if t[4] else e_reg


def rand_params(rng, wmax=40, even=None):
    r = rng.random()
    w = rng.randint(1, 8) if r < 0.35 else rng.randint(9, wmax) if r < 0.9 else rng.randint(wmax, 2 * wmax)
    poly = rng.getrandbits(w)
    if even is None:
        even = rng.random() < 0.25
    if even:
        poly &= ~1
        if rng.random() < 0.15:
            poly = 0
    else:
        poly |= 1
    pick = lambda: rng.choice([0, (1 << w) - 1, rng.getrandbits(w), rng.getrandbits(w)])
    return (w, poly, pick(), int(rng.random() < .5), int(rng.random() < .5), pick())


def rand_dw(rng, w):
    r = rng.random()
    if r < 0.2:
        return rng.choice([1, 3, 8, w, w + 5])
    if r < 0.6:
        return rng.randint(1, max(1, w))
    return rng.randint(1, w + 12)


def rel(dw, w):
    return "dw<w" if dw < w else "dw=w" if dw == w else "dw>w"


# ------------------------------------------------------------------------------------------------
# the word sequence handed to `compute` in several container forms ("data: iterable of int"): the CRC is a
# function of the sequence of words, not of the Python object that carries it

class _Iterable:
    """re-iterable, but neither a sequence (no __len__ / __getitem__) nor its own iterator"""
    def __init__(self, ws):
        self._ws = list(ws)

    def __iter__(self):
        return iter(list(self._ws))


class _Iterator:
    """one-shot: its own iterator, a second pass sees nothing"""
    def __init__(self, ws):
        self._ws = list(ws)
        self._i = 0

    def __iter__(self):
        return self

    def __next__(self):
        if self._i >= len(self._ws):
            raise StopIteration
        self._i += 1
        return self._ws[self._i - 1]


FORMS = ["tuple", "bytes", "generator", "iter", "bytearray", "map", "iterable-class", "iterator-class", "deque"]
ONE_SHOT = {"generator", "iter", "map", "iterator-class"}


def as_range(ws):
    """the range object that yields exactly ws, or None"""
    if len(ws) == 0:
        return range(0)
    if len(ws) == 1:
        return range(ws[0], ws[0] + 1)
    step = ws[1] - ws[0]
    if step == 0:
        return None
    r = range(ws[0], ws[-1] + (1 if step > 0 else -1), step)
    return r if list(r) == list(ws) else None


def form_legal(ws, form):
    if form in ("bytes", "bytearray"):
        return all(type(x) is int and 0 <= x <= 255 for x in ws)
    if form == "range":
        return as_range(ws) is not None
    return True


def as_form(ws, form):
    import collections
    ws = list(ws)
    if form == "list":
        return ws
    if form == "tuple":
        return tuple(ws)
    if form == "bytes":
        return bytes(ws)
    if form == "bytearray":
        return bytearray(ws)
    if form == "generator":
        return (x for x in ws)
    if form == "iter":
        return iter(ws)
    if form == "map":
        return map(lambda x: x, ws)
    if form == "iterable-class":
        return _Iterable(ws)
    if form == "iterator-class":
        return _Iterator(ws)
    if form == "deque":
        return collections.deque(ws)
    if form == "range":
        return as_range(ws)
    raise AssertionError(form)


def alt_forms(i, kind, ws):
    """the container forms (besides the list) in which case number i is also handed to compute"""
    out = ["range"] if kind == "range" else []
    for k in range(2 if kind == "check" else 1):
        for j in range(len(FORMS)):
            f = FORMS[(i + k * 3 + j) % len(FORMS)]
            if form_legal(ws, f) and f not in out:
                out.append(f)
                break
    return out


# ------------------------------------------------------------------------------------------------
# sequences on ONE Algorithm object: algo(w) used, an attribute reassigned, algo(w) used again. `algo(w)` is
# "Parameters(self, data_width)" of the algorithm as it is *now*.

ATTRS = ["crc_width", "polynomial", "initial_crc", "reflect_input", "reflect_output", "xor_output"]


def gen_mutation_sequence(rng, start, hw_share):
    """-> (t0, steps); steps: ("set", {attr: value}) | ("sw", dw, words) | ("res", dw) | ("hw", dw, script);
    and the parameter tuple in force at every step"""
    cur = list(start)
    steps, at = [], []
    used = []

    def uses():
        for _ in range(rng.randint(1, 3)):
            w = cur[0]
            if used and rng.random() < 0.7:
                dw = rng.choice(used)
            else:
                dw = rng.choice([8, 8, 1, 3, w, w + 5, rng.randint(1, w + 4)])
                if w > 32 and dw > 32:
                    dw = 8
                used.append(dw)
            r = rng.random()
            if r < hw_share:
                script = []
                for c in range(rng.randint(5, 12)):
                    script.append((int(c == 0 or rng.random() < .1), int(rng.random() < .8),
                                   rng.choice([0, (1 << dw) - 1, rng.getrandbits(dw), rng.getrandbits(dw)])))
                steps.append(("hw", dw, script))
            elif r < hw_share + 0.12:
                steps.append(("res", dw))
            else:
                n = rng.choice([0, 1, 2, 3, 5, 9]) if dw > 1 else rng.randint(0, 30)
                steps.append(("sw", dw, [rng.getrandbits(dw) for _ in range(n)]))
            at.append(tuple(cur))

    def fresh(old, w):
        if w == 1:
            return (old & 1) ^ 1
        while True:
            v = rng.choice([0, (1 << w) - 1, rng.getrandbits(w), rng.getrandbits(w)])
            if v != old:
                return v

    uses()
    for _ in range(rng.randint(1, 3)):
        change = {}
        for attr in rng.sample(ATTRS, rng.choice([1, 1, 1, 2, 3])):
            k = ATTRS.index(attr)
            if attr == "crc_width":
                w = cur[0]
                while w == cur[0]:
                    w = rng.choice([max(1, cur[0] - rng.randint(1, 8)), cur[0] + rng.randint(1, 8), rng.randint(1, 40)])
                change[attr] = w
            elif attr in ("reflect_input", "reflect_output"):
                change[attr] = not cur[k]
            else:
                change[attr] = None         # value chosen below, once the width is known
        w = change.get("crc_width", cur[0])
        for attr in ("polynomial", "initial_crc", "xor_output"):
            k = ATTRS.index(attr)
            if attr in change:
                change[attr] = fresh(cur[k], w)
                if attr == "polynomial" and rng.random() < 0.75:
                    change[attr] |= 1
                    if change[attr] == cur[k]:
                        change[attr] = fresh(cur[k], w)
            elif cur[k] >= (1 << w):
                change[attr] = cur[k] & ((1 << w) - 1)      # keep the set valid for the narrower register
        for attr, v in change.items():
            cur[ATTRS.index(attr)] = int(v)
        steps.append(("set", {a: (bool(v) if a.startswith("reflect") else v) for a, v in change.items()}))
        at.append(tuple(cur))
        uses()
    return tuple(start), steps, at


def _simulate(p, script):
    from amaranth.hdl import Period
    from amaranth.sim import Simulator
    sim = Simulator(p)
    sim.add_clock(Period(MHz=1))
    out = []

    async def tb(ctx):
        for st, va, d in script:
            ctx.set(p.start, st)
            ctx.set(p.valid, va)
            ctx.set(p.data, d)
            await ctx.tick()
            out.append((ctx.get(p.crc), ctx.get(p.match_detected)))
    sim.add_testbench(tb)
    sim.run()
    return out


def _mut_worker(job):
    """job = (t0, steps) -> one entry per step: None for "set", ('ok', value) | ('err', kind) for a use"""
    import warnings
    warnings.simplefilter("ignore")
    t0, steps = job
    a = mk_algo(t0)
    out = []
    for st in steps:
        try:
            if st[0] == "set":
                for k, v in st[1].items():
                    setattr(a, k, v)
                out.append(None)
            elif st[0] == "sw":
                out.append(("ok", str(a(st[1]).compute(list(st[2])))))
            elif st[0] == "res":
                out.append(("ok", str(a(st[1]).residue())))
            else:
                out.append(("ok", _simulate(a(st[1]).create(), st[2])))
        except Exception as e:  # noqa
            out.append(("err", common.errkind(e) + ": " + str(e)[:200]))
    return out


# ------------------------------------------------------------------------------------------------
# the real hardware, in worker processes

def _hw_worker(job):
    """job = (params tuple, dw, script[(start, valid, data)]) -> ('ok', [(crc, match)...]) | ('err', kind)"""
    import warnings
    warnings.simplefilter("ignore")
    t, dw, script = job
    try:
        # one Parameters object is legitimately used several times (create(), residue(), algorithm):
        # every use must see the same algorithm, so exercise 0-2 earlier uses before the one observed
        pp = mk_algo(t)(dw)
        for _k in range(len(script) % 3):
            pp.residue(); pp.create(); pp.algorithm
        return ("ok", _simulate(pp.create(), script))
    except Exception as e:  # noqa
        return ("err", common.errkind(e) + ": " + str(e)[:200])


def hw_request(t, dw, script):
    return f"(hw {pstr(t)} {dw} " + " ".join(f"({s} {v} {d})" for s, v, d in script) + ")"


def parse_hw(resp):
    d = common.kv(resp)
    if not all(k in d for k in ("crc", "match", "spec", "specmatch")):
        raise common.Infra(f"driver: {resp[:200]}")
    sp = lambda s: s.split(",") if s else []
    return [int(x) for x in sp(d["crc"])], [int(x) for x in sp(d["match"])], [int(x) for x in sp(d["spec"])], sp(d["specmatch"])


# ------------------------------------------------------------------------------------------------

def catalogue_search(chk, entries):
    """the catalogue obligation does not check: look for the entry on which the real code and the
    published values part ways"""
    found = 0
    for e in entries:
        t = (e["crc_width"], e["polynomial"], e["initial_crc"], int(e["reflect_input"]), int(e["reflect_output"]),
             e["xor_output"])
        try:
            a = mk_algo(t)
            got = a(8).compute(b"123456789")
            res = a(8).residue()
        except Exception as ex:  # noqa
            got = res = common.errkind(ex)
        chk.count(1)
        if got != e["check"] or res != e["residue"]:
            found += 1
            chk.violation(
                f"catalogue entry {e['name']}: compute(b'123456789') = {got!r}, published check {e['check']:#x}; "
                f"residue() = {res!r}, published {e['residue']:#x}",
                {"kind": "catalogue", "entry": e, "impl_check": got, "impl_residue": res})
    return found


def run(chk):
    cfg = SIZES[chk.tier]
    rng = chk.rng
    if not any(k["id"] == FINDING for k in chk.known):
        # the classifier must exist even before the line is added to known_findings.txt
        chk.known.append({"property": "C16", "id": FINDING, "what": FINDING_TEXT, "status": "open"})

    # 1. regenerate the table from the working tree --------------------------------------------------
    try:
        entries, problems, changed, _old = gen.regenerate(common.REPO, common.VERIF)
    except gen.TranslateError as e:
        chk.not_shown("catalogue translator cannot read the source any more", str(e))
        entries, problems, changed = [], [], False
    chk.extra["catalogue"] = {"names": len(entries), "regenerated_file_changed": changed,
                              "distinct_parameter_sets": len({tuple(e[f] for f in gen.FIELDS) for e in entries})}
    for pr in problems:
        chk.not_shown("catalogue / published check values are out of step", pr)

    # 2. proofs ---------------------------------------------------------------------------------------
    # the build reads one thing that comes from the repo: the regenerated table.  If it is byte-identical to
    # the committed one, a broken build is the machinery's own fault (Infra); otherwise it is a proof
    # obligation over the regenerated table that no longer holds.
    rc, committed = common.sh(["git", "show", "HEAD:" + gen.OUT_REL], cwd=common.VERIF)
    current = open(os.path.join(common.VERIF, gen.OUT_REL)).read() if entries else ""
    differs = rc != 0 or committed.strip() != current.strip()
    chk.extra["catalogue"]["differs_from_committed"] = differs
    ok = chk.lean(generated_changed=differs)
    if not ok:
        cat_ok, cat_log = common.lake_build(["AmaranthVerif.Generated.CrcCatalog"])
        if cat_ok or "Generated/CrcCatalog.lean" not in cat_log:
            raise common.Infra("lake build of Properties/C16 failed outside the regenerated table:\n"
                               + chk.build_log[-3000:])
        n = catalogue_search(chk, entries)
        if n == 0:
            chk.not_shown("theorem catalog_checks/catalog_residues no longer holds over the regenerated table, "
                          "no failing entry found on the real code", cat_log[-2500:])
        drv_ok, _ = common.lake_build([EXE])
        if not drv_ok:
            return
        chk.driver = common.Driver(EXE)

    import warnings
    warnings.simplefilter("ignore")
    from amaranth.lib.crc import Algorithm, Parameters, catalog

    # 2b. the ast-extracted table is the catalogue the library exports
    by_name = {e["name"]: e for e in entries}
    live = {k: getattr(catalog, k) for k in dir(catalog) if isinstance(getattr(catalog, k), Algorithm)}
    for k in sorted(set(live) - set(by_name)):
        chk.not_shown("catalogue name exported by the library but not seen by the translator", k)
    for k in sorted(by_name):
        e = by_name[k]
        if k not in live or ptuple(live[k]) != (e["crc_width"], e["polynomial"], e["initial_crc"],
                                                int(e["reflect_input"]), int(e["reflect_output"]), e["xor_output"]):
            chk.not_shown("translated catalogue entry differs from the imported one", k)
    chk.extra["exhaustive"] = {"catalogue names": len(live), "data widths per name": "1,3,8,crc_width,crc_width+5"}

    sw_cases = []        # (tag, params, dw, words)  words may be out of range for the malformed stream

    # A. catalogue x widths x messages ----------------------------------------------------------------
    for name in sorted(live):
        t = ptuple(live[name])
        w = t[0]
        for dw in (1, 3, 8, w, w + 5):
            for m in range(cfg["msgs"]):
                n = 0 if (m == 0 and rng.random() < .3) else rng.randint(1, 6 if dw > 1 else 40)
                sw_cases.append(("cat:" + name, t, dw, [rng.getrandbits(dw) for _ in range(n)]))
        sw_cases.append(("check:" + name, t, 8, list(b"123456789")))
    # B. random parameter sets ------------------------------------------------------------------------
    for _ in range(cfg["rnd"]):
        t = rand_params(rng)
        dw = rand_dw(rng, t[0])
        n = rng.choice([0, 1, 1, 2, 3, 5, 8]) if dw > 1 else rng.randint(0, 50)
        words = [rng.choice([0, (1 << dw) - 1, rng.getrandbits(dw), rng.getrandbits(dw)]) for _ in range(n)]
        sw_cases.append(("rnd", t, dw, words))
    # C1. out-of-range words --------------------------------------------------------------------------
    for _ in range(cfg["bad"] // 3):
        t = rand_params(rng, wmax=20)
        dw = rand_dw(rng, t[0])
        words = [rng.getrandbits(dw) for _ in range(rng.randint(1, 4))]
        words[rng.randrange(len(words))] = rng.choice([1 << dw, -1, (1 << dw) + rng.getrandbits(4), -(1 << dw)])
        sw_cases.append(("badword", t, dw, words))

    # B2. arithmetic progressions, so that the same words can also be handed over as a `range` --------------
    for _ in range(cfg["rng"]):
        t = rand_params(rng, wmax=24)
        dw = rng.randint(2, 14)
        n = rng.randint(0, 9)
        step = rng.choice([1, 1, 2, 3, -1, -2, rng.randint(1, 1 << (dw - 1))])
        span = abs(step) * max(n - 1, 0)
        if span >= (1 << dw):
            step, span = (1 if step > 0 else -1), max(n - 1, 0)
            if span >= (1 << dw):
                n, span = 1, 0
        lo = rng.randint(0, (1 << dw) - 1 - span)
        words = [lo + k * step for k in range(n)] if step > 0 else [lo + span + k * step for k in range(n)]
        sw_cases.append(("range", t, dw, words))

    reqs = [f"(compute {pstr(t)} {dw} {' '.join(map(str, ws))})" for _tag, t, dw, ws in sw_cases]
    resps = chk.driver.ask(reqs)

    def real_compute(t, dw, ws, form="list"):
        try:
            return str(mk_algo(t)(dw).compute(as_form(ws, form)))
        except Exception as ex:  # noqa
            return common.errkind(ex)

    def sw_fails(t, dw, ws, form="list"):
        if not form_legal(ws, form):
            return False
        r = chk.driver.ask([f"(compute {pstr(t)} {dw} {' '.join(map(str, ws))})"])[0]
        d = common.kv(r)
        return real_compute(t, dw, ws, form) != d.get("spec", "?") and d.get("spec") != "undefined"

    def judge_sw(tag, t, dw, ws, d, resp, form):
        """one evaluation of the real compute on (params, data width, words carried as `form`)"""
        kind = tag.split(":")[0]
        impl = real_compute(t, dw, ws, form)
        chk.count(1)
        chk.hist("sw container form", form)
        how = "" if form == "list" else f" (words passed as {form})"
        if form == "list":
            chk.distinct(("sw", t, dw, tuple(ws)), nontrivial=len(ws) > 0)
            chk.hist("sw stream", kind)
            chk.hist("crc_width", t[0] if t[0] <= 8 else f"{(t[0] - 1) // 8 * 8 + 1}-{(t[0] - 1) // 8 * 8 + 8}")
            chk.hist("data width vs crc width", rel(dw, t[0]))
            chk.hist("reflect in/out", f"{t[3]}{t[4]}")
            chk.hist("polynomial", "zero" if t[1] == 0 else "even" if t[1] % 2 == 0 else "odd")
            chk.hist("message words", len(ws) if len(ws) < 10 else "10+")
        else:
            chk.distinct(("sw", t, dw, tuple(ws), form), nontrivial=len(ws) > 0)
            chk.hist("sw container form, one-shot iterator with >= 1 word", form in ONE_SHOT and len(ws) > 0)
        if kind == "check":
            e = by_name.get(tag[6:])
            if e is not None and impl != str(e["check"]):
                chk.violation(f"catalogue entry {tag[6:]}: compute(b'123456789'){how} = {impl}, published check {e['check']:#x}",
                              {"kind": "catalogue", "entry": e, "impl_check": impl, "form": form})
                return
        if d["spec"] == "undefined":
            # words outside the model's domain: the code must refuse them
            chk.hist("error kinds", impl if not impl.lstrip("-").isdigit() else "accepted")
            if impl != d["model"]:
                if impl.lstrip("-").isdigit():
                    chk.violation(f"compute accepted an out-of-range data word: {ws} at data_width {dw}{how}",
                                  {"kind": "badword", "params": t, "data_width": dw, "words": ws, "impl": impl, "form": form})
                else:
                    chk.not_shown("error kind for an out-of-range data word differs from the model",
                                  {"params": t, "data_width": dw, "words": ws, "impl": impl, "model": d["model"], "form": form})
            return
        if impl != d["spec"]:
            # shrink: drop words while the disagreement stays
            cur = list(ws)
            i = 0
            n_shrunk = chk.extra.setdefault("shrunk", 0)
            chk.extra["shrunk"] = n_shrunk + 1
            while i < len(cur) and n_shrunk < 5:
                cand = cur[:i] + cur[i + 1:]
                if sw_fails(t, dw, cand, form):
                    cur = cand
                else:
                    i += 1
            chk.violation(f"compute != Williams CRC: params={t} data_width={dw} words={cur}{how}: "
                          f"impl={real_compute(t, dw, cur, form)}",
                          {"kind": "compute", "params": t, "data_width": dw, "words": cur, "original_words": ws,
                           "impl": real_compute(t, dw, cur, form), "stream": tag, "form": form})
        elif impl != d["model"]:
            chk.not_shown("compute: model differs from the code (code = spec)",
                          {"params": t, "data_width": dw, "words": ws, "impl": impl, "model": d["model"], "form": form})
        chk.sample({"stream": tag, "params": t, "data_width": dw, "words": ws, "form": form, "impl": impl,
                    "driver": resp}, limit=4)

    for idx, ((tag, t, dw, ws), resp) in enumerate(zip(sw_cases, resps)):
        d = common.kv(resp)
        if "model" not in d:
            raise common.Infra(f"driver: {resp[:200]}")
        for form in ["list"] + alt_forms(idx, tag.split(":")[0], ws):
            judge_sw(tag, t, dw, ws, d, resp, form)

    # C2. constructor range checks --------------------------------------------------------------------
    NONINT = [1.5, "8", None, 2.0, [1]]

    def ser(x):
        return str(int(x)) if isinstance(x, (int, bool)) else "T"

    ctor = []
    for _ in range(cfg["bad"]):
        w = rng.choice([0, -1, 1, 2, 5, 8, 16, 33])
        lim = 1 << max(w, 0)
        val = lambda: rng.choice([0, lim - 1, lim, lim + 1, -1, rng.getrandbits(max(w, 1)), rng.getrandbits(max(w, 1))])
        args = [w, val(), val(), val(), rng.choice([1, 8, 0, -3, 64, 1])]
        r = rng.random()
        if r < 0.15:
            args[rng.randrange(5)] = rng.choice(NONINT)
        elif r < 0.2:
            args[rng.randrange(5)] = True
        elif r < 0.5:       # mostly valid
            w = rng.randint(1, 40)
            args = [w, rng.getrandbits(w), rng.getrandbits(w), rng.getrandbits(w), rng.randint(1, 70)]
        ctor.append(args)
    resps = chk.driver.ask([f"(algo {' '.join(ser(x) for x in a)})" for a in ctor])
    for a, resp in zip(ctor, resps):
        try:
            Parameters(Algorithm(crc_width=a[0], polynomial=a[1], initial_crc=a[2], reflect_input=False,
                                 reflect_output=False, xor_output=a[3]), a[4])
            impl = "ok"
        except Exception as ex:  # noqa
            impl = common.errkind(ex)
        model = common.kv(resp).get("model")
        chk.count(1)
        chk.hist("constructor outcome", impl)
        chk.distinct(("ctor", tuple(map(repr, a))), nontrivial=True)
        if impl != model:
            # the spec side of a constructor check is the model's domain: Valid and data_width > 0
            if impl == "ok":
                chk.violation(f"constructor accepted parameters outside the Williams model: "
                              f"crc_width={a[0]!r} polynomial={a[1]!r} initial_crc={a[2]!r} xor_output={a[3]!r} "
                              f"data_width={a[4]!r}", {"kind": "constructor", "args": list(map(repr, a)), "model": model})
            elif model == "ok":
                chk.violation(f"constructor refused valid parameters with {impl}: {a!r}",
                              {"kind": "constructor", "args": list(map(repr, a)), "impl": impl})
            else:
                chk.not_shown("constructor error kind differs from the model",
                              {"args": list(map(repr, a)), "impl": impl, "model": model})

    # D. residue and matrices -------------------------------------------------------------------------
    res_cases = [("cat:" + n, ptuple(live[n])) for n in sorted(live)] + \
                [("rnd", rand_params(rng)) for _ in range(cfg["res"])]
    resps = chk.driver.ask([f"(residue {pstr(t)})" for _tag, t in res_cases])
    for (tag, t), resp in zip(res_cases, resps):
        d = common.kv(resp)
        pp = mk_algo(t)(rng.choice([1, 8, t[0]]))
        if rng.random() < 0.5:
            pp.create(); pp.residue()          # an earlier use of the same Parameters object
        impl = str(pp.residue())
        chk.count(1)
        chk.distinct(("res", t))
        if tag.startswith("cat:") and tag[4:] in by_name and impl != str(by_name[tag[4:]]["residue"]):
            chk.violation(f"catalogue entry {tag[4:]}: residue() = {impl}, published {by_name[tag[4:]]['residue']:#x}",
                          {"kind": "catalogue", "entry": by_name[tag[4:]], "impl_residue": impl})
        elif impl != d.get("spec"):
            chk.violation(f"residue() = {impl} is not the register left by a codeword ({d.get('spec')}) for params={t}",
                          {"kind": "residue", "params": t, "impl": impl, "spec": d.get("spec")})
        elif impl != d.get("model"):
            chk.not_shown("residue: model differs from the code (code = spec)", {"params": t, "impl": impl, "driver": resp})
    mat_cases = []
    for _ in range(cfg["mats"]):
        t = rand_params(rng, wmax=24) if rng.random() < .6 else ptuple(live[rng.choice(sorted(live))])
        mat_cases.append((t, rand_dw(rng, t[0])))
    resps = chk.driver.ask([f"(mat {pstr(t)} {dw})" for t, dw in mat_cases])
    for (t, dw), resp in zip(mat_cases, resps):
        f, g = mk_algo(t)(dw)._matrices()
        enc = lambda rows: ",".join(str(sum(b << i for i, b in enumerate(r))) for r in rows)
        d = common.kv(resp)
        chk.count(1)
        chk.distinct(("mat", t, dw))
        if (enc(f), enc(g)) != (d.get("f", ""), d.get("g", "")):
            chk.not_shown("_matrices(): F/G differ from the model's (internal observable)",
                          {"params": t, "data_width": dw, "impl_f": enc(f), "impl_g": enc(g), "driver": resp[:400]})

    # F. hardware, random schedules -------------------------------------------------------------------
    jobs = []        # (kind, t, dw, script, meta)
    names = sorted(live)
    for i in range(cfg["hw"]):
        if i % 2 == 0:
            t = ptuple(live[rng.choice(names)])
            dw = rng.choice([1, 3, 8, t[0], t[0] + 5])
            if t[0] > 40 and dw > 40 and chk.tier == "quick":
                dw = 8
        else:
            t = rand_params(rng, wmax=20)
            dw = rand_dw(rng, t[0])
        p_start, p_valid = rng.choice([(.05, .9), (.2, .6), (.4, .5), (.1, .3)])
        script = []
        for c in range(rng.randint(8, 40)):
            d = rng.choice([0, (1 << dw) - 1, rng.getrandbits(dw), rng.getrandbits(dw)])
            script.append((int(rng.random() < p_start), int(rng.random() < p_valid), d))
        jobs.append(("sched", t, dw, script, None))

    # G. match detection ------------------------------------------------------------------------------
    def match_job(t, dw):
        """one simulation: [message + trailer variant] repeated, each started with `start`"""
        w = t[0]
        a = mk_algo(t)
        msg = [rng.getrandbits(dw) for _ in range(rng.randint(0, 3) if dw > 1 else rng.randint(0, 12))]
        c = a(dw).compute(msg)
        variants = [("true", c)]
        bits = list(range(w)) if (w <= 16 or chk.tier == "thorough") else sorted(rng.sample(range(w), 16))
        variants += [(f"bit{b}", c ^ (1 << b)) for b in bits]
        if t[1] % 2 == 0:
            kw = (1 << (w - 1)) ^ (t[1] >> 1)
            variants.append(("kernel", c ^ corrupt_value(t, kw)))
        variants.append(("random", c ^ (rng.getrandbits(w) or 1)))
        script, ends = [], []
        for vi, (_vn, cv) in enumerate(variants):
            words = msg + trailer_words(t, dw, cv)
            if rng.random() < .5:
                script.append((1, 0, rng.getrandbits(dw)))          # start alone
                first = 0
            else:
                first = 1                                           # start together with the first word
            for wi, x in enumerate(words):
                script.append((first if wi == 0 else 0, 1, x))
                if rng.random() < .15:
                    script.append((0, 0, rng.getrandbits(dw)))      # idle gap
            ends.append(len(script) - 1)
        return ("match", t, dw, script, {"msg": msg, "crc": c, "variants": variants, "ends": ends})

    for i in range(cfg["match"]):
        r = i % 3
        if r == 0:
            t = ptuple(live[rng.choice(names)])
            divs = [d for d in (1, 2, 4, 8, 16, t[0]) if t[0] % d == 0]
            dw = rng.choice(divs)
        else:
            dw = rng.choice([1, 1, 2, 3, 4, 5, 8, 13])
            k = rng.randint(1, 4) if dw > 1 else rng.randint(1, 24)
            w = dw * k
            t = rand_params(rng, even=(r == 2))
            mask = (1 << w) - 1
            poly = (rng.getrandbits(w) | 1) if r == 1 else (rng.getrandbits(w) & ~1)
            if r == 2 and rng.random() < .15:
                poly = 0
            t = (w, poly, t[2] & mask, t[3], t[4], t[5] & mask)
        jobs.append(match_job(t, dw))

    # cross-check the harness' own trailer against the Spec's
    tr_reqs, tr_exp = [], []
    for kind, t, dw, _script, meta in jobs:
        if kind == "match":
            for _vn, cv in meta["variants"][:2]:
                tr_reqs.append(f"(trailer {pstr(t)} {dw} {cv})")
                tr_exp.append(",".join(map(str, trailer_words(t, dw, cv))))
    for rq, ex, resp in zip(tr_reqs, tr_exp, chk.driver.ask(tr_reqs)):
        if common.kv(resp).get("words", "") != ex:
            raise common.Infra(f"harness and Spec disagree on transmission order: {rq} -> {resp} vs {ex}")

    # M. one Algorithm object, attributes reassigned between uses -------------------------------------------
    mseqs = []
    for i in range(cfg["mut"]):
        start = ptuple(live[rng.choice(names)]) if i % 2 == 0 else rand_params(rng, wmax=24)
        mseqs.append(gen_mutation_sequence(rng, start, hw_share=0.15))
    m_reqs = []
    for _t0, steps, at in mseqs:
        for st, cur in zip(steps, at):
            if st[0] == "sw":
                m_reqs.append(f"(compute {pstr(cur)} {st[1]} {' '.join(map(str, st[2]))})")
            elif st[0] == "res":
                m_reqs.append(f"(residue {pstr(cur)})")
            elif st[0] == "hw":
                m_reqs.append(hw_request(cur, st[1], st[2]))
    m_resps = iter(chk.driver.ask(m_reqs))

    hw_resps = chk.driver.ask([hw_request(t, dw, script) for _k, t, dw, script, _m in jobs])
    with concurrent.futures.ProcessPoolExecutor(max_workers=min(cfg["workers"], os.cpu_count() or 1)) as ex:
        hw_obs = list(ex.map(_hw_worker, [(t, dw, script) for _k, t, dw, script, _m in jobs], chunksize=2))
        m_obs = list(ex.map(_mut_worker, [(t0, steps) for t0, steps, _at in mseqs], chunksize=2))

    def judge_hw(kind, t, dw, script, resp, status, obs, extra):
        """the simulated Processor against Spec and Model after every clock edge -> reported (None: no simulation)"""
        m_crc, m_match, s_crc, s_match = parse_hw(resp)
        even = t[1] % 2 == 0
        base = dict({"kind": "hw-" + kind, "params": t, "data_width": dw, "script": script}, **extra)
        ctx = "".join(f"; {k}={v}" for k, v in extra.items() if k in ("after",))
        chk.count(len(script))
        chk.distinct(("hw", t, dw, tuple(script)) + ((kind,) if extra else ()))
        chk.hist("hw stream", kind)
        chk.hist("hw data width vs crc width", rel(dw, t[0]))
        for st, va, _d in script:
            chk.hist("hw cycle kinds", ("start+valid" if st and va else "start" if st else "valid" if va else "idle"))
        if status != "ok":
            chk.violation(f"Processor could not be simulated: {obs}{ctx}", dict(base, error=obs))
            return None
        reported = False
        for i, (c, md) in enumerate(obs):
            pre = {"cycle": i, "prefix": script[:i + 1]}
            if c != s_crc[i]:
                chk.violation(f"Processor.crc = {c} after cycle {i}, Williams CRC of the words since start = {s_crc[i]}; "
                              f"params={t} data_width={dw}{ctx}", dict(base, **pre, impl=c, spec=s_crc[i]))
                reported = True
                break
            if s_match[i] != "-" and md != int(s_match[i]):
                classes = [FINDING] if (even and md == 1) else []
                chk.violation(f"match_detected = {md} after cycle {i} but the words since start "
                              f"{'are' if s_match[i] == '1' else 'are not'} a message followed by its own CRC; "
                              f"params={t} data_width={dw}{ctx}", dict(base, **pre, impl=md, spec=s_match[i], classes=classes))
                if not classes:
                    reported = True
                    break
                chk.hist("even-polynomial false matches",
                         {"sched": "random schedule", "match": "corrupted trailer"}.get(kind, kind))
                continue
            if c != m_crc[i] or md != m_match[i]:
                chk.not_shown("Processor: model differs from the simulated hardware (hardware = spec)",
                              dict(base, **pre, impl=(c, md), model=(m_crc[i], m_match[i])))
                reported = True
                break
        return reported

    for (kind, t, dw, script, meta), resp, (status, obs) in zip(jobs, hw_resps, hw_obs):
        even = t[1] % 2 == 0
        base = {"kind": "hw-" + kind, "params": t, "data_width": dw, "script": script}
        reported = judge_hw(kind, t, dw, script, resp, status, obs, {})
        if reported is None:
            continue
        if kind == "match" and not reported:
            for (vn, _cv), e in zip(meta["variants"], meta["ends"]):
                md = obs[e][1]
                chk.hist("trailer variant -> match_detected", f"{'even' if even else 'odd'} {vn.rstrip('0123456789')} {md}")
                if vn == "true" and md != 1:
                    chk.violation(f"match_detected not asserted after message + own CRC; params={t} data_width={dw} "
                                  f"message={meta['msg']}", dict(base, cycle=e, variant=vn))
                elif vn != "true" and md == 1 and not even:
                    chk.violation(f"match_detected asserted after corrupted trailer ({vn}), odd polynomial; params={t} "
                                  f"data_width={dw} message={meta['msg']}", dict(base, cycle=e, variant=vn))
                elif vn == "kernel" and md != 1:
                    chk.not_shown("even polynomial: kernel-word corruption no longer gives a false match "
                                  "(theorem even_poly_false_match vs hardware)", dict(base, cycle=e))
        chk.sample({"stream": "hw-" + kind, "params": t, "data_width": dw, "script": script[:12],
                    "impl": obs[:12], "driver": resp[:300]}, limit=6)

    # M. judged: every use of algo(w) against the algorithm the object denotes at that moment
    for (t0, steps, at), outs in zip(mseqs, m_obs):
        history = []            # what has been done to the object so far, for the report
        sets_so_far = 0
        used_before_set = set()     # data widths asked for before the latest reassignment
        used = set()
        failed = False
        for k, (st, cur, out) in enumerate(zip(steps, at, outs)):
            if st[0] == "set":
                history.append("set " + ",".join(f"{a}={int(v) if isinstance(v, bool) else v}" for a, v in st[1].items()))
                sets_so_far += 1
                used_before_set |= used
                for a in st[1]:
                    chk.hist("mutation sequences: attribute reassigned", a)
                continue
            resp = next(m_resps)
            if failed:
                continue        # (the response iterator must still advance)
            dw = st[1]
            chk.hist("mutation sequences: use", st[0])
            chk.hist("mutation sequences: use after k reassignments", sets_so_far)
            if sets_so_far:
                chk.hist("mutation sequences: data width after a reassignment",
                         "asked for before it" if dw in used_before_set else "new")
            used.add(dw)
            after = " -> ".join(history) if history else "nothing"
            replay = {"kind": "algorithm-mutation", "initial_params": t0, "steps": steps[:k + 1], "params_now": cur,
                      "data_width": dw}
            where = (f"one Algorithm object, created as {t0}, after [{after}] (attributes now {cur}): algo({dw})")
            history.append(f"{st[0]} algo({dw})")
            if st[0] == "hw":
                status, obs = out
                rep = judge_hw("mutseq", cur, dw, st[2], resp, status, obs,
                               {"after": f"one Algorithm object created as {t0}, then [{after}]", "initial_params": t0,
                                "steps": steps[:k + 1]})
                failed = rep is None or rep
                continue
            chk.count(1)
            chk.distinct(("mut", t0, tuple(map(repr, steps[:k + 1]))))
            d = common.kv(resp)
            if "spec" not in d:
                raise common.Infra(f"driver: {resp[:200]}")
            status, val = out
            what = f".compute({st[2]})" if st[0] == "sw" else ".residue()"
            if status != "ok" or val != d["spec"]:
                chk.violation(f"{where}{what} = {val}, the Williams model for the current attributes gives {d['spec']}",
                              dict(replay, impl=val, spec=d["spec"]))
                failed = True
            elif val != d.get("model"):
                chk.not_shown("compute/residue on a reassigned Algorithm: model differs from the code (code = spec)",
                              dict(replay, impl=val, driver=resp))
                failed = True
        chk.hist("mutation sequences: steps", len(steps))
        if not failed:
            chk.sample({"stream": "algorithm-mutation", "initial_params": t0, "steps": steps, "outcomes": outs}, limit=7)

    chk.cov["rule"] = (
        "software: every catalogue name x data widths {1,3,8,w,w+5} x random messages (lengths 0..6 words, up to 40 "
        "for 1-bit words) plus random parameter sets (w 1..80, 25% even polynomials, extreme init/xorout, data widths "
        "below/equal/above w); distinct = (params, data_width, words), non-trivial = at least one word. hardware: one "
        "simulation per (params, data_width, script) with random start/valid/data per cycle, compared after every "
        "clock edge; match stream: message + true trailer and each single-bit-corrupted / random / kernel-word "
        "corrupted trailer, with start alone or together with the first word and random idle gaps. "
        "container forms: every software case is evaluated with the words as a list and in one more form (two for the "
        "check strings) taken in rotation from tuple / bytes / bytearray (words <= 255) / generator / iter(list) / map / "
        "re-iterable class / one-shot iterator class / deque, and arithmetic progressions also as a range. "
        "algorithm mutation: one Algorithm object (catalogue entry or random), 1-3 uses of algo(dw) (compute / residue / "
        "simulated Processor), then 1-3 times: reassign 1-3 of crc_width / polynomial / initial_crc / reflect_input / "
        "reflect_output / xor_output (values kept valid for the width) and use algo(dw) again with data widths asked for "
        "before (70%) and new ones; every use is compared with the model for the attribute values at that moment.")
    chk.assumptions += [
        "an Algorithm object denotes the parameter set given by its attributes at the moment algo(data_width) is called "
        "(attributes are plain public fields; Parameters objects obtained earlier are not re-examined after a reassignment)",
        "the amaranth simulator runs the elaborated Processor faithfully (C04/C05 cover the simulator itself)",
        "Signal(data_width) truncates nothing here: scripts only drive data < 2**data_width",
        "transmission order of the trailing CRC: register MSB first, words laid out per reflect_input "
        "(harness' own computation cross-checked against Spec.trailer on every match case)",
        "Generated/CrcCatalog.lean is re-extracted with ast from catalog.py and tests/test_lib_crc.py::CRC_CHECKS on every run",
    ]
