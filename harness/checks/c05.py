"""C05 - testbench reads and writes agree with what a circuit would compute."""
import os
import random
from concurrent.futures import ProcessPoolExecutor

from .. import exprs, common
from ..common import ser_value, ser_ctx, ser_env, errkind

LEVEL = "proof"


def _run_tb(sigs, target, v):
    from amaranth.hdl import Module, Signal
    from amaranth.sim import Simulator
    m = Module()
    dummy = Signal()
    m.d.comb += dummy.eq(1)
    sim = Simulator(m)
    out = []

    async def tb(ctx):
        ctx.set(target, v)
        out.extend(ctx.get(s) for s in sigs)
    sim.add_testbench(tb)
    sim.run()
    return out


def _run_circuit(sigs, target, v):
    from amaranth.hdl import Module, Period
    from amaranth.sim import Simulator
    m = Module()
    m.d.sync += target.eq(v)
    sim = Simulator(m)
    sim.add_clock(Period(MHz=1))
    out = []

    async def tb(ctx):
        await ctx.tick()
        out.extend(ctx.get(s) for s in sigs)
    sim.add_testbench(tb)
    sim.run()
    return out


def has_alias_under_select(req):
    """F9 classifier: a slice/part whose operand contains a concatenation in which one signal occurs twice"""
    import re
    # cheap structural test on the serialised target: some signal index occurs twice, and a part/slice wraps a cat
    ids = re.findall(r"\(sig (\d+)\)", req)
    dup = len(ids) != len(set(ids))
    return dup and ("(part (cat" in req or "(slice (cat" in req or "(part (u (cat" in req or "(part (s (cat" in req
                    or "(part (slice (cat" in req or "(part (part (cat" in req or "(slice (part (cat" in req
                    or "(slice (slice (cat" in req or "(cat" in req and ("(part" in req or "(slice" in req))


def witness_job(_):
    """dedicated witnesses of recorded findings, replayed on every run (F9)"""
    from amaranth.hdl import Signal, Cat
    cases = []
    for v, st in [(1, [0, 0]), (0, [3, 1]), (1, [2, 1])]:
        builds = []
        for _rep in range(2):
            t = Signal(2, name="t", init=st[0]); o = Signal(1, name="o", init=st[1])
            builds.append(([t, o], Cat(t, t).bit_select(o, 1)))
        (allsigs, target), (allsigs2, target2) = builds
        sigidx = {id(s): i for i, s in enumerate(allsigs)}
        req = f"(assign {ser_ctx([s.shape() for s in allsigs])} {ser_value(target, sigidx)} {v} {ser_env(st)})"
        cases.append({"req": req, "repr": repr(target), "v": v, "state": st,
                      "tb": _run_tb(allsigs, target, v), "circuit": _run_circuit(allsigs2, target2, v)})
    return {"seed": "witness", "cases": cases, "hist": {}}


def write_job(args):
    if args == "witness":
        return witness_job(None)
    if args[0] == "rows":
        return row_job(args[1:])
    seed, n_cases, depth, alias = args
    from amaranth.hdl import Signal
    from .. import gen_expr
    rng = random.Random(seed)
    cases = []
    hist = {}
    for _ in range(n_cases):
        shapes = [gen_expr.rand_shape(rng, 8) for _ in range(rng.randint(1, 4))]
        offshapes = [gen_expr.unsigned(rng.randint(0, 3)) for _ in range(rng.randint(1, 2))]
        vals = [gen_expr.rand_value(rng, s) for s in shapes + offshapes]

        def mk():
            sigs = [Signal(s, name=f"t{k}", init=vals[k]) for k, s in enumerate(shapes)]
            offs = [Signal(s, name=f"o{k}", init=vals[len(shapes) + k]) for k, s in enumerate(offshapes)]
            return sigs, offs
        # build the same target twice (fresh signals for the tb run and for the circuit run)
        st = rng.getstate()
        builds = []
        for _rep in range(2):
            rng.setstate(st)
            sigs, offs = mk()
            g = gen_expr.TargetGen(rng, sigs, offs + [s for s in sigs if not s.shape().signed and len(s) <= 3],
                                   alias=alias, hist=hist if _rep == 0 else {})
            t = g.target(rng.randint(1, depth))
            builds.append((sigs + offs, t))
        (allsigs, target), (allsigs2, target2) = builds
        if target is None:
            continue
        w = len(target)
        v = rng.choice([rng.randint(-(1 << (w + 1)), (1 << (w + 1))), (1 << w) - 1, -1, 0, 1 << max(0, w - 1)])
        sigidx = {id(s): i for i, s in enumerate(allsigs)}
        req = f"(assign {ser_ctx([s.shape() for s in allsigs])} {ser_value(target, sigidx)} {v} {ser_env(vals)})"
        try:
            tbres = _run_tb(allsigs, target, v)
        except Exception as e:
            tbres = ("error", errkind(e), repr(e)[:200])
        try:
            cres = _run_circuit(allsigs2, target2, v)
        except Exception as e:
            cres = ("error", errkind(e), repr(e)[:200])
        cases.append({"req": req, "repr": repr(target)[:300], "v": v, "state": vals, "tb": tbres, "circuit": cres})
    return {"seed": seed, "cases": cases, "hist": hist}


def row_job(args):
    """testbench writes whose targets include rows of a memory (`mem.data[i]`), also several pieces of one
    row in one target; compared with the Lean model of _eval_assign_inner and the bit-level Spec"""
    seed, n_cases, depth = args
    from amaranth.hdl import Signal, Module
    from amaranth.lib.memory import Memory
    from amaranth.sim import Simulator
    from .. import gen_expr
    rng = random.Random(seed)
    cases = []
    hist = {}
    for _ in range(n_cases):
        rshape = gen_expr.rand_shape(rng, 8, allow_zero=False)
        mdepth = rng.randint(1, 3)
        rinit = [gen_expr.rand_value(rng, rshape) for _ in range(mdepth)]
        shapes = [gen_expr.rand_shape(rng, 6) for _ in range(rng.randint(0, 2))]
        offshapes = [gen_expr.unsigned(rng.randint(0, 3)) for _ in range(rng.randint(1, 2))]
        vals = [gen_expr.rand_value(rng, s) for s in shapes + offshapes]
        m = Module()
        m.submodules.mem = mem = Memory(shape=rshape, depth=mdepth, init=rinit)
        sigs = [Signal(s, name=f"t{k}", init=vals[k]) for k, s in enumerate(shapes)]
        offs = [Signal(s, name=f"o{k}", init=vals[len(shapes) + k]) for k, s in enumerate(offshapes)]
        dummy = Signal(); m.d.comb += dummy.eq(1)
        rows = [mem.data[i] for i in range(mdepth)]
        allv = sigs + offs + rows
        g = gen_expr.TargetGen(rng, sigs + rows + rows, offs, alias=True, hist=hist)
        t = g.target(rng.randint(1, depth))
        if t is None:
            continue
        w = len(t)
        v = rng.choice([rng.randint(-(1 << (w + 1)), (1 << (w + 1))), (1 << w) - 1, -1, 0])
        sigidx = {id(s): i for i, s in enumerate(sigs + offs)}
        for i in range(mdepth):
            sigidx[("row", id(mem.data), i)] = len(sigs) + len(offs) + i
        state = vals + rinit
        req = f"(assign {ser_ctx([x.shape() for x in allv])} {ser_value(t, sigidx)} {v} {ser_env(state)})"
        out = []
        try:
            sim = Simulator(m)

            async def tb(ctx):
                ctx.set(t, v)
                out.extend(ctx.get(x) for x in allv)
            sim.add_testbench(tb)
            sim.run()
            tbres = out
        except Exception as e:
            tbres = ("error", errkind(e), repr(e)[:200])
        cases.append({"req": req, "repr": repr(t)[:300], "v": v, "state": state, "tb": tbres, "circuit": None})
    return {"seed": seed, "cases": cases, "hist": hist}


def parse_assign(resp):
    if not resp.startswith("assign "):
        return None
    parts = resp.split(" ; ")
    ok = parts[0].split()[1] == "ok=1"
    d = common.kv(parts[1])
    return ok, {k: [int(x) for x in v.split(",")] if v else [] for k, v in d.items()}


def write_campaign(chk):
    quick = chk.tier == "quick"
    rng = chk.rng
    plan = [(120 if quick else 1600, 40, 4, False), (30 if quick else 300, 40, 3, True)]
    args = ["witness"] + [(rng.getrandbits(48), n, d, al) for jobs, n, d, al in plan for _ in range(jobs)]
    rowargs = [("rows", rng.getrandbits(48), 40, 3) for _ in range(30 if quick else 400)]
    with ProcessPoolExecutor(max_workers=min(16, os.cpu_count() or 4)) as ex:
        for job in ex.map(write_job, args + rowargs, chunksize=2):
            for k, v in job["hist"].items():
                chk.hist("target_kinds", k, v)
            resps = chk.driver.ask([c["req"] for c in job["cases"]])
            for c, resp in zip(job["cases"], resps):
                p = parse_assign(resp)
                base = {"request": c["req"], "target": c["repr"], "value": c["v"], "state": c["state"], "job_seed": job["seed"]}
                if p is None or not p[0]:
                    chk.not_shown("model rejects / cannot parse a target amaranth accepted", dict(base, response=resp))
                    continue
                _, m = p
                chk.count(1)
                changed = m["spec"] != c["state"]
                chk.distinct(c["req"], changed)
                chk.hist("changes_state", changed)
                alias = has_alias_under_select(c["req"])
                # testbench write vs Spec
                if isinstance(c["tb"], tuple):
                    chk.violation(f"ctx.set({c['repr']}, {c['v']}) raises {c['tb'][1]}", dict(base, kind="tb-raises", error=c["tb"], classes=[]))
                    continue
                if c["tb"] != m["spec"]:
                    classes = ["F2"] if (c["tb"] == m["old"] and m["old"] != m["tb"]) else []
                    chk.violation(f"ctx.set({c['repr']}, {c['v']}) in state {c['state']} gives {c['tb']}, the assignment's bits give {m['spec']}",
                                  dict(base, kind="tb-write", impl=c["tb"], spec=m["spec"], model=m["tb"], classes=classes))
                    continue
                if c["tb"] != m["tb"]:
                    chk.not_shown("testbench write: impl = spec but the model of _eval_assign_inner differs", dict(base, impl=c["tb"], model=m["tb"]))
                if c["circuit"] is None:        # memory rows cannot be assigned in a circuit
                    chk.hist("row_targets", 1)
                    continue
                # circuit vs testbench (the property's own comparison)
                if isinstance(c["circuit"], tuple):
                    chk.violation(f"circuit with {c['repr']}.eq({c['v']}) raises {c['circuit'][1]}", dict(base, kind="circuit-raises", error=c["circuit"], classes=[]))
                    continue
                if c["circuit"] != c["tb"]:
                    classes = ["F9"] if (alias and c["circuit"] == m["rtl"]) else []
                    chk.violation(f"ctx.set and the circuit disagree on {c['repr']} := {c['v']} in state {c['state']}: testbench {c['tb']}, circuit {c['circuit']}",
                                  dict(base, kind="tb-vs-circuit", tb=c["tb"], circuit=c["circuit"], spec=m["spec"], classes=classes))
                    continue
                if c["circuit"] != m["rtl"]:
                    chk.not_shown("circuit write: impl = spec but the model of _LHSValueCompiler differs", dict(base, impl=c["circuit"], model=m["rtl"]))
                if changed and len(chk.cov["samples"]) < 10:
                    chk.sample({"target": c["repr"], "value": c["v"], "state": c["state"], "after": c["tb"]})


def run(chk):
    if not chk.lean():
        chk.not_shown("Lean build of Properties/C05 failed", chk.build_log[-3000:])
        return
    exprs.campaign(chk, "tb")
    write_campaign(chk)
    chk.cov["rule"] += ("; writes: random assignable targets (depth<=4, signal offsets incl. beyond the target, zero-width selectors, "
                        "array elements, as_signed/as_unsigned) x random states x corner values, each run through ctx.set and through a "
                        "one-shot sync assignment; non-trivial = the write changes the state")
    chk.assumptions += ["memory rows are written from testbenches only (they cannot be assigned in a circuit); port behaviour is C11's"]
