"""C05 - testbench reads and writes agree with what a circuit would compute."""
import os
import random
from concurrent.futures import ProcessPoolExecutor

from .. import exprs, common
from ..common import ser_value, ser_ctx, ser_env, errkind

LEVEL = "proof"


def _run_tb(sigs, target, v):
    from amaranth.hdl import Module, Signal
    from amaranth.sim import Simulator
    m = Module()
    dummy = Signal()
    m.d.comb += dummy.eq(1)
    sim = Simulator(m)
    out = []

    async def tb(ctx):
        ctx.set(target, v)
        out.extend(ctx.get(s) for s in sigs)
    sim.add_testbench(tb)
    sim.run()
    return out


def _run_circuit(sigs, target, v):
    from amaranth.hdl import Module, Period
    from amaranth.sim import Simulator
    m = Module()
    m.d.sync += target.eq(v)
    sim = Simulator(m)
    sim.add_clock(Period(MHz=1))
    out = []

    async def tb(ctx):
        await ctx.tick()
        out.extend(ctx.get(s) for s in sigs)
    sim.add_testbench(tb)
    sim.run()
    return out


def has_alias_under_select(req):
    """F9 classifier: a slice/part whose operand contains a concatenation in which one signal occurs twice"""
    import re
    # cheap structural test on the serialised target: some signal index occurs twice, and a part/slice wraps a cat
    ids = re.findall(r"\(sig (\d+)\)", req)
    dup = len(ids) != len(set(ids))
    return dup and ("(part (cat" in req or "(slice (cat" in req or "(part (u (cat" in req or "(part (s (cat" in req
                    or "(part (slice (cat" in req or "(part (part (cat" in req or "(slice (part (cat" in req
                    or "(slice (slice (cat" in req or "(cat" in req and ("(part" in req or "(slice" in req))


def witness_job(_):
    """dedicated witnesses of recorded findings, replayed on every run (F9)"""
    from amaranth.hdl import Signal, Cat
    cases = []
    for v, st in [(1, [0, 0]), (0, [3, 1]), (1, [2, 1])]:
        builds = []
        for _rep in range(2):
            t = Signal(2, name="t", init=st[0]); o = Signal(1, name="o", init=st[1])
            builds.append(([t, o], Cat(t, t).bit_select(o, 1)))
        (allsigs, target), (allsigs2, target2) = builds
        sigidx = {id(s): i for i, s in enumerate(allsigs)}
        req = f"(assign {ser_ctx([s.shape() for s in allsigs])} {ser_value(target, sigidx)} {v} {ser_env(st)})"
        cases.append({"req": req, "repr": repr(target), "v": v, "state": st,
                      "tb": _run_tb(allsigs, target, v), "circuit": _run_circuit(allsigs2, target2, v)})
    return {"seed": "witness", "cases": cases, "hist": {}}


def write_job(args):
    if args == "witness":
        return witness_job(None)
    if args[0] == "rows":
        return row_job(args[1:])
    if args[0] == "cast":
        return dict(cast_job(args), kind="cast", hist={})
    seed, n_cases, depth, alias = args
    from amaranth.hdl import Signal
    from .. import gen_expr
    rng = random.Random(seed)
    cases = []
    hist = {}
    for _ in range(n_cases):
        shapes = [gen_expr.rand_shape(rng, 8) for _ in range(rng.randint(1, 4))]
        offshapes = [gen_expr.unsigned(rng.randint(0, 3)) for _ in range(rng.randint(1, 2))]
        vals = [gen_expr.rand_value(rng, s) for s in shapes + offshapes]

        def mk():
            sigs = [Signal(s, name=f"t{k}", init=vals[k]) for k, s in enumerate(shapes)]
            offs = [Signal(s, name=f"o{k}", init=vals[len(shapes) + k]) for k, s in enumerate(offshapes)]
            return sigs, offs
        # build the same target twice (fresh signals for the tb run and for the circuit run)
        st = rng.getstate()
        builds = []
        for _rep in range(2):
            rng.setstate(st)
            sigs, offs = mk()
            g = gen_expr.TargetGen(rng, sigs, offs + [s for s in sigs if not s.shape().signed and len(s) <= 3],
                                   alias=alias, hist=hist if _rep == 0 else {})
            t = g.target(rng.randint(1, depth))
            builds.append((sigs + offs, t))
        (allsigs, target), (allsigs2, target2) = builds
        if target is None:
            continue
        w = len(target)
        v = rng.choice([rng.randint(-(1 << (w + 1)), (1 << (w + 1))), (1 << w) - 1, -1, 0, 1 << max(0, w - 1)])
        sigidx = {id(s): i for i, s in enumerate(allsigs)}
        req = f"(assign {ser_ctx([s.shape() for s in allsigs])} {ser_value(target, sigidx)} {v} {ser_env(vals)})"
        try:
            tbres = _run_tb(allsigs, target, v)
        except Exception as e:
            tbres = ("error", errkind(e), repr(e)[:200])
        try:
            cres = _run_circuit(allsigs2, target2, v)
        except Exception as e:
            cres = ("error", errkind(e), repr(e)[:200])
        cases.append({"req": req, "repr": repr(target)[:300], "v": v, "state": vals, "tb": tbres, "circuit": cres})
    return {"seed": seed, "cases": cases, "hist": hist}


def row_job(args):
    """testbench writes whose targets include rows of a memory (`mem.data[i]`), also several pieces of one
    row in one target; compared with the Lean model of _eval_assign_inner and the bit-level Spec"""
    seed, n_cases, depth = args
    from amaranth.hdl import Signal, Module
    from amaranth.lib.memory import Memory
    from amaranth.sim import Simulator
    from .. import gen_expr
    rng = random.Random(seed)
    cases = []
    hist = {}
    for _ in range(n_cases):
        rshape = gen_expr.rand_shape(rng, 8, allow_zero=False)
        mdepth = rng.randint(1, 3)
        rinit = [gen_expr.rand_value(rng, rshape) for _ in range(mdepth)]
        shapes = [gen_expr.rand_shape(rng, 6) for _ in range(rng.randint(0, 2))]
        offshapes = [gen_expr.unsigned(rng.randint(0, 3)) for _ in range(rng.randint(1, 2))]
        vals = [gen_expr.rand_value(rng, s) for s in shapes + offshapes]
        m = Module()
        m.submodules.mem = mem = Memory(shape=rshape, depth=mdepth, init=rinit)
        sigs = [Signal(s, name=f"t{k}", init=vals[k]) for k, s in enumerate(shapes)]
        offs = [Signal(s, name=f"o{k}", init=vals[len(shapes) + k]) for k, s in enumerate(offshapes)]
        dummy = Signal(); m.d.comb += dummy.eq(1)
        rows = [mem.data[i] for i in range(mdepth)]
        allv = sigs + offs + rows
        g = gen_expr.TargetGen(rng, sigs + rows + rows, offs, alias=True, hist=hist)
        t = g.target(rng.randint(1, depth))
        if t is None:
            continue
        w = len(t)
        v = rng.choice([rng.randint(-(1 << (w + 1)), (1 << (w + 1))), (1 << w) - 1, -1, 0])
        sigidx = {id(s): i for i, s in enumerate(sigs + offs)}
        for i in range(mdepth):
            sigidx[("row", id(mem.data), i)] = len(sigs) + len(offs) + i
        state = vals + rinit
        req = f"(assign {ser_ctx([x.shape() for x in allv])} {ser_value(t, sigidx)} {v} {ser_env(state)})"
        out = []
        try:
            sim = Simulator(m)

            async def tb(ctx):
                ctx.set(t, v)
                out.extend(ctx.get(x) for x in allv)
            sim.add_testbench(tb)
            sim.run()
            tbres = out
        except Exception as e:
            tbres = ("error", errkind(e), repr(e)[:200])
        cases.append({"req": req, "repr": repr(t)[:300], "v": v, "state": state, "tb": tbres, "circuit": None})
    return {"seed": seed, "cases": cases, "hist": hist}


# ------------------------------------------------------------------------------------------------
# reads of value-castables whose shape is a shape-castable (signed ones in particular): `ctx.get` lifts the value
# the circuit holds with the shape's `from_bits`; `ctx.set` of a lifted value followed by `ctx.get` returns it

_CAST_TYPES = None


def _cast_types():
    """a small user-defined shape-castable: signed fixed-point numbers. `from_bits` takes the number the circuit holds
    (negative for a set sign bit, as documented for ShapeCastable.from_bits) and returns an exact Fraction"""
    global _CAST_TYPES
    if _CAST_TYPES is None:
        from fractions import Fraction
        from amaranth.hdl import ShapeCastable, ValueCastable, Value, Const, Format, signed

        class Q(ShapeCastable):
            def __init__(self, width, frac):
                self.width, self.frac = width, frac

            def as_shape(self):
                return signed(self.width)

            def __call__(self, target):
                return QValue(self, target)

            def const(self, init):
                if isinstance(init, QValue):
                    return init
                return QValue(self, Const(int(round((init or 0) * (1 << self.frac))), signed(self.width)))

            def from_bits(self, raw):
                return Fraction(raw, 1 << self.frac)

            def format(self, value, spec):
                return Format("{}", Value.cast(value))

            def __repr__(self):
                return f"Q({self.width}, {self.frac})"

        class QValue(ValueCastable):
            def __init__(self, shape, target):
                self._shape, self._target = shape, Value.cast(target)

            def shape(self):
                return self._shape

            def as_value(self):
                return self._target

        _CAST_TYPES = (Q, QValue)
    return _CAST_TYPES


def cast_describe(x):
    import enum as py_enum
    from fractions import Fraction
    from amaranth.lib import data
    if isinstance(x, py_enum.Enum):
        return f"m{x.value}"
    if isinstance(x, data.Const):
        return f"c{x.as_bits()}"
    if isinstance(x, bool):
        return f"i{int(x)}"
    if isinstance(x, int):
        return f"i{x}"
    if isinstance(x, Fraction):
        return f"q{x.numerator}/{x.denominator}"
    return f"?{type(x).__name__}"


def cast_lift(descr, v):
    """the shape's from_bits applied to the number v the circuit holds, on the abstract description of the shape"""
    from fractions import Fraction
    if descr[0] == "int":
        return f"i{v}"
    if descr[0] == "enum":
        return f"m{v}" if v in descr[1] else "err:ValueError"
    if descr[0] == "q":
        f = Fraction(v, 1 << descr[1])
        return f"q{f.numerator}/{f.denominator}"
    return f"c{v & ((1 << descr[1]) - 1)}"           # a layout: the data.Const of the bit pattern


def cast_job(args):
    """signals, struct fields and memory rows shaped by a signed enumeration / a user fixed-point type / signed plain
    shapes; in every step the state is set through the plain underlying values, optionally one write goes through a
    value-castable (member, Fraction, int), then every value-castable is read with ctx.get"""
    _tag, seed, n_cases = args
    import warnings
    warnings.simplefilter("ignore")
    from fractions import Fraction
    from amaranth.hdl import Signal, Module, Value, Shape, signed, unsigned
    from amaranth.lib import data, enum as aenum
    from amaranth.lib.memory import Memory
    from amaranth.sim import Simulator
    Q, _QV = _cast_types()
    rng = random.Random(seed)
    cases = []

    def mk_enum(name, w, sg, want_negative):
        lo, hi = (-(1 << (w - 1)), 1 << (w - 1)) if sg else (0, 1 << w)
        dom = list(range(lo, hi))
        vals = rng.sample(dom, rng.randint(1, min(4, len(dom))))
        if want_negative and sg and not any(v < 0 for v in vals):
            vals[0] = rng.randint(lo, -1)
        vals = sorted(set(vals))
        ns = aenum.EnumType.__prepare__(name, (aenum.Enum,))
        for i, v in enumerate(vals):
            ns[f"M{i}"] = v
        return aenum.EnumType(name, (aenum.Enum,), ns, shape=Shape(w, sg)), tuple(vals)

    def rand_in(shape, descr):
        w, sg = shape.width, shape.signed
        lo, hi = (-(1 << (w - 1)), (1 << (w - 1)) - 1) if sg and w else (0, (1 << w) - 1)
        if descr[0] == "enum" and rng.random() < 0.88:
            return rng.choice(descr[1])
        r = rng.random()
        if sg and r < 0.55:
            return rng.randint(lo, -1)                 # negative values are the point of this stream
        if r < 0.7:
            return rng.choice([lo, hi, -1 if sg else hi, 0])
        return rng.randint(lo, hi)

    for _ in range(n_cases):
        Lv, lv_vals = mk_enum("Lv", rng.randint(1, 5), True, rng.random() < 0.9)
        Md, md_vals = mk_enum("Md", rng.randint(1, 3), False, False)
        qw = rng.randint(2, 7)
        Q1 = Q(qw, rng.randint(0, qw))
        qw2 = rng.randint(1, 6)
        Q2 = Q(qw2, rng.randint(0, qw2 + 1))
        fkinds = {"lv": (Lv, ("enum", lv_vals), "signed-enum"), "md": (Md, ("enum", md_vals), "unsigned-enum"),
                  "g": (Q2, ("q", Q2.frac), "fixed-point"), "n": (signed(rng.randint(1, 5)), ("int",), "signed-plain"),
                  "u": (unsigned(rng.randint(0, 3)), ("int",), "unsigned-plain")}
        names = [n for n in fkinds if rng.random() < 0.7]
        if not {"lv", "g"} & set(names):
            names.append(rng.choice(["lv", "g"]))
        rng.shuffle(names)
        lay = data.StructLayout({n: fkinds[n][0] for n in names})
        row_choice = rng.choice(["lv", "lv", "q", "plain", "struct", "struct"])
        if row_choice == "lv" and 0 not in lv_vals:
            row_choice = "struct"          # MemoryData.Init evaluates shape.const(None), which an enumeration without 0 refuses
        rshape, rdescr, rkind = {"lv": (Lv, ("enum", lv_vals), "signed-enum"), "q": (Q1, ("q", Q1.frac), "fixed-point"),
                                 "plain": (signed(rng.randint(2, 6)), ("int",), "signed-plain"),
                                 "struct": (lay, ("layout", lay.size), "layout")}[row_choice]
        mdepth = rng.randint(1, 3)
        m = Module()
        lv = Signal(Lv, name="lv", init=Lv(rng.choice(lv_vals)))
        fx = Signal(Q1, name="fx")
        st = Signal(lay, name="st")
        rinit = {"lv": lambda: Lv(rng.choice(lv_vals)), "q": lambda: Fraction(rng.randint(-(1 << (qw - 1)), (1 << (qw - 1)) - 1), 1 << Q1.frac),
                 "plain": lambda: rng.randint(-2, 1), "struct": lambda: {}}[row_choice]
        m.submodules.mem = mem = Memory(shape=rshape, depth=mdepth, init=[rinit() for _i in range(mdepth)])
        dummy = Signal()
        m.d.comb += dummy.eq(1)
        rows = [mem.data[i] for i in range(mdepth)]
        under = [Value.cast(lv), Value.cast(fx), Value.cast(st)] + [Value.cast(r) for r in rows]
        udescr = [("enum", lv_vals), ("q", Q1.frac), ("layout", lay.size)] + [rdescr] * mdepth
        sigidx = {id(s): i for i, s in enumerate(under[:3])}
        for i in range(mdepth):
            sigidx[("row", id(mem.data), i)] = 3 + i
        # what is read: (name, kind for the histogram, value-castable or value, lift, may appear in a circuit)
        reads = [("lv", "signal:signed-enum", lv, ("enum", lv_vals), True), ("fx", "signal:fixed-point", fx, ("q", Q1.frac), True),
                 ("st", "signal:layout", st, ("layout", lay.size), True)]
        for n in names:
            reads.append((f"st.{n}", "field:" + fkinds[n][2], st[n], fkinds[n][1], True))
        for i, r in enumerate(rows):
            reads.append((f"mem[{i}]", "row:" + rkind, r, rdescr, False))
            if row_choice == "struct":
                for n in names:
                    reads.append((f"mem[{i}].{n}", "rowfield:" + fkinds[n][2], r[n], fkinds[n][1], False))
        refs = []
        for _n, _k, expr, _d, in_circuit in reads:
            if in_circuit:
                ref = Signal(Shape.cast(Value.cast(expr).shape()), name="ref")
                m.d.comb += ref.eq(Value.cast(expr))
                refs.append(ref)
            else:
                refs.append(None)
        # steps
        steps = []
        for _s in range(rng.randint(3, 6)):
            env = []
            for u, d in zip(under, udescr):
                if d[0] == "layout" and rng.random() < 0.7:
                    raw, off = 0, 0                   # choose the state field by field (mostly members, mostly negative)
                    for n in names:
                        fsh = Shape.cast(fkinds[n][0])
                        raw |= (rand_in(fsh, fkinds[n][1]) & ((1 << fsh.width) - 1)) << off
                        off += fsh.width
                    env.append(raw)
                elif d[0] == "layout":
                    env.append(rng.getrandbits(d[1]) if d[1] else 0)
                else:
                    env.append(rand_in(u.shape(), d))
            write = None
            if rng.random() < 0.6:
                cands = [r for r in reads if r[3][0] in ("enum", "q", "int")]
                name, kind, target, d, _c = rng.choice(cands)
                sh = Value.cast(target).shape()
                if d[0] == "enum":
                    iv = rng.choice(d[1])
                    pyv = target.shape()(iv) if hasattr(target.shape(), "__members__") else iv
                elif d[0] == "q" and rng.random() < 0.35:
                    # a plain int / bool through the shape's const(): the circuit stores n * 2**frac, not n (seeded change C05-r5-2)
                    n = rng.choice([0, 1, 1, -1, 2, -2, 3, rng.randint(-6, 6)])
                    iv = n << d[1]
                    pyv = bool(n) if n in (0, 1) and rng.random() < 0.3 else n
                    kind += ":int-written"
                elif d[0] == "q":
                    iv = rng.randint(-(1 << sh.width), 1 << sh.width) if rng.random() < 0.2 else rand_in(sh, d)
                    pyv = Fraction(iv, 1 << d[1])
                else:
                    iv = rng.randint(-(1 << (sh.width + 1)), 1 << (sh.width + 1))
                    pyv = iv
                write = {"name": name, "kind": kind, "target": target, "pyv": pyv, "iv": iv,
                         "lifted": cast_describe(Fraction(iv, 1 << d[1]) if d[0] == "q" else pyv),
                         "ser": ser_value(target, sigidx)}
            steps.append({"env": env, "write": write})
        ctxs = ser_ctx([u.shape() for u in under])
        out_steps = []

        async def tb(ctx):
            for stp in steps:
                o = {"env": stp["env"], "write": None, "reads": []}
                for u, v in zip(under, stp["env"]):
                    ctx.set(u, v)
                w = stp["write"]
                if w is not None:
                    o["write"] = {"name": w["name"], "kind": w["kind"], "iv": w["iv"], "lifted": w["lifted"],
                                  "req": f"(assign {ctxs} {w['ser']} {w['iv']} {ser_env(stp['env'])})"}
                    try:
                        ctx.set(w["target"], w["pyv"])
                        o["write"]["after"] = [ctx.get(u) for u in under]
                    except Exception as e:
                        o["write"]["after"] = ("error", errkind(e), repr(e)[:200])
                for (_n, _k, expr, _d, _c), ref in zip(reads, refs):
                    try:
                        got = cast_describe(ctx.get(expr))
                    except Exception as e:
                        got = "err:" + errkind(e)
                    try:
                        plain = ctx.get(Value.cast(expr))
                    except Exception as e:
                        plain = "err:" + errkind(e)
                    o["reads"].append((got, plain, ctx.get(ref) if ref is not None else None))
                out_steps.append(o)
        err = None
        try:
            sim = Simulator(m)
            sim.add_testbench(tb)
            sim.run()
        except Exception as e:
            err = (errkind(e), repr(e)[:200])
        cases.append({"ctx": ctxs, "error": err, "steps": out_steps,
                      "shapes": {"Lv": (Shape.cast(Lv).width, lv_vals), "Md": (Shape.cast(Md).width, md_vals), "fx": repr(Q1),
                                 "struct": [(n, repr(fkinds[n][0]) if n in ("g", "n", "u") else n) for n in names],
                                 "row": rkind, "depth": mdepth},
                      "reads": [(n, k, ser_value(e, sigidx), d, (Value.cast(e).shape().width, Value.cast(e).shape().signed))
                                for n, k, e, d, _c in reads]})
    return {"seed": seed, "cases": cases}


def judge_cast(chk, job):
    """two rounds with the driver: the state after each write through a value-castable (assign), then every read expression
    in the state of its step (eval); expected = the shape's from_bits of the Spec's number"""
    wreqs = [(ci, si, s["write"]["req"]) for ci, c in enumerate(job["cases"]) for si, s in enumerate(c["steps"]) if s["write"]]
    wresps = dict(((ci, si), r) for (ci, si, _q), r in zip(wreqs, chk.driver.ask([q for _c, _s, q in wreqs])))
    ereqs, espans = [], []
    for ci, c in enumerate(job["cases"]):
        base = {"job_seed": job["seed"], "shapes": c["shapes"], "ctx": c["ctx"]}
        if c["error"] is not None:
            chk.violation(f"simulation with value-castable reads raises {c['error'][0]}", dict(base, kind="castable-sim", error=c["error"], classes=[]))
            espans.append(None)
            continue
        states = []
        for si, s in enumerate(c["steps"]):
            state = s["env"]
            w = s["write"]
            if w is not None:
                p = parse_assign(wresps[(ci, si)])
                wbase = dict(base, request=w["req"], target=w["name"], value=w["lifted"], state=s["env"])
                chk.count(1)
                chk.hist("castable_writes", w["kind"])
                if p is None or not p[0]:
                    chk.not_shown("model rejects a write through a value-castable", dict(wbase, response=wresps[(ci, si)]))
                elif isinstance(w["after"], tuple):
                    chk.violation(f"ctx.set({w['name']}, {w['lifted']}) raises {w['after'][1]}", dict(wbase, kind="castable-set-raises", error=w["after"], classes=[]))
                elif w["after"] != p[1]["spec"]:
                    chk.violation(f"ctx.set({w['name']}, {w['lifted']}) in state {s['env']} gives {w['after']}, the assignment's bits give {p[1]['spec']}",
                                  dict(wbase, kind="castable-set", impl=w["after"], spec=p[1]["spec"], classes=[]))
                else:
                    if w["after"] != p[1]["tb"]:
                        chk.not_shown("write through a value-castable: impl = spec but the model of _eval_assign_inner differs", dict(wbase, impl=w["after"], model=p[1]["tb"]))
                    state = p[1]["spec"]
            states.append(state)
        a = len(ereqs)
        envtxt = " ".join(ser_env(st) for st in states)
        ereqs += [f"(eval {c['ctx']} {ser} {envtxt})" for _n, _k, ser, _d, _sh in c["reads"]]
        espans.append((a, len(ereqs), states))
    eresps = chk.driver.ask(ereqs)
    for c, span in zip(job["cases"], espans):
        if span is None:
            continue
        a, b, states = span
        base = {"job_seed": job["seed"], "shapes": c["shapes"], "ctx": c["ctx"]}
        for ri, ((name, kind, ser, descr, shape), req, resp) in enumerate(zip(c["reads"], ereqs[a:b], eresps[a:b])):
            parsed = exprs.parse_eval(resp)
            if parsed is None or not parsed[1] or parsed[0] != tuple(shape):
                chk.not_shown("driver could not evaluate a value-castable read", dict(base, request=req, response=resp[:200]))
                continue
            reported = False
            for si, (row, s, state) in enumerate(zip(parsed[2], c["steps"], states)):
                got, plain, circ = s["reads"][ri]
                v = row["spec"]
                want = cast_lift(descr, v)
                chk.count(1)
                negative = v < 0
                chk.hist("castable_reads", kind)
                if descr[0] in ("enum", "q"):
                    chk.hist("castable_read_value", ("negative" if negative else "non-negative") + (" non-member" if want.startswith("err") else ""))
                chk.distinct(("cast", c["ctx"], ser, tuple(state)), nontrivial=negative or descr[0] != "int")
                if reported:
                    continue
                rbase = dict(base, request=req, read=name, state=state, written=(s["write"] or {}).get("lifted"))
                if got != want:
                    chk.violation(f"ctx.get({name}) [{kind}] in state {state} returns {got}; the circuit holds {v}, whose from_bits is {want}",
                                  dict(rbase, kind="castable-read", impl=got, spec=want, value=v, classes=[]))
                    reported = True
                elif plain != v:
                    chk.violation(f"ctx.get(Value.cast({name})) in state {state} returns {plain}, exact result is {v}",
                                  dict(rbase, kind="castable-plain-read", impl=plain, spec=v, classes=[]))
                    reported = True
                elif circ is not None and circ != v:
                    chk.violation(f"a combinational signal assigned {name} holds {circ} in state {state}, exact result is {v}",
                                  dict(rbase, kind="castable-circuit", impl=circ, spec=v, classes=[]))
                    reported = True
                elif cast_lift(descr, row["tb"]) != got:
                    chk.not_shown("value-castable read: impl = spec but the model of eval_value differs", dict(rbase, impl=got, model=row["tb"]))
                    reported = True
                # round trip: what was written through this very value-castable is what is read back
                w = s["write"]
                if not reported and w is not None and w["name"] == name and descr[0] in ("enum", "q"):
                    chk.hist("castable_round_trips", kind)
                    sh_w, sh_s = shape
                    fits = (-(1 << (sh_w - 1)) <= w["iv"] < (1 << (sh_w - 1))) if sh_s else (0 <= w["iv"] < (1 << sh_w))
                    if fits and got != w["lifted"]:
                        chk.violation(f"ctx.set({name}, {w['lifted']}) then ctx.get({name}) returns {got}",
                                      dict(rbase, kind="castable-round-trip", impl=got, spec=w["lifted"], classes=[]))
                        reported = True
            if not reported and len(chk.cov["samples"]) < 14 and kind.endswith(("signed-enum", "fixed-point")) and ri % 3 == 0:
                chk.sample({"read": name, "kind": kind, "state": states[0], "returns": c["steps"][0]["reads"][ri][0]}, limit=14)


def parse_assign(resp):
    if not resp.startswith("assign "):
        return None
    parts = resp.split(" ; ")
    ok = parts[0].split()[1] == "ok=1"
    d = common.kv(parts[1])
    return ok, {k: [int(x) for x in v.split(",")] if v else [] for k, v in d.items()}


def write_campaign(chk):
    quick = chk.tier == "quick"
    rng = chk.rng
    plan = [(120 if quick else 1600, 40, 4, False), (30 if quick else 300, 40, 3, True)]
    args = ["witness"] + [(rng.getrandbits(48), n, d, al) for jobs, n, d, al in plan for _ in range(jobs)]
    rowargs = [("rows", rng.getrandbits(48), 40, 3) for _ in range(30 if quick else 400)]
    # (drawn after everything above so that the older streams of a seed stay what they were)
    castargs = [("cast", rng.getrandbits(48), 10) for _ in range(int(os.environ.get("VERIF_C05_CAST", 32 if quick else 400)))]
    if os.environ.get("VERIF_C05_ONLY") == "cast":          # development aid: only the value-castable stream
        args, rowargs = [], []
    with ProcessPoolExecutor(max_workers=min(16, os.cpu_count() or 4)) as ex:
        for job in ex.map(write_job, args + rowargs + castargs, chunksize=2):
            if job.get("kind") == "cast":
                judge_cast(chk, job)
                continue
            for k, v in job["hist"].items():
                chk.hist("target_kinds", k, v)
            resps = chk.driver.ask([c["req"] for c in job["cases"]])
            for c, resp in zip(job["cases"], resps):
                p = parse_assign(resp)
                base = {"request": c["req"], "target": c["repr"], "value": c["v"], "state": c["state"], "job_seed": job["seed"]}
                if p is None or not p[0]:
                    chk.not_shown("model rejects / cannot parse a target amaranth accepted", dict(base, response=resp))
                    continue
                _, m = p
                chk.count(1)
                changed = m["spec"] != c["state"]
                chk.distinct(c["req"], changed)
                chk.hist("changes_state", changed)
                alias = has_alias_under_select(c["req"])
                # testbench write vs Spec
                if isinstance(c["tb"], tuple):
                    chk.violation(f"ctx.set({c['repr']}, {c['v']}) raises {c['tb'][1]}", dict(base, kind="tb-raises", error=c["tb"], classes=[]))
                    continue
                if c["tb"] != m["spec"]:
                    classes = ["F2"] if (c["tb"] == m["old"] and m["old"] != m["tb"]) else []
                    chk.violation(f"ctx.set({c['repr']}, {c['v']}) in state {c['state']} gives {c['tb']}, the assignment's bits give {m['spec']}",
                                  dict(base, kind="tb-write", impl=c["tb"], spec=m["spec"], model=m["tb"], classes=classes))
                    continue
                if c["tb"] != m["tb"]:
                    chk.not_shown("testbench write: impl = spec but the model of _eval_assign_inner differs", dict(base, impl=c["tb"], model=m["tb"]))
                if c["circuit"] is None:        # memory rows cannot be assigned in a circuit
                    chk.hist("row_targets", 1)
                    continue
                # circuit vs testbench (the property's own comparison)
                if isinstance(c["circuit"], tuple):
                    chk.violation(f"circuit with {c['repr']}.eq({c['v']}) raises {c['circuit'][1]}", dict(base, kind="circuit-raises", error=c["circuit"], classes=[]))
                    continue
                if c["circuit"] != c["tb"]:
                    classes = ["F9"] if (alias and c["circuit"] == m["rtl"]) else []
                    chk.violation(f"ctx.set and the circuit disagree on {c['repr']} := {c['v']} in state {c['state']}: testbench {c['tb']}, circuit {c['circuit']}",
                                  dict(base, kind="tb-vs-circuit", tb=c["tb"], circuit=c["circuit"], spec=m["spec"], classes=classes))
                    continue
                if c["circuit"] != m["rtl"]:
                    chk.not_shown("circuit write: impl = spec but the model of _LHSValueCompiler differs", dict(base, impl=c["circuit"], model=m["rtl"]))
                if changed and len(chk.cov["samples"]) < 10:
                    chk.sample({"target": c["repr"], "value": c["v"], "state": c["state"], "after": c["tb"]})


def run(chk):
    if not chk.lean():
        chk.not_shown("Lean build of Properties/C05 failed", chk.build_log[-3000:])
        return
    if os.environ.get("VERIF_C05_ONLY") != "cast":
        exprs.campaign(chk, "tb")
    write_campaign(chk)
    chk.cov["rule"] += ("; writes: random assignable targets (depth<=4, signal offsets incl. beyond the target, zero-width selectors, "
                        "array elements, as_signed/as_unsigned) x random states x corner values, each run through ctx.set and through a "
                        "one-shot sync assignment; non-trivial = the write changes the state"
                        "; value-castable reads: signals, struct fields, memory rows and fields of struct rows shaped by a signed (and an "
                        "unsigned) amaranth.lib.enum.Enum, a user-defined signed fixed-point ShapeCastable (from_bits -> Fraction), signed "
                        "plain shapes and the layout itself; states set through the plain underlying values (55% negative for signed shapes, "
                        "12% non-members), 60% of the steps with one ctx.set through a value-castable (member / Fraction / int); every "
                        "ctx.get(castable) compared with the shape's from_bits of the number the Lean Spec gives for Value.cast(castable) in "
                        "that state (also the plain read, a combinational signal assigned the expression, and the written value read back)")
    chk.assumptions += ["a memory whose row shape is an enumeration is only built when 0 is a member (MemoryData.Init evaluates "
                        "shape.const(None) even for a full initialiser)", "reading a non-member value through an enumeration view raises "
                        "ValueError (Enum.from_bits); this is what the value-castable stream expects for such states",
                        "memory rows are written from testbenches only (they cannot be assigned in a circuit); port behaviour is C11's"]
