"""C03 - clock domains, resets and control inserters behave as specified."""
import os
import random
from concurrent.futures import ProcessPoolExecutor

from .. import common
from ..common import ser_env, errkind

LEVEL = "proof"
EXE = "amodel_c03"


def design_job(args):
    seed, n_designs, n_events = args
    from amaranth.hdl import Cat
    from amaranth.sim import Simulator
    from .. import gen_design, gen_expr
    rng = random.Random(seed)
    out, hist = [], {}
    for _ in range(n_designs):
        case = {"seed": seed}
        try:
            D = gen_design.gen_design(rng, hist)
            head, sigs, sigidx = gen_design.ser_design(D)
        except Exception as e:
            import traceback
            hist["generator_error:" + errkind(e)] = hist.get("generator_error:" + errkind(e), 0) + 1
            case["gen_error"] = traceback.format_exc()[-600:]
            out.append(case)
            continue
        clocks = [cd.clk for cd in D.cds]
        resets = [cd.rst for cd in D.cds if cd.rst is not None]
        free = clocks + resets + D.inputs + D.ctls
        steps = []
        try:
            sim = Simulator(D.top)

            async def tb(ctx):
                for _e in range(n_events):
                    # choose a set of simultaneous changes
                    chosen = []
                    r = rng.random()
                    if r < 0.45:
                        chosen = [rng.choice(clocks)]
                    elif r < 0.6:
                        chosen = rng.sample(clocks, rng.randint(1, len(clocks)))
                    elif r < 0.72 and resets:
                        chosen = [rng.choice(resets)]
                    elif r < 0.82 and resets:
                        chosen = [rng.choice(resets), rng.choice(clocks)]
                    elif r < 0.92:
                        chosen = rng.sample(D.inputs + D.ctls, rng.randint(1, 3))
                    else:
                        chosen = rng.sample(free, rng.randint(1, min(4, len(free))))
                    chosen = list({id(s): s for s in chosen}.values())
                    before = [ctx.get(s) for s in sigs]
                    newvals = []
                    for s in chosen:
                        if any(s is c for c in clocks) or any(s is c for c in resets):
                            newvals.append(1 - ctx.get(s))
                        elif any(s is c for c in D.ctls):
                            newvals.append(rng.choice([0, 1, 1, 1, 2, 3]) % (1 << len(s)))
                        else:
                            newvals.append(gen_expr.rand_value(rng, s.shape()))
                    packed, pos = 0, 0
                    for s, v in zip(chosen, newvals):
                        packed |= (v & ((1 << len(s)) - 1)) << pos
                        pos += len(s)
                    ctx.set(Cat(*chosen), packed)
                    after = [ctx.get(s) for s in sigs]
                    steps.append((before, [(sigidx[id(s)], v) for s, v in zip(chosen, newvals)], after))
            sim.add_testbench(tb)
            sim.run()
        except Exception as e:
            import traceback
            case["error"] = (errkind(e), repr(e)[:200] + traceback.format_exc()[-500:])
        case["head"] = head
        case["names"] = [s.name for s in sigs]
        case["steps"] = steps
        case["req"] = head + "".join(
            f" (step {ser_env(b)} (chg {' '.join(f'({i} {v})' for i, v in chg)}))" for b, chg, _a in steps) + ")"
        out.append(case)
    return {"cases": out, "hist": hist}


def judge(chk, case, resp):
    base = {"job_seed": case["seed"], "names": case.get("names"), "design": case.get("head", "")[:6000]}
    if "gen_error" in case:
        chk.hist("generator_errors", 1)
        return
    if "error" in case:
        chk.violation(f"simulating a legal multi-domain design raises {case['error'][0]}", dict(base, kind="raises", error=case["error"], classes=[]))
        return
    if not resp.startswith("c03 ;"):
        chk.not_shown("driver could not evaluate a design", dict(base, response=resp[:300]))
        return
    rows = []
    for p in resp.split(" ; ")[1:]:
        d = common.kv(p)
        rows.append({k: [int(x) for x in v.split(",")] if v else [] for k, v in d.items()})
    nontrivial = False
    for (before, chg, after), row in zip(case["steps"], rows):
        chk.count(1)
        chk.hist("event_size", len(chg))
        if after != row["spec"]:
            bad = [i for i in range(len(after)) if after[i] != row["spec"][i]]
            chk.violation(f"after the event {[(case['names'][i], v) for i, v in chg]} signal {case['names'][bad[0]]} is {after[bad[0]]}, "
                          f"the property gives {row['spec'][bad[0]]}",
                          dict(base, kind="event", before=before, changes=chg, impl=after, spec=row["spec"], model=row["model"], classes=[]))
            return
        if after != row["actual"]:
            chk.not_shown("event correspondence: impl = spec, the process model run on amaranth's own transformed statements differs",
                          dict(base, before=before, changes=chg, impl=after, model=row["actual"]))
            return
        if after != row["model"]:
            chk.not_shown("event correspondence: impl = spec, the Lean model of the wrappers (ResetInserter/EnableInserter/DomainRenamer) differs",
                          dict(base, before=before, changes=chg, impl=after, model=row["model"]))
            return
        changed = [i for i in range(len(after)) if after[i] != before[i] and i not in [c[0] for c in chg]]
        if changed:
            nontrivial = True
    chk.distinct(case["head"], nontrivial)
    if nontrivial:
        chk.sample({"design": case["head"][:500], "first_steps": case["steps"][:2]}, limit=3)


def run(chk):
    chk.lean()
    quick = chk.tier == "quick"
    rng = chk.rng
    args = [(rng.getrandbits(48), 6, 30) for _ in range(64 if quick else 1500)]
    with ProcessPoolExecutor(max_workers=min(16, os.cpu_count() or 4)) as ex:
        for job in ex.map(design_job, args, chunksize=2):
            for k, v in job["hist"].items():
                chk.hist("constructs", k, v)
            live = [c for c in job["cases"] if "req" in c and "error" not in c]
            resps = chk.driver.ask([c["req"] for c in live])
            it = iter(resps)
            for c in job["cases"]:
                judge(chk, c, next(it) if (c in live) else "")
    chk.cov["rule"] = ("random designs: 1-3 clock domains (pos/neg edge; no/sync/async reset), module trees of depth <= 3 whose leaves hold "
                       "DSL programs (comb and sync), reset-less signals, signals whose bits are split between two leaves/domains, any stack of "
                       "ResetInserter/EnableInserter/DomainRenamer around any node; 30 events per design, each a set of simultaneous changes of "
                       "clocks, resets, controls and inputs (ctx.set(Cat(...))); every signal compared after every event with the Lean model "
                       "(run on amaranth's transformed statements and on its own model of the wrappers) and the Lean Spec. "
                       "non-trivial = some register or comb output changes at some event")
    chk.assumptions += ["memory ports under wrappers are exercised by C11's check (its walks include DomainRenamer/ResetInserter/EnableInserter)",
                        "derived clocks (a clock driven by logic) are not generated"]
