"""C03 - clock domains, resets and control inserters behave as specified."""
import os
import random
from concurrent.futures import ProcessPoolExecutor

from .. import common
from ..common import ser_env, errkind

LEVEL = "proof"
EXE = "amodel_c03"


def simulate(D, sim, sigs, sigidx, rng, n_events, steps):
    """drive `n_events` random events (sets of simultaneous changes of clocks, resets, controls and inputs) into `sim`;
    appends to `steps` (values of all observables before, the changes, values after)"""
    from amaranth.hdl import Cat
    from .. import gen_expr
    clocks = [cd.clk for cd in D.cds]
    resets = [cd.rst for cd in D.cds if cd.rst is not None]
    free = clocks + resets + D.inputs + D.ctls
    bias1 = getattr(D, "bias1", set())

    async def tb(ctx):
        for _e in range(n_events):
            # choose a set of simultaneous changes
            chosen = []
            r = rng.random()
            if r < 0.45:
                chosen = [rng.choice(clocks)]
            elif r < 0.6:
                chosen = rng.sample(clocks, rng.randint(1, len(clocks)))
            elif r < 0.72 and resets:
                chosen = [rng.choice(resets)]
            elif r < 0.82 and resets:
                chosen = [rng.choice(resets), rng.choice(clocks)]
            elif r < 0.92:
                chosen = rng.sample(D.inputs + D.ctls, rng.randint(1, 3 if not bias1 else 5))
            else:
                chosen = rng.sample(free, rng.randint(1, min(4, len(free))))
            chosen = list({id(s): s for s in chosen}.values())
            before = [ctx.get(s) for s in sigs]
            newvals = []
            for s in chosen:
                if any(s is c for c in clocks) or any(s is c for c in resets):
                    newvals.append(1 - ctx.get(s))
                elif any(s is c for c in D.ctls):
                    newvals.append(rng.choice([0, 1, 1, 1, 2, 3]) % (1 << len(s)))
                elif id(s) in bias1:
                    newvals.append(rng.choice([1, 1, 1, 0]))
                else:
                    newvals.append(gen_expr.rand_value(rng, s.shape()))
            packed, pos = 0, 0
            for s, v in zip(chosen, newvals):
                packed |= (v & ((1 << len(s)) - 1)) << pos
                pos += len(s)
            ctx.set(Cat(*chosen), packed)
            after = [ctx.get(s) for s in sigs]
            steps.append((before, [(sigidx[id(s)], v) for s, v in zip(chosen, newvals)], after))
    sim.add_testbench(tb)
    sim.run()


def finish_case(case, D, head, sigs, steps):
    from .. import gen_design
    case["head"] = head
    case["names"] = [gen_design.sig_name(D, s) for s in sigs]
    case["steps"] = steps
    case["req"] = head + "".join(
        f" (step {ser_env(b)} (chg {' '.join(f'({i} {v})' for i, v in chg)}))" for b, chg, _a in steps) + ")"


def design_job(args):
    seed, n_designs, n_events = args
    from amaranth.sim import Simulator
    from .. import gen_design
    rng = random.Random(seed)
    out, hist = [], {}
    for _ in range(n_designs):
        case = {"seed": seed}
        try:
            D = gen_design.gen_design(rng, hist, rename_maps=True, memories=True)
            head, sigs, sigidx = gen_design.ser_design(D)
        except Exception as e:
            import traceback
            hist["generator_error:" + errkind(e)] = hist.get("generator_error:" + errkind(e), 0) + 1
            case["gen_error"] = traceback.format_exc()[-600:]
            out.append(case)
            continue
        steps = []
        try:
            simulate(D, Simulator(D.top), sigs, sigidx, rng, n_events, steps)
        except Exception as e:
            import traceback
            case["error"] = (errkind(e), repr(e)[:200] + traceback.format_exc()[-500:])
        finish_case(case, D, head, sigs, steps)
        out.append(case)
    return {"cases": out, "hist": hist}


def reuse_job(args):
    """one module tree (leaves with DSL programs and memories, any wrappers inside) elaborated ONCE into a Fragment
    object; that object is then the submodule of 2-3 successive designs. Every design has its own top-level Module and
    its own clock domains under the same names: fresh ClockDomain objects declared by the top level with a random edge
    and reset style, or not declared at all (then `prepare()` creates them: rising edge, synchronous reset). Every design
    is simulated from its initial state with hand-driven clocks and compared with the model for *that* design's
    domains."""
    seed, n_cores, n_events = args
    from amaranth.hdl import Fragment
    from amaranth.sim import Simulator
    from .. import gen_design
    rng = random.Random(seed)
    out, hist = [], {}
    for _ in range(n_cores):
        case = {"seed": seed}
        try:
            D = gen_design.gen_design(rng, hist, rename_maps=True, memories=True, attach=False)
            core = Fragment.get(D.core, None)
        except Exception as e:
            import traceback
            hist["generator_error:" + errkind(e)] = hist.get("generator_error:" + errkind(e), 0) + 1
            case["gen_error"] = traceback.format_exc()[-600:]
            out.append(case)
            continue
        used = used_domains(core)
        n_uses = rng.choice([2, 2, 3])
        hist[f"reuse:designs_per_fragment:{n_uses}"] = hist.get(f"reuse:designs_per_fragment:{n_uses}", 0) + 1
        prev = None
        for use in range(n_uses):
            case = {"seed": seed, "reuse": use + 1}
            mode = rng.choice(["declared", "declared", "declared", "created", "mixed"])
            # a domain nothing uses would not be created: it is always declared
            declared = {n: gen_domain_cfg(rng) for n in D.domnames
                        if mode == "declared" or n not in used or (mode == "mixed" and rng.random() < 0.5)}
            case["domains"] = {n: declared.get(n, "created by prepare()") for n in D.domnames}
            key = "reuse:use1" if use == 0 else "reuse:use%d:%s" % (use + 1, "same_styles_as_before" if declared == prev else "styles_differ")
            hist[key] = hist.get(key, 0) + 1
            for n in D.domnames:
                k = "reuse:domain:" + ("/".join(declared[n]) if n in declared else "created")
                hist[k] = hist.get(k, 0) + 1
            prev = declared
            steps, head, sigs = [], "", []
            try:
                cds = {n: make_domain(n, c) for n, c in declared.items()}
                top = gen_design.attach_top(D, list(cds.values()), core)
                sim = Simulator(top)
                present = sim._design.fragment.domains      # the domains of the prepared design, created ones included
                missing = sorted(n for n in D.domnames if n not in present)
                if missing:
                    case["error"] = ("missing-domain", f"domain(s) {missing} that the design uses are not among the domains of the "
                                     f"prepared design {sorted(present)} (Simulator.add_clock would raise NameError)")
                D.cds = [cds.get(n) or present.get(n) or make_domain(n, ("pos", "sync")) for n in D.domnames]
                head, sigs, sigidx = gen_design.ser_design(D)
                if "error" not in case:
                    simulate(D, sim, sigs, sigidx, rng, n_events, steps)
            except Exception as e:
                import traceback
                case["error"] = (errkind(e), repr(e)[:200] + traceback.format_exc()[-500:])
            if head:
                finish_case(case, D, head, sigs, steps)
            else:
                case["head"], case["names"], case["steps"] = "", [], []
            out.append(case)
    return {"cases": out, "hist": hist}


def gen_domain_cfg(rng):
    return (rng.choice(["pos", "neg"]), rng.choice(["none", "sync", "sync", "async"]))


def make_domain(name, cfg):
    from amaranth.hdl import ClockDomain
    edge, kind = cfg
    return ClockDomain(name, clk_edge=edge, reset_less=(kind == "none"), async_reset=(kind == "async"))


def used_domains(frag):
    """names of the clock domains the statements and memory ports below `frag` use"""
    from amaranth.hdl._mem import MemoryInstance
    out = set()

    def walk(f):
        out.update(d for d in f.statements if d != "comb")
        if isinstance(f, MemoryInstance):
            out.update(p._domain for p in f._read_ports + f._write_ports if p._domain != "comb")
        for sub, _n, _l in f.subfragments:
            walk(sub)
    walk(frag)
    return out


def judge(chk, case, resp):
    base = {"job_seed": case["seed"], "names": case.get("names"), "design": case.get("head", "")[:6000]}
    where = ""
    if "reuse" in case:
        base["stream"] = "reuse"
        base["use_of_fragment"] = case["reuse"]
        base["domains"] = case["domains"]
        where = f"[design #{case['reuse']} holding one Fragment object; domains {case['domains']}] "
    if "gen_error" in case:
        chk.hist("generator_errors", 1)
        return
    if "error" in case:
        what = "cannot be driven" if case["error"][0] == "missing-domain" else f"raises {case['error'][0]}"
        chk.violation(where + f"simulating a legal multi-domain design {what}: {case['error'][1][:200]}", dict(base, kind="raises", error=case["error"], classes=[]))
        return
    if not resp.startswith("c03 ;"):
        chk.not_shown("driver could not evaluate a design", dict(base, response=resp[:300]))
        return
    rows = []
    for p in resp.split(" ; ")[1:]:
        d = common.kv(p)
        rows.append({k: [int(x) for x in v.split(",")] if v else [] for k, v in d.items()})
    nontrivial = False
    for (before, chg, after), row in zip(case["steps"], rows):
        chk.count(1)
        chk.hist("event_size", len(chg))
        if after != row["spec"]:
            bad = [i for i in range(len(after)) if after[i] != row["spec"][i]]
            chk.violation(where + f"after the event {[(case['names'][i], v) for i, v in chg]} signal {case['names'][bad[0]]} is {after[bad[0]]}, "
                          f"the property gives {row['spec'][bad[0]]}",
                          dict(base, kind="event", before=before, changes=chg, impl=after, spec=row["spec"], model=row["model"], classes=[]))
            return
        if after != row["actual"]:
            chk.not_shown("event correspondence: impl = spec, the process model run on amaranth's own transformed statements differs",
                          dict(base, before=before, changes=chg, impl=after, model=row["actual"]))
            return
        if after != row["model"]:
            chk.not_shown("event correspondence: impl = spec, the Lean model of the wrappers (ResetInserter/EnableInserter/DomainRenamer) differs",
                          dict(base, before=before, changes=chg, impl=after, model=row["model"]))
            return
        changed = [i for i in range(len(after)) if after[i] != before[i] and i not in [c[0] for c in chg]]
        if changed:
            nontrivial = True
    chk.distinct(case["head"], nontrivial)
    if nontrivial:
        chk.sample({"design": case["head"][:500], "first_steps": case["steps"][:2]}, limit=3)


def run(chk):
    chk.lean()
    quick = chk.tier == "quick"
    rng = chk.rng
    args = [(rng.getrandbits(48), 6, 30) for _ in range(64 if quick else 1500)]
    reuse_args = [(rng.getrandbits(48), 3, 24) for _ in range(40 if quick else 600)]

    def consume(job, stream):
        for k, v in job["hist"].items():
            chk.hist("constructs" if stream == "designs" else "constructs_reuse_stream", k, v)
        live = [c for c in job["cases"] if "req" in c and "error" not in c]
        resps = chk.driver.ask([c["req"] for c in live])
        it = iter(resps)
        for c in job["cases"]:
            chk.hist("streams", stream if "gen_error" not in c else stream + ":generator_error")
            judge(chk, c, next(it) if (c in live) else "")
    with ProcessPoolExecutor(max_workers=min(16, os.cpu_count() or 4)) as ex:
        for job in ex.map(design_job, args, chunksize=2):
            consume(job, "designs")
        for job in ex.map(reuse_job, reuse_args, chunksize=2):
            consume(job, "reuse")
    chk.cov["rule"] = ("random designs: 1-3 clock domains (pos/neg edge; no/sync/async reset), module trees of depth <= 3 whose leaves hold "
                       "DSL programs (comb and sync), reset-less signals, signals whose bits are split between two leaves/domains, memories "
                       "(lib.memory.Memory, depth 2/4, one write port and 1-2 read ports - synchronous non-transparent or asynchronous - each in "
                       "any domain of the design; port addresses are inputs or FIFO-like pointer registers; rows observed through "
                       "ctx.get(mem.data[i])), any stack of ResetInserter/EnableInserter/DomainRenamer around any node, DomainRenamer maps with "
                       "one entry or several (swap, chain listed source-first / target-first, rotation, merge, identity entries: 60 % of the "
                       "renamers of designs with >= 2 domains); 30 events per design, each a set of simultaneous changes of "
                       "clocks, resets, controls and inputs (ctx.set(Cat(...))); every signal and memory row compared after every event with "
                       "the Lean model (run on amaranth's transformed statements / memory ports and on its own model of the wrappers) and the "
                       "Lean Spec (a memory = rows that no reset touches; a write port = a process of its domain replacing the addressed row "
                       "when enabled; a synchronous read port = a process of its domain capturing the addressed row). "
                       "reuse stream: the module tree is elaborated once (Fragment.get) and that Fragment object is the submodule of 2-3 "
                       "successive designs, each with a fresh top-level Module and fresh ClockDomain objects under the same names (declared "
                       "with random edge / reset style, or left to prepare() to create), each simulated from its initial state (24 events) and "
                       "compared with the model for that design's domains. "
                       "non-trivial = some register, row or comb output changes at some event")
    chk.assumptions += ["memories in C03's designs have one write port and non-transparent read ports (granularity, transparency, several "
                        "write ports, out-of-range addresses are C11's subject); designs with memories use one-bit inserter controls: with a wider "
                        "control EnableInserter enables statements iff control == 1 but a write port iff control != 0, and a synchronous read "
                        "port then fails an assertion in prepare() (prelim/repro/c03_enable_inserter_wide_control_memory.py; reported, not exercised)",
                        "derived clocks (a clock driven by logic) are not generated"]
