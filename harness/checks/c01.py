"""C01 - operators compute exact integer results in shapes that never overflow."""
from .. import exprs

LEVEL = "proof"


def run(chk):
    ok = chk.lean()
    if not ok:
        chk.not_shown("Lean build of Properties/C01 failed", chk.build_log[-3000:])
        return
    exprs.campaign(chk, "circuit")
    chk.assumptions += [
        "exec() of the generated process source runs what _pyrtl emitted",
        "the binary cat / ite-chain encoding of Concat / SwitchValue (validated by this correspondence)",
    ]
