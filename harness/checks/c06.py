"""C06 - multiply-driven bits and combinational loops are rejected; legal designs are not.

Two families of cases, both generated on an abstract syntax from which the real amaranth design is
*built* (so Lean and amaranth are given the same design):

(i)  conflicts: a module tree, signals, and a list of drives (signal, lo, hi, who); who is logic in a
     (module, domain), an Instance output, the data of a memory read port, the input side of an
     IOBuffer, or a top-level input port. Observed: the exception kind of build_netlist / rtlil.convert
     (DriverConflict, the early SyntaxError of `Module`, or none). Compared with Model (`check`,
     `early`) and Spec (`Conflict`, `SameModuleConflict`, decided by `conflictB`, `sameModuleB`).
(i') the same, with modules (and with them their subtrees) wrapped in ResetInserter / EnableInserter whose control
     dicts name two or three clocked domains (sync, fast, slow): one fragment with statements in several controlled
     domains, uncontrolled domains next to them, nested modules, stacked and nested inserters, reset-less signals,
     DomainRenamer inside or outside the inserter. An inserter adds logic only to bits (and in the domain) its wrapped
     statements already drive, so the Spec side is decided from the drives of the unwrapped design.
(ii) cycles: statements over signal bits; each statement is bit-precise (slices, Cat, ~ & | ^, Mux,
     conditions) or word-level (+ - * == << >> part-select matches reductions ...). The abstract
     bit-dependency graph follows from the statements by the Spec's reading (a word-level operator
     makes every result bit depend on every operand bit). Observed: CombinationalCycle / none / a bare
     AssertionError. Compared with the Spec on the abstract graph (certificate checked by Lean),
     and with Model and Spec on the *dumped* real netlist graph (cells, comb_edges_to, per-bit flags,
     traversal order), which ties the DFS model itself (outcome and length of the reported path).
"""
import itertools
import json
import multiprocessing
import os
import random
import time
from concurrent.futures import ProcessPoolExecutor

from .. import common

LEVEL = "proof"
EXE = "amodel_c06"

DOMS = ["comb", "sync", "fast"]
ALL_DOMS = DOMS + ["slow"]          # "slow" only exists in the control-inserter stream
WORKERS = min(16, os.cpu_count() or 4)


# =================================================================================================
# (i) driver conflicts
# =================================================================================================

def _tree(rng, n):
    """parents of modules 1..n-1 (module 0 is the top)"""
    return [None] + [rng.randrange(k) for k in range(1, n)]


def gen_conflict_case(rng):
    nmods = rng.choice([1, 2, 3, 3, 4, 5])
    tree = _tree(rng, nmods)
    nsig = rng.choice([1, 1, 2, 3])
    sigs = []
    for _ in range(nsig):
        sigs.append({"w": rng.choice([1, 2, 3, 4, 4, 5, 6, 8]), "kind": "plain"})
    mode = "dsl" if rng.random() < 0.75 else "raw"
    drives = []
    # external drivers
    if rng.random() < 0.45:
        for _ in range(rng.choice([1, 1, 2])):
            kind = rng.choice(["inst", "inst", "mem", "iobuf", "top"])
            mod = rng.randrange(nmods)
            if kind == "mem":
                w = rng.choice([1, 2, 4, 5])
                sigs.append({"w": w, "kind": "mem", "mod": mod, "dom": rng.choice(["comb", "sync"])})
                drives.append({"sig": len(sigs) - 1, "lo": 0, "hi": w, "src": "mem"})
            elif kind == "top":
                s = rng.randrange(nsig)
                if not any(d["src"] == "top" and d["sig"] == s for d in drives):
                    drives.append({"sig": s, "lo": 0, "hi": sigs[s]["w"], "src": "top"})
            else:
                s = rng.randrange(nsig)
                w = sigs[s]["w"]
                lo = rng.randrange(w)
                hi = rng.randint(lo + 1, w)
                drives.append({"sig": s, "lo": lo, "hi": hi, "src": kind, "mod": mod})
    # logic
    nl = rng.choice([0, 1, 2, 2, 3, 3, 4, 5])
    # bias: few (module, domain) pairs so that both legal sharing and conflicts are common
    pairs = [(rng.randrange(nmods), rng.choice(DOMS)) for _ in range(rng.choice([1, 2, 2, 3]))]
    disjoint = rng.random() < 0.35       # near-miss legal designs: bit-disjoint by construction
    used = {}
    for _ in range(nl):
        s = rng.randrange(len(sigs))
        w = sigs[s]["w"]
        mod, dom = rng.choice(pairs) if rng.random() < 0.8 else (rng.randrange(nmods), rng.choice(DOMS))
        lo = rng.randrange(w)
        hi = rng.randint(lo + 1, w)
        if disjoint:
            free = [b for b in range(w) if (s, b) not in used]
            if not free:
                continue
            lo = rng.choice(free)
            hi = lo + 1
            while hi < w and (s, hi) not in used and rng.random() < 0.6:
                hi += 1
            for b in range(lo, hi):
                used[(s, b)] = True
        forms = ["slice", "slice", "nested", "if", "switch", "signed"]
        if hi - lo >= 2:
            forms += ["cat", "part"]
        if lo == 0 and hi == w:
            forms += ["whole"]
        form = rng.choice(forms) if mode == "dsl" else rng.choice(["slice", "nested", "cat" if hi - lo >= 2 else "slice"])
        drives.append({"sig": s, "lo": lo, "hi": hi, "src": "logic", "mod": mod, "dom": dom, "form": form})
    rng.shuffle(drives)
    renames = {}
    if mode == "dsl" and nmods > 1 and rng.random() < 0.2:
        leaves = [k for k in range(1, nmods) if k not in tree[1:]]
        if leaves:
            k = rng.choice(leaves)
            if not any(d.get("mod") == k and d.get("dom") == "fast" for d in drives):
                renames[str(k)] = 1
    via = "convert" if rng.random() < 0.1 else "build_netlist"
    return {"tree": tree, "sigs": sigs, "drives": drives, "mode": mode, "renames": renames, "via": via}


def _subtree(tree, m):
    """modules whose chain of parents reaches m (m included)"""
    out = []
    for k in range(len(tree)):
        j = k
        while j is not None and j != m:
            j = tree[j]
        if j == m:
            out.append(k)
    return out


def gen_ctl_conflict_case(rng):
    """conflict cases whose modules are wrapped in ResetInserter / EnableInserter with per-domain control dicts.
    An inserter only adds logic to bits (and in the domain) its wrapped statements already drive, so who drives which
    bit - and with it the Spec's verdict - is that of the unwrapped design."""
    clocked = ["sync", "fast", "slow"]
    nmods = rng.choice([1, 2, 2, 3, 3, 4])
    tree = _tree(rng, nmods)
    nsig = rng.choice([1, 2, 2, 3, 4])
    sigs = []
    for _ in range(nsig):
        w = rng.choice([1, 2, 3, 4, 4, 5, 6, 8])
        sigs.append({"w": w, "kind": "plain", "init": rng.choice([0, rng.getrandbits(w), (1 << w) - 1]),
                     "rl": rng.random() < 0.12})
    mode = "dsl" if rng.random() < 0.75 else "raw"
    drives = []
    if rng.random() < 0.2:
        kind = rng.choice(["inst", "iobuf", "top"])
        s = rng.randrange(nsig)
        if kind == "top":
            drives.append({"sig": s, "lo": 0, "hi": sigs[s]["w"], "src": "top"})
        else:
            lo = rng.randrange(sigs[s]["w"])
            drives.append({"sig": s, "lo": lo, "hi": rng.randint(lo + 1, sigs[s]["w"]), "src": kind,
                           "mod": rng.randrange(nmods)})
    # one module with statements in two or three clocked domains (one fragment, several controlled domains)
    busy = rng.randrange(nmods)
    busydoms = rng.sample(clocked, rng.choice([2, 2, 3]))
    pairs = [(busy, d) for d in busydoms]
    if rng.random() < 0.5:
        pairs.append((busy, "comb"))
    for _ in range(rng.choice([0, 1, 1, 2])):
        pairs.append((rng.randrange(nmods), rng.choice(ALL_DOMS)))
    disjoint = rng.random() < 0.6
    used = {}
    nl = rng.choice([2, 3, 3, 4, 4, 5, 6])
    for i in range(nl):
        s = rng.randrange(len(sigs))
        w = sigs[s]["w"]
        if i < len(busydoms):
            mod, dom = pairs[i]                    # every domain of the busy module does have a statement
        else:
            mod, dom = rng.choice(pairs) if rng.random() < 0.85 else (rng.randrange(nmods), rng.choice(ALL_DOMS))
        lo = rng.randrange(w)
        hi = rng.randint(lo + 1, w)
        if disjoint:
            free = [b for b in range(w) if (s, b) not in used]
            if not free:
                free_sigs = [k for k in range(len(sigs)) if any((k, b) not in used for b in range(sigs[k]["w"]))]
                if not free_sigs:
                    continue
                s = rng.choice(free_sigs)
                w = sigs[s]["w"]
                free = [b for b in range(w) if (s, b) not in used]
            lo = rng.choice(free)
            hi = lo + 1
            while hi < w and (s, hi) not in used and rng.random() < 0.6:
                hi += 1
            for b in range(lo, hi):
                used[(s, b)] = True
        forms = ["slice", "slice", "nested", "if", "switch", "signed"]
        if hi - lo >= 2:
            forms += ["cat", "part"]
        if lo == 0 and hi == w:
            forms += ["whole"]
        form = rng.choice(forms) if mode == "dsl" else rng.choice(["slice", "nested", "cat" if hi - lo >= 2 else "slice"])
        drives.append({"sig": s, "lo": lo, "hi": hi, "src": "logic", "mod": mod, "dom": dom, "form": form})
    rng.shuffle(drives)
    renames = {}
    if mode == "dsl" and nmods > 1 and rng.random() < 0.15:
        leaves = [k for k in range(1, nmods) if k not in tree[1:]]
        if leaves:
            k = rng.choice(leaves)
            if not any(d.get("mod") == k and d.get("dom") == "fast" for d in drives):
                renames[str(k)] = 1
    # the wrappers: mostly around the busy module or one of its ancestors
    ctl = {}
    chain = []
    j = busy
    while j is not None:
        chain.append(j)
        j = tree[j]
    targets = [rng.choice(chain) if rng.random() < 0.9 else rng.randrange(nmods)]
    if rng.random() < 0.35:
        targets.append(rng.randrange(nmods))
    for m in targets:
        r = rng.random()
        if r < 0.75:
            doms = list(busydoms)
            if rng.random() < 0.3:
                doms = doms[:-1] + [d for d in clocked if d not in busydoms][:1]
        elif r < 0.9:
            doms = rng.sample(clocked, rng.choice([2, 3]))
        else:
            doms = [rng.choice(clocked)]
        doms = list(dict.fromkeys(doms))
        rng.shuffle(doms)
        ctl.setdefault(str(m), []).append({"kind": "reset" if rng.random() < 0.65 else "enable", "doms": doms})
    return {"tree": tree, "sigs": sigs, "drives": drives, "mode": mode, "renames": renames,
            "via": "convert" if rng.random() < 0.1 else "build_netlist", "ctl": ctl, "ctl_first": rng.random() < 0.7,
            "domains": clocked, "disjoint": disjoint}


def ctl_profile(case):
    """for the histograms: per inserter kind, the largest number of *controlled* clocked domains that have statements
    in one fragment under that inserter (names as the inserter sees them)"""
    best = {}
    for m, wrappers in case["ctl"].items():
        m = int(m)
        for wr in wrappers:
            for f in _subtree(case["tree"], m):
                seen = set()
                for d in case["drives"]:
                    if d["src"] == "logic" and d["mod"] == f:
                        dom = d["dom"]
                        renamed_first = case["renames"].get(str(f)) and not (f == m and case["ctl_first"])
                        if renamed_first and dom == "sync":
                            dom = "fast"
                        seen.add(dom)
                n = len(seen & set(wr["doms"]))
                best[wr["kind"]] = max(best.get(wr["kind"], 0), n)
    return best


def conflict_request(case):
    """the drives as the driver sees them (after DomainRenamer)"""
    out = []
    for d in case["drives"]:
        if d["src"] == "logic":
            dom = d["dom"]
            if case["renames"].get(str(d["mod"])) and dom == "sync":
                dom = "fast"
            src = f"(l {d['mod']} {ALL_DOMS.index(dom)})"
        else:
            src = d["src"]
        out.append(f"(d {d['sig']} {d['lo']} {d['hi']} {src})")
    return "(drives " + " ".join(out) + ")"


def run_conflict_case(case):
    """build the design with real amaranth objects and convert it; returns the error kind"""
    from amaranth.hdl import (Module, Signal, Fragment, Instance, IOPort, IOBufferInstance, ClockDomain, Cat,
                              DomainRenamer, Const, SyntaxError, ResetInserter, EnableInserter)
    from amaranth.hdl._ir import build_netlist, PortDirection
    from amaranth.lib.memory import Memory
    from amaranth.back import rtlil

    n = len(case["tree"])
    dsl = case["mode"] == "dsl"
    mods = [Module() if dsl else Fragment() for _ in range(n)]
    sigs = []
    ports = []
    aux = []
    for i, s in enumerate(case["sigs"]):
        if s["kind"] == "plain" and ("init" in s or "rl" in s):
            sigs.append(Signal(s["w"], name=f"s{i}", init=s.get("init", 0), reset_less=bool(s.get("rl"))))
        elif s["kind"] == "plain":
            sigs.append(Signal(s["w"], name=f"s{i}"))
        else:
            mem = Memory(shape=s["w"], depth=4, init=[])
            rp = mem.read_port(domain=s["dom"])
            sigs.append(rp.data)
            aux.append((s["mod"], mem, f"mem{i}"))
            ports.append(rp.addr)
    cnt = [0]

    def fresh(w, name):
        cnt[0] += 1
        s = Signal(w, name=f"{name}{cnt[0]}")
        ports.append(s)
        return s

    try:
        for mod, mem, name in aux:
            if dsl:
                mods[mod].submodules[name] = mem
            else:
                mods[mod].add_subfragment(Fragment.get(mem, None), name)
        top_ports = []
        for d in case["drives"]:
            S = sigs[d["sig"]]
            lo, hi = d["lo"], d["hi"]
            w = hi - lo
            if d["src"] == "mem":
                continue
            if d["src"] == "top":
                top_ports.append((f"p{d['sig']}", S, PortDirection.Input))
                continue
            if d["src"] == "inst":
                cnt[0] += 1
                inst = Instance("ext", o_o=S[lo:hi], i_i=fresh(1, "ii"))
                if dsl:
                    mods[d["mod"]].submodules[f"inst{cnt[0]}"] = inst
                else:
                    mods[d["mod"]].add_subfragment(inst, f"inst{cnt[0]}")
                continue
            if d["src"] == "iobuf":
                cnt[0] += 1
                port = IOPort(w, name=f"io{cnt[0]}")
                ports.append(port)
                buf = IOBufferInstance(port, i=S[lo:hi])
                if dsl:
                    mods[d["mod"]].submodules[f"buf{cnt[0]}"] = buf
                else:
                    mods[d["mod"]].add_subfragment(buf, f"buf{cnt[0]}")
                continue
            # logic
            m = mods[d["mod"]]
            form = d["form"]
            rhs = fresh(w, "r")
            if form == "slice" or form == "if" or form == "switch":
                lhs = S[lo:hi]
            elif form == "whole":
                lhs = S
            elif form == "nested":
                a = lo // 2
                b = hi + (len(S) - hi) // 2
                lhs = S[a:b][lo - a:hi - a]
            elif form == "cat":
                mid = lo + max(1, w // 2)
                lhs = Cat(S[lo:mid], S[mid:hi])
            elif form == "signed":
                lhs = S[lo:hi].as_signed()
            elif form == "part":
                k = max(1, (w - 1).bit_length())
                lhs = S[lo:hi].bit_select(fresh(k, "off"), 1)
            else:
                raise AssertionError(form)
            if dsl:
                if form == "if":
                    with m.If(fresh(1, "c")):
                        m.d[d["dom"]] += lhs.eq(rhs)
                elif form == "switch":
                    with m.Switch(fresh(2, "sel")):
                        with m.Case(1):
                            m.d[d["dom"]] += lhs.eq(rhs)
                        with m.Default():
                            m.d[d["dom"]] += lhs.eq(~rhs)
                else:
                    m.d[d["dom"]] += lhs.eq(rhs)
            else:
                m.add_statements(d["dom"], lhs.eq(rhs))
    except SyntaxError as e:
        return "SyntaxError", str(e)[:120]

    def wrap(k, sub):
        """ResetInserter / EnableInserter around module k (and with it its subtree), one control signal per domain"""
        for wr in case.get("ctl", {}).get(str(k), []):
            controls = {dom: fresh(1, "ctl") for dom in wr["doms"]}
            sub = (ResetInserter if wr["kind"] == "reset" else EnableInserter)(controls)(sub)
        return sub

    try:
        domains = case.get("domains", ["sync", "fast"])
        if dsl:
            for dom in domains:
                setattr(mods[0].domains, dom, ClockDomain(dom))
            for k in range(n - 1, 0, -1):
                sub = mods[k]
                if case.get("ctl_first", True):
                    sub = wrap(k, sub)
                if case["renames"].get(str(k)):
                    sub = DomainRenamer({"sync": "fast"})(sub)
                if not case.get("ctl_first", True):
                    sub = wrap(k, sub)
                mods[case["tree"][k]].submodules[f"m{k}"] = sub
        else:
            mods[0].add_domains(*[ClockDomain(dom) for dom in domains])
            for k in range(n - 1, 0, -1):
                mods[case["tree"][k]].add_subfragment(wrap(k, mods[k]), f"m{k}")
        top = wrap(0, mods[0])
        named = [p for p in ports] + top_ports
        if case["via"] == "convert":
            rtlil.convert(top, ports=named)
        else:
            build_netlist(Fragment.get(top, None), ports=named)
        return "ok", ""
    except Exception as e:  # noqa: BLE001
        return common.errkind(e), str(e)[:160]


def enum_conflict_cases():
    """all multisets of <= 3 logic drives over one 4-bit signal, a 3-module tree (top, a, a.b), two domains"""
    ranges = [(lo, hi) for lo in range(4) for hi in range(lo + 1, 5)]
    options = [(lo, hi, mod, dom) for (lo, hi) in ranges for mod in range(3) for dom in ("comb", "sync")]
    for k in (1, 2, 3):
        for combo in itertools.combinations_with_replacement(range(len(options)), k):
            yield combo, options


def enum_conflict_case(combo, options, mode):
    drives = []
    for idx in combo:
        lo, hi, mod, dom = options[idx]
        drives.append({"sig": 0, "lo": lo, "hi": hi, "src": "logic", "mod": mod, "dom": dom, "form": "slice"})
    return {"tree": [None, 0, 1], "sigs": [{"w": 4, "kind": "plain"}], "drives": drives, "mode": mode,
            "renames": {}, "via": "build_netlist"}


def conflict_worker(task):
    kind = task[0]
    out = []
    if kind in ("random", "ctl"):
        _k, seed, n = task
        rng = random.Random(seed)
        for _ in range(n):
            case = gen_conflict_case(rng) if kind == "random" else gen_ctl_conflict_case(rng)
            impl, msg = run_conflict_case(case)
            out.append((case, conflict_request(case), impl, msg))
    else:
        _k, start, stop = task
        it = itertools.islice(enum_conflict_cases(), start, stop)
        for combo, options in it:
            case = enum_conflict_case(combo, options, "dsl")
            impl, msg = run_conflict_case(case)
            out.append((case, conflict_request(case), impl, msg))
            if impl == "SyntaxError":
                # the Module refused it early: also show the whole-design check the same drives
                case = enum_conflict_case(combo, options, "raw")
                impl, msg = run_conflict_case(case)
                out.append((case, conflict_request(case), impl, msg))
    return out


def judge_conflicts(chk, records, stream):
    resps = chk.driver.ask([r[1] for r in records])
    for (case, req, impl, msg), resp in zip(records, resps):
        kv = common.kv(resp)
        if "check" not in kv:
            raise common.Infra(f"driver: {resp!r} for {req!r}")
        dsl = case["mode"] == "dsl"
        model = "SyntaxError" if (dsl and kv["early"] == "1") else ("DriverConflict" if kv["check"] == "conflict" else "ok")
        spec = "SyntaxError" if (dsl and kv["specearly"] == "1") else ("DriverConflict" if kv["spec"] == "1" else "ok")
        chk.count()
        nlogic = sum(1 for d in case["drives"] if d["src"] == "logic")
        chk.distinct(req + case["mode"] + (json.dumps([case["ctl"], case["renames"], case["ctl_first"]], sort_keys=True)
                                           if case.get("ctl") else ""), nontrivial=len(case["drives"]) >= 2)
        chk.hist(f"conflict.{stream}.outcome", f"{case['mode']}:{impl}")
        if stream == "random":
            chk.hist("conflict.drives", len(case["drives"]))
            for d in case["drives"]:
                chk.hist("conflict.src", d["src"] if d["src"] != "logic" else "logic:" + d["form"])
            chk.hist("conflict.modules", len(case["tree"]))
            if impl == "ok" and nlogic >= 2:
                chk.hist("conflict.legal_multi", "yes")
        how = ""
        if stream == "ctl":
            prof = ctl_profile(case)
            wrappers = [(m, wr) for m, wrs in sorted(case["ctl"].items()) for wr in wrs]
            how = " wrapped in " + ", ".join(
                f"{'ResetInserter' if wr['kind'] == 'reset' else 'EnableInserter'}({{{', '.join(wr['doms'])}}}) around module {m}"
                for m, wr in wrappers)
            chk.hist("conflict.ctl.drives", len(case["drives"]))
            chk.hist("conflict.ctl.modules", len(case["tree"]))
            chk.hist("conflict.ctl.inserters", "+".join(sorted(wr["kind"] for _m, wr in wrappers)))
            chk.hist("conflict.ctl.wrapped_module", "+".join(sorted("top" if m == "0" else "sub" for m, _wr in wrappers)))
            for _m, wr in wrappers:
                chk.hist("conflict.ctl.domains_in_control_dict", len(wr["doms"]))
            for kind_, nd in sorted(prof.items()):
                chk.hist(f"conflict.ctl.{kind_}.controlled_domains_with_statements_in_one_fragment", nd)
            if spec == "ok":
                chk.hist("conflict.ctl.legal.reset_controlled_domains_in_one_fragment", prof.get("reset", 0))
            if case["renames"]:
                chk.hist("conflict.ctl.with_domain_renamer", "inserter inside" if case["ctl_first"] else "renamer inside")
            if any(sg.get("rl") for sg in case["sigs"]):
                chk.hist("conflict.ctl.has_reset_less_signal", "yes")
        replay = {"family": "conflict", "case": case, "request": req, "impl": impl, "impl_msg": msg,
                  "model": model, "spec": spec, "driver": resp}
        if impl != spec:
            chk.hist("violations", "conflict:unclassified")
            chk.violation(f"driver conflict: real code says {impl}{' (' + msg + ')' if how and msg else ''}, "
                          f"Spec says {spec} for {req}{how}", replay)
        elif impl != model:
            chk.hist("not_shown", "conflict")
            chk.not_shown(f"driver-table model says {model}, real code and Spec say {impl}", replay)
        if len(chk.cov["samples"]) < 3 and len(case["drives"]) >= 2:
            chk.sample({"family": "conflict", "request": req, "mode": case["mode"], "impl": impl, "model": model, "spec": spec})


# =================================================================================================
# (ii) combinational cycles
# =================================================================================================

BIT_KINDS = ["copy", "not", "and", "or", "xor", "mux"]
WORD_KINDS = ["+", "-", "*", "==", "!=", "<", ">=", "<<", ">>", "part", "wsel", "matches", "any", "all", "rxor",
              "bool", "neg", "//", "%", "muxw"]
COND_KINDS = [None, None, None, "if1", "ifw", "case", "else", "elif", "nest"]


def gen_cycle_case(rng):
    nsig = rng.choice([1, 2, 2, 3, 4])
    widths = []
    total = 0
    for _ in range(nsig):
        w = rng.choice([1, 2, 2, 3, 4, 4])
        if total + w > 12:
            break
        widths.append(w)
        total += w
    nmods = rng.choice([1, 1, 2, 3])
    tree = _tree(rng, nmods)
    # now and then the clock (and an asynchronous reset) of the `sync` domain are ordinary nets of the graph:
    # a flip-flop is a word-level cell whose combinational inputs are its clock and its asynchronous reset
    special = {}
    if rng.random() < 0.2:
        special["clk"] = len(widths)
        widths.append(1)
        if rng.random() < 0.5:
            special["rst"] = len(widths)
            widths.append(1)
    allbits = [(s, b) for s, w in enumerate(widths) for b in range(w)]
    # carve target slices
    stmts = []
    driven = {}
    for s, w in enumerate(widths):
        b = 0
        while b < w:
            if rng.random() < 0.25:
                b += 1            # leave this bit undriven (an input)
                continue
            hi = b + 1
            while hi < w and rng.random() < 0.5:
                hi += 1
            stmts.append({"tsig": s, "lo": b, "hi": hi})
            b = hi
    rng.shuffle(stmts)
    for rank, st in enumerate(stmts):
        for b in range(st["lo"], st["hi"]):
            driven[(st["tsig"], b)] = rank
    style = rng.choice(["forward", "forward", "back1", "back2", "free", "ctrlback", "ctrlback"])
    wordy = rng.random()
    for rank, st in enumerate(stmts):
        st["mod"] = rng.randrange(nmods)
        word = rng.random() < wordy
        st["kind"] = rng.choice(WORD_KINDS if word else BIT_KINDS)
        st["cond"] = rng.choice(COND_KINDS)
        st["dom"] = "sync" if rng.random() < (0.3 if special else 0.06) and st["tsig"] not in special.values() else "comb"
        earlier = [x for x in allbits if driven.get(x, -1) < rank]
        later = [x for x in allbits if driven.get(x, -1) >= rank]

        def pick():
            pool = allbits if style == "free" else earlier      # "ctrlback": forward-only, the feedback is added at the end
            return rng.choice(pool) if pool else None

        def operand(n):
            bits = []
            while len(bits) < n:
                x = pick()
                if x is None or rng.random() < 0.12:
                    bits.append(["c", rng.randrange(2)])
                else:
                    # runs of adjacent bits of one signal: realised as a slice
                    run = rng.choice([1, 1, 2, 3])
                    for k in range(run):
                        if len(bits) < n and x[1] + k < widths[x[0]] and (style == "free" or driven.get((x[0], x[1] + k), -1) < rank):
                            bits.append([x[0], x[1] + k])
            return bits

        w = st["hi"] - st["lo"]
        k = st["kind"]
        if k in ("copy", "not"):
            st["ops"] = [operand(rng.choice([w, w, max(1, w - 1), w + 1]))]
        elif k in ("and", "or", "xor"):
            st["ops"] = [operand(rng.choice([w, w, max(1, w - 1)])), operand(rng.choice([w, w, w + 1]))]
        elif k == "mux":
            st["ops"] = [operand(1), operand(w), operand(rng.choice([w, max(1, w - 1)]))]
        elif k == "muxw":
            st["ops"] = [operand(2), operand(w), operand(w)]
        elif k in ("any", "all", "rxor", "bool", "neg"):
            st["ops"] = [operand(rng.choice([1, 2, 3]))]
        elif k == "matches":
            a = operand(rng.choice([1, 2, 3]))
            pat = "".join(rng.choice("01-") for _ in a)
            if set(pat) == {"-"}:
                pat = "1" + pat[1:]
            st["ops"] = [a]
            st["pat"] = pat
        elif k in ("<<", ">>"):
            st["ops"] = [operand(rng.choice([1, 2, 3])), operand(rng.choice([1, 2]))]
        elif k in ("part", "wsel"):
            st["ops"] = [operand(rng.choice([2, 3, 4])), operand(rng.choice([1, 2]))]
            st["pw"] = rng.choice([1, 2])
            if all(b[0] == "c" for b in st["ops"][1]):
                # a constant offset is folded into a plain slice when the expression is constructed
                x = pick()
                if x is None:
                    st["kind"] = "+"
                else:
                    st["ops"][1][0] = [x[0], x[1]]
        else:
            st["ops"] = [operand(rng.choice([1, 2, 3])), operand(rng.choice([1, 2, 3]))]
        if word and st["kind"] != "muxw" and rng.random() < 0.3:
            st["roff"] = rng.choice([1, 1, 2])      # use the upper result bits: target bit i <- result bit i + roff
        if st["cond"] in ("if1", "else"):
            st["cbits"] = operand(1)
        elif st["cond"] in ("ifw", "case"):
            st["cbits"] = operand(rng.choice([2, 3]))
            st["cpat"] = "".join(rng.choice("01-") for _ in st["cbits"])
        elif st["cond"] in ("elif", "nest"):
            st["cbits"] = operand(1)
            st["cbits2"] = operand(1)
        # back edges: replace some operand bit by a bit of this or a later statement
        nback = {"back1": 1, "back2": 2}.get(style, 0)
        if style in ("back1", "back2") and rank < len(stmts) - 1 and rng.random() < 0.5:
            nback = 0        # keep most statements forward so that cycles are long, not just self-loops
        for _ in range(nback):
            if later and st["dom"] == "comb":
                # the back edge goes into an operand or - as often - into a condition
                places = list(st["ops"])
                conds = [st[k] for k in ("cbits", "cbits2") if k in st]
                op = rng.choice(conds) if (conds and rng.random() < 0.5) else rng.choice(places)
                x = rng.choice(later)
                op[rng.randrange(len(op))] = [x[0], x[1]]
    if style == "ctrlback":
        _control_feedback(rng, stmts, widths)
    ports = [s for s in range(len(widths)) if rng.random() < 0.7]
    return {"family": "cycle", "widths": widths, "tree": tree, "stmts": stmts, "ports": ports, "special": special,
            "via": rng.choice(["build_netlist"] * 8 + ["convert"])}


def _control_feedback(rng, stmts, widths):
    """On top of a forward-only (acyclic) design: a *narrow control* of a wide bit-precise node - the select of
    a Mux, the condition of an assignment - is fed from a result bit of that very node with index >= 1, directly
    or through another bit-precise statement. The only cycle then runs control -> every result bit."""
    wide = [st for st in stmts if st["hi"] - st["lo"] >= 2 and st["dom"] == "comb"]
    if not wide:
        return
    st = rng.choice(wide)
    w = st["hi"] - st["lo"]
    if st["kind"] not in ("mux", "muxw") and not st.get("cond"):
        # give it a narrow control: turn it into a choice between two bit-precise operands, or put it under a condition
        if rng.random() < 0.6:
            data = [o for o in st["ops"] if len(o) >= 1][:2]
            while len(data) < 2:
                data.append([["c", rng.randrange(2)] for _ in range(w)])
            for o in data:
                while len(o) < w:             # so that every target bit is a result bit of the Mux
                    o.append(["c", rng.randrange(2)])
            st["kind"] = rng.choice(["mux", "mux", "muxw"])
            st["ops"] = [[["c", 0]] * (2 if st["kind"] == "muxw" else 1)] + data
            st["ops"][0] = [list(b) for b in st["ops"][0]]
            st.pop("roff", None)
            st.pop("pat", None)
            st.pop("pw", None)
        else:
            st["cond"] = rng.choice(["if1", "else", "elif", "nest", "ifw", "case"])
            st["cbits"] = [["c", 1]] if st["cond"] in ("if1", "else", "elif", "nest") else [["c", 1], ["c", 0]]
            if st["cond"] in ("elif", "nest"):
                st["cbits2"] = [["c", 1]]
            if st["cond"] in ("ifw", "case"):
                st["cpat"] = "".join(rng.choice("01-") for _ in st["cbits"])
    controls = []
    if st["kind"] in ("mux", "muxw"):
        controls.append(st["ops"][0])
    controls += [st[k] for k in ("cbits", "cbits2") if k in st]
    ctrl = rng.choice(controls)
    high = [st["tsig"], st["lo"] + rng.randrange(1, w)]
    helpers = [h for h in stmts if h is not st and h["dom"] == "comb" and not h.get("roff")
               and h["kind"] in ("copy", "not", "and", "or", "xor", "mux")]
    if helpers and rng.random() < 0.5:
        h = rng.choice(helpers)
        h["ops"][0][0] = high                 # bit `lo` of the helper's target now depends on the high result bit
        ctrl[rng.randrange(len(ctrl))] = [h["tsig"], h["lo"]]
    else:
        ctrl[rng.randrange(len(ctrl))] = high


# -- defaults with overrides ---------------------------------------------------------------------------
# `a.eq(<signals / slices / Cat only>)` followed by `with m.If(c): a.eq(...)`: the unconditional assignment
# becomes the *default* of the signal's assignment list, the conditional ones its entries. A combinational loop can
# close through that default alone (a = b; if c: a = 0; b = rotate(a)); the legal neighbours shift instead of
# rotating, so that bits of a signal feed other bits of the same signal and no bit reaches itself.

DEF_PERMS = ["id", "rev", "rot", "swap"]
DEF_OVERRIDE_KINDS = BIT_KINDS + ["copy", "copy", "+", "-", "==", "<", "any", "rxor", "neg", "muxw", "*", "<<"]


def _wiring(rng, how, src, ws, w):
    """w bit references into signal `src` (ws bits wide): a pure rearrangement (constants where it runs out of bits),
    realised by _mkval as slices and Cat"""
    k = rng.randrange(1, ws) if ws > 1 else 1
    out = []
    for i in range(w):
        if how == "id":
            j = i
        elif how == "rev":
            j = ws - 1 - i
        elif how == "rot":
            j = (i + k) % ws if i < ws else -1
        elif how == "swap":
            j = (i + ws // 2) % ws if i < ws else -1
        elif how == "shift":
            j = i + k
        elif how == "shiftl":
            j = i - k
        else:
            raise AssertionError(how)
        out.append([src, j] if 0 <= j < ws else ["c", 0])
    return out


def gen_default_case(rng):
    nmods = rng.choice([1, 1, 2, 3])
    tree = _tree(rng, nmods)
    w = rng.choice([2, 3, 4, 4])
    template = rng.choice(["other", "other", "other", "self", "self", "chain"])
    intent = rng.choice(["loop", "loop", "legal", "legal", "free"])
    direction = rng.choice(["shift", "shiftl"])
    widths = [w]
    nhops = {"other": 2, "self": 1, "chain": 3}[template]
    if intent == "loop":
        hops = [rng.choice(DEF_PERMS) for _ in range(nhops)]
        if template == "self" and hops[0] == "id":
            hops[0] = "rot"                     # a.eq(a) as a default is a loop too, but a boring one
    elif intent == "legal":
        # indices only ever move one way: no bit can reach itself
        hops = [rng.choice(["id", direction]) for _ in range(nhops)]
        hops[rng.randrange(nhops)] = direction
    else:
        hops = [rng.choice(DEF_PERMS + ["shift", "shiftl"]) for _ in range(nhops)]
    # signals: 0 = a; then the other members of the ring; then the inputs (never driven)
    ring = [0]
    for _ in range(nhops - 1):
        widths.append(w if rng.random() < 0.8 else rng.choice([2, 3, 4]))
        ring.append(len(widths) - 1)
    n_ring_bits = sum(widths)
    ctrl = len(widths)
    widths.append(2)
    dat = len(widths)
    widths.append(w)
    designbits = [(s, b) for s in ring for b in range(widths[s])]
    inbits = [(ctrl, 0), (ctrl, 1)] + [(dat, b) for b in range(w)]
    back = rng.random() < 0.15          # now and then the overrides take bits of the ring as well

    def operand(n):
        bits = []
        for _ in range(n):
            r = rng.random()
            if r < 0.1:
                bits.append(["c", rng.randrange(2)])
            else:
                x = rng.choice(designbits) if (back and r < 0.5) else rng.choice(inbits)
                bits.append([x[0], x[1]])
        return bits

    def conditional(st):
        st["cond"] = rng.choice(["if1", "if1", "ifw", "case", "else", "elif", "nest"])
        if st["cond"] in ("if1", "else"):
            st["cbits"] = operand(1)
        elif st["cond"] in ("ifw", "case"):
            st["cbits"] = operand(2)
            st["cpat"] = "".join(rng.choice("01-") for _ in st["cbits"])
        else:
            st["cbits"] = operand(1)
            st["cbits2"] = operand(1)

    def override(tsig, lo, hi, mod, dom):
        if hi - lo >= 2 and rng.random() < 0.5:
            a = rng.randrange(lo, hi)
            b = rng.randint(a + 1, hi)
            lo, hi = a, b
        n = hi - lo
        k = rng.choice(DEF_OVERRIDE_KINDS)
        st = {"tsig": tsig, "lo": lo, "hi": hi, "mod": mod, "dom": dom, "kind": k, "role": "override"}
        if k in ("copy", "not"):
            st["ops"] = [operand(n)]
        elif k in ("and", "or", "xor"):
            st["ops"] = [operand(n), operand(n)]
        elif k == "mux":
            st["ops"] = [operand(1), operand(n), operand(n)]
        elif k == "muxw":
            st["ops"] = [operand(2), operand(n), operand(n)]
        elif k in ("any", "rxor", "neg"):
            st["ops"] = [operand(rng.choice([1, 2, 3]))]
        else:
            st["ops"] = [operand(rng.choice([1, 2, 3])), operand(rng.choice([1, 2]))]
        conditional(st)
        return st

    groups = []
    shapes = []
    # every member of the ring but the last takes its *default* from the next one; the last one closes the ring
    for pos, tsig in enumerate(ring):
        wt = widths[tsig]
        src = ring[(pos + 1) % len(ring)]
        closing = template != "self" and pos == len(ring) - 1 and not (template == "chain" and rng.random() < 0.3)
        mod = rng.randrange(nmods)
        bits = _wiring(rng, hops[pos], src, widths[src], wt)
        if closing:
            # b = f(a): a rearrangement, a bit-precise operator, or (never when a legal design is intended) a word-level one
            r = rng.random()
            st = {"tsig": tsig, "lo": 0, "hi": wt, "mod": mod, "dom": "comb", "cond": None, "role": "close"}
            if r < 0.65:
                st.update(kind="copy", ops=[bits])
            elif r < 0.75:
                st.update(kind="not", ops=[bits])
            elif r < 0.85 or intent == "legal":
                st.update(kind="xor", ops=[bits, operand(wt)])
            else:
                st.update(kind=rng.choice(["+", "-"]), ops=[bits, operand(rng.choice([1, 2]))])
            if rng.random() < 0.3:
                conditional(st)
            groups.append([st])
            shapes.append("close:" + st["kind"] + ("" if st["cond"] is None else "+cond"))
            continue
        r = rng.random()
        variant = "full" if r < 0.65 else "split" if (r < 0.8 and wt >= 2) else "partial-default" if (r < 0.9 and wt >= 2) else "sync"
        dom = "sync" if variant == "sync" else "comb"
        r = rng.random()
        if r < 0.07:
            bits = bits[:-1] or bits            # a shorter right-hand side is zero-extended
        elif r < 0.14:
            bits = bits + operand(1)            # a longer one is truncated
        parts = [(0, wt, mod)]
        if variant == "split":
            h = rng.randrange(1, wt)
            parts = [(0, h, mod), (h, wt, rng.randrange(nmods))]
        elif variant == "partial-default":
            parts = [rng.choice([(0, wt - 1, mod), (1, wt, mod)])]
        for lo, hi, pm in parts:
            g = [{"tsig": tsig, "lo": lo, "hi": hi, "mod": pm, "dom": dom, "kind": "copy", "cond": None,
                  "ops": [bits[lo:hi] if variant != "full" else bits], "role": "default"}]
            olo, ohi = (lo, hi) if variant == "split" else (0, wt)
            for _ in range(rng.choice([1, 1, 2])):
                g.append(override(tsig, olo, ohi, pm, dom))
            groups.append(g)
        shapes.append(f"default:{variant}:{hops[pos]}")
    rng.shuffle(groups)
    stmts = [st for g in groups for st in g]
    ports = [s for s in range(len(widths)) if rng.random() < 0.7]
    return {"family": "cycle", "widths": widths, "tree": tree, "stmts": stmts, "ports": ports, "special": {},
            "via": rng.choice(["build_netlist"] * 8 + ["convert"]),
            "shape": {"template": template, "intent": intent, "parts": shapes, "back": back}}


def _mkval(sigs, bits):
    """a Value made of the given bits: slices for runs, Cat for the rest"""
    from amaranth.hdl import Cat, Const
    parts = []
    i = 0
    while i < len(bits):
        b = bits[i]
        if b[0] == "c":
            parts.append(Const(b[1], 1))
            i += 1
            continue
        j = i
        while j + 1 < len(bits) and bits[j + 1][0] == b[0] and bits[j + 1][1] == bits[j][1] + 1:
            j += 1
        S = sigs[b[0]]
        parts.append(S[b[1]:bits[j][1] + 1] if (j > i or (b[1] % 2 == 0)) else S[b[1]])
        i = j + 1
    if len(parts) == 1:
        return parts[0]
    return Cat(*parts)


def _expr(sigs, st):
    e = _expr0(sigs, st)
    roff = st.get("roff", 0)
    if roff and roff < len(e):
        e = e[roff:]
    return e


def _expr0(sigs, st):
    from amaranth.hdl import Mux
    ops = [_mkval(sigs, o) for o in st["ops"]]
    k = st["kind"]
    if k == "copy": return ops[0]
    if k == "not": return ~ops[0]
    if k == "and": return ops[0] & ops[1]
    if k == "or": return ops[0] | ops[1]
    if k == "xor": return ops[0] ^ ops[1]
    if k in ("mux", "muxw"): return Mux(ops[0], ops[1], ops[2])
    if k == "+": return ops[0] + ops[1]
    if k == "-": return ops[0] - ops[1]
    if k == "*": return ops[0] * ops[1]
    if k == "==": return ops[0] == ops[1]
    if k == "!=": return ops[0] != ops[1]
    if k == "<": return ops[0] < ops[1]
    if k == ">=": return ops[0] >= ops[1]
    if k == "//": return ops[0] // ops[1]
    if k == "%": return ops[0] % ops[1]
    if k == "<<": return ops[0] << ops[1]
    if k == ">>": return ops[0] >> ops[1]
    if k == "part": return ops[0].bit_select(ops[1], st["pw"])
    if k == "wsel": return ops[0].word_select(ops[1], st["pw"])
    if k == "matches": return ops[0].matches(st["pat"])
    if k == "any": return ops[0].any()
    if k == "all": return ops[0].all()
    if k == "rxor": return ops[0].xor()
    if k == "bool": return ops[0].bool()
    if k == "neg": return -ops[0]
    raise AssertionError(k)


def _realbits(bits):
    return [(b[0], b[1]) for b in bits if b[0] != "c"]


def stmt_deps(st, expr_len, expr_signed, special=None):
    """Spec reading of one statement: target bit index -> set of source bits"""
    w = st["hi"] - st["lo"]
    deps = {i: set() for i in range(w)}
    if st["dom"] != "comb":
        # registered: no combinational dependency on the data, only on the clock and the asynchronous reset
        for k in ("clk", "rst"):
            if special and k in special:
                for i in range(w):
                    deps[i].add((special[k], 0))
        return deps
    k = st["kind"]
    ops = st["ops"]
    if k in ("copy", "not"):
        for i in range(w):
            if i < len(ops[0]):
                deps[i] |= set(_realbits([ops[0][i]]))
    elif k in ("and", "or", "xor"):
        for i in range(w):
            for o in ops:
                if i < len(o):
                    deps[i] |= set(_realbits([o[i]]))
    elif k == "mux":
        for i in range(min(w, expr_len)):
            deps[i] |= set(_realbits(ops[0]))
            for o in ops[1:]:
                if i < len(o):
                    deps[i] |= set(_realbits([o[i]]))
    elif k == "muxw":
        for i in range(min(w, expr_len)):
            deps[i] |= set(_realbits(ops[0]))      # through the word-level bool() of the selector
            for o in ops[1:]:
                if i < len(o):
                    deps[i] |= set(_realbits([o[i]]))
    else:
        allsrc = set()
        for o in ops:
            allsrc |= set(_realbits(o))
        n = w if expr_signed else min(w, expr_len)
        for i in range(n):
            deps[i] |= allsrc
    c = st.get("cond")
    if c:
        cs = set(_realbits(st["cbits"]))
        if c in ("elif", "nest"):
            cs |= set(_realbits(st["cbits2"]))
        for i in range(w):
            deps[i] |= cs
    return deps


def build_cycle_design(case):
    """returns (top module, ports, abstract dependency map {(sig,bit): set((sig,bit))}, signals)"""
    return _build_cycle_design(case)[:4]


def _build_cycle_design(case):
    """build_cycle_design + the dependency map without the statements marked role=default (for the histograms)"""
    from amaranth.hdl import Module, Signal, ClockDomain
    widths = case["widths"]
    special = case.get("special") or {}
    cd = ClockDomain("sync", async_reset="rst" in special)
    sigs = [Signal(w, name=f"s{i}") for i, w in enumerate(widths)]
    if "clk" in special:
        sigs[special["clk"]] = cd.clk
    if "rst" in special:
        sigs[special["rst"]] = cd.rst
    mods = [Module() for _ in case["tree"]]
    dummies = [Signal(name=f"dummy{k}") for k in range(len(mods))]
    absdeps = {(s, b): set() for s, w in enumerate(widths) for b in range(w)}
    nodef = {k: set() for k in absdeps}
    for st in case["stmts"]:
        m = mods[st["mod"]]
        dummy = dummies[st["mod"]]
        e = _expr(sigs, st)
        tgt = sigs[st["tsig"]][st["lo"]:st["hi"]]
        stmt = tgt.eq(e)
        d = m.d[st["dom"]]
        c = st.get("cond")
        if c is None:
            d += stmt
        elif c == "if1" or c == "ifw":
            with m.If(_mkval(sigs, st["cbits"])):
                d += stmt
        elif c == "case":
            with m.Switch(_mkval(sigs, st["cbits"])):
                with m.Case(st["cpat"]):
                    d += stmt
        elif c == "else":
            with m.If(_mkval(sigs, st["cbits"])):
                m.d.comb += dummy.eq(1)
            with m.Else():
                d += stmt
        elif c == "elif":
            with m.If(_mkval(sigs, st["cbits"])):
                m.d.comb += dummy.eq(1)
            with m.Elif(_mkval(sigs, st["cbits2"])):
                d += stmt
        elif c == "nest":
            with m.If(_mkval(sigs, st["cbits"])):
                with m.If(_mkval(sigs, st["cbits2"])):
                    d += stmt
        sh = e.shape()
        for i, ds in stmt_deps(st, sh.width, sh.signed, special).items():
            absdeps[(st["tsig"], st["lo"] + i)] |= ds
            if st.get("role") != "default":
                nodef[(st["tsig"], st["lo"] + i)] |= ds
    # emit_drivers: a signal whose only driver is one (module, domain) pair is driven in all its bits by
    # that driver; if the domain is synchronous, also the unassigned bits are flip-flop outputs
    if special:
        for s_idx, w in enumerate(widths):
            owners = {(st["mod"], st["dom"]) for st in case["stmts"] if st["tsig"] == s_idx}
            if len(owners) == 1 and next(iter(owners))[1] != "comb":
                for b in range(w):
                    absdeps[(s_idx, b)] |= {(special[k], 0) for k in ("clk", "rst") if k in special}
    mods[0].domains.sync = cd
    for k in range(len(mods) - 1, 0, -1):
        mods[case["tree"][k]].submodules[f"m{k}"] = mods[k]
    return mods[0], [sigs[p] for p in case["ports"]], absdeps, sigs, nodef


def _cyclic(widths, deps):
    cells = [("b", w, [], [sorted(deps[(s, b)]) for b in range(w)]) for s, w in enumerate(widths)]
    return certificate(graph_succ(cells))[0] == "cyc"


# -- small-graph enumeration -----------------------------------------------------------------------

def enum_cycle_case(n, adj, lab, mode=0):
    """n nets = the bits of one n-bit signal; adj[i] = bitmask of the nets bit i depends on;
    lab bit i = 1: realised through a word-level operator. Adjacent word-level nets with the same
    dependencies share one operator cell (several fused outputs).
    mode 1: adjacent bit-precise nets that have a dependency in common are realised as ONE wide choice node
    whose narrow control is that common net (the highest one): a Mux, an If/Else, or a replicated-select
    and/or; the remaining dependencies of each bit go into the two data operands. None if no such group exists."""
    stmts = []
    i = 0
    grouped = False
    while i < n:
        deps = [[0, j] for j in range(n) if adj[i] >> j & 1]
        if mode == 1 and not (lab >> i & 1):
            j = i
            common = adj[i]
            while j + 1 < n and not (lab >> (j + 1) & 1) and (common & adj[j + 1]):
                j += 1
                common &= adj[j]
            if j > i:
                c = common.bit_length() - 1
                rest = [[[0, b] for b in range(n) if (adj[k] >> b & 1) and b != c] for k in range(i, j + 1)]
                stmts.append({"tsig": 0, "lo": i, "hi": j + 1, "mod": 0, "dom": "comb", "cond": None,
                              "kind": "enumc", "ctrl": c, "rest": rest, "ops": [[[0, c]]], "variant": (i + adj[i]) % 3})
                grouped = True
                i = j + 1
                continue
        if lab >> i & 1:
            j = i
            while j + 1 < n and (lab >> (j + 1) & 1) and adj[j + 1] == adj[i]:
                j += 1
            stmts.append({"tsig": 0, "lo": i, "hi": j + 1, "mod": 0, "dom": "comb", "cond": None,
                          "kind": "enumw", "ops": [deps], "variant": (i + adj[i]) % 3})
            i = j + 1
        else:
            stmts.append({"tsig": 0, "lo": i, "hi": i + 1, "mod": 0, "dom": "comb", "cond": None,
                          "kind": "enumb", "ops": [deps], "variant": (i + adj[i]) % 3})
            i += 1
    if mode == 1 and not grouped:
        return None
    return {"family": "cycle-enum", "widths": [n], "tree": [None], "stmts": stmts, "ports": [0], "via": "build_netlist",
            "n": n, "adj": list(adj), "lab": lab, "mode": mode}


def build_enum_design(case):
    from amaranth.hdl import Module, Signal, Cat, Const, Mux
    n = case["widths"][0]
    a = Signal(n, name="a")
    m = Module()
    absdeps = {(0, b): set() for b in range(n)}
    for st in case["stmts"]:
        srcs = [a[b[1]] for b in st["ops"][0]]
        w = st["hi"] - st["lo"]
        v = st["variant"]
        if st["kind"] == "enumc":
            sel = a[st["ctrl"]]
            A, B = [], []
            for k, r in enumerate(st["rest"]):
                xs = [a[b[1]] for b in r]
                ea = Const(k & 1, 1)
                for x in xs[0::2]:
                    ea = ea | x
                eb = Const(~k & 1, 1)
                for x in xs[1::2]:
                    eb = eb ^ x
                A.append(ea)
                B.append(eb)
                absdeps[(0, st["lo"] + k)] |= {(0, st["ctrl"])} | {(0, b[1]) for b in r}
            tgt = a[st["lo"]:st["hi"]]
            if v == 0:
                m.d.comb += tgt.eq(Mux(sel, Cat(*A), Cat(*B)))
            elif v == 1:
                with m.If(sel):
                    m.d.comb += tgt.eq(Cat(*A))
                with m.Else():
                    m.d.comb += tgt.eq(Cat(*B))
            else:
                m.d.comb += tgt.eq((sel.replicate(w) & Cat(*A)) | Cat(*B))
            continue
        if st["kind"] == "enumb":
            if not srcs:
                e = Const(v & 1, 1)
            elif len(srcs) == 3 and v == 0:
                e = Mux(srcs[0], srcs[1], srcs[2])
            else:
                e = srcs[0] if v else ~srcs[0]
                for k, s in enumerate(srcs[1:]):
                    e = (e | s) if (k + v) % 3 == 0 else (e & s) if (k + v) % 3 == 1 else (e ^ s)
        else:
            x = Cat(*srcs) if srcs else Const(0, 1)
            # the result is at least as wide as the target, so every target bit is a result bit
            if v == 0:
                e = x + Const(1, w)
            elif v == 1:
                e = x - Const(1, w)
            else:
                e = x * Const(3, w + 1)
        m.d.comb += a[st["lo"]:st["hi"]].eq(e)
        for i in range(w):
            absdeps[(0, st["lo"] + i)] |= {(0, b[1]) for b in st["ops"][0]}
    return m, [a], absdeps, [a]


# -- the real netlist's dependency graph ------------------------------------------------------------

def dump_netlist_graph(netlist):
    """(cells, roots, problems): the netlist as the Lean `Graph`; nets renumbered (cell, position)"""
    cells = []
    pos = {}
    problems = []
    order = []
    for idx, cell in enumerate(netlist.cells):
        outs = list(cell.output_nets(idx))
        order.append(outs)
        for p, net in enumerate(sorted(outs)):
            pos[int(net)] = (idx, p)
    const_cell = len(netlist.cells)
    late_cell = const_cell + 1
    pos[0] = (const_cell, 0)
    pos[1] = (const_cell, 1)
    lates = sorted(set(int(n) for n in netlist.connections) |
                   set(int(n) for v in netlist.signals.values() for n in v if n < 0))
    for p, n in enumerate(lates):
        pos[n] = (late_cell, p)

    def tr(net):
        n = int(net)
        if n not in pos:
            problems.append(f"edge to unknown net {n}")
            return (const_cell, 0)
        return pos[n]

    for idx, cell in enumerate(netlist.cells):
        outs = sorted(order[idx])
        fused = not cell.comb_edges_is_per_bit()
        per_bit = [[tr(src) for src, _loc in cell.comb_edges_to(net.bit)] for net in outs]
        if fused:
            if any(pb != per_bit[0] for pb in per_bit):
                problems.append(f"cell {idx} ({type(cell).__name__}) is not per-bit but comb_edges_to depends on the bit")
            cells.append(("f", len(outs), per_bit[0] if per_bit else [], []))
        else:
            cells.append(("b", len(outs), [], per_bit))
    cells.append(("b", 2, [], [[], []]))
    cells.append(("b", len(lates), [], [[tr(netlist.connections[n])] if n in netlist.connections else [] for n in lates]))
    roots = []
    for outs in order:
        roots += [tr(n) for n in outs]
    for value in netlist.signals.values():
        roots += [tr(n) for n in value]
    return cells, roots, problems, pos


def netlist_signal_deps(netlist, cells, pos, sigs):
    """{(sig index, bit): set of (sig index, bit)}: which bits of the design's signals each signal bit depends on
    in the dumped netlist graph, going through cells and through wires of other signals"""
    succ = graph_succ(cells)
    node_of = {}
    for idx, sig in enumerate(sigs):
        value = netlist.signals.get(sig)
        if value is None:
            continue
        for b, net in enumerate(value):
            node_of[pos[int(net)]] = (idx, b)
    out = {}
    for node, key in node_of.items():
        seen = set()
        found = set()
        stack = list(succ.get(node, ()))
        while stack:
            x = stack.pop()
            if x in seen:
                continue
            seen.add(x)
            if x in node_of:
                found.add(node_of[x])
                continue
            stack.extend(succ.get(x, ()))
        out[key] = found
    return out


def graph_succ(cells):
    succ = {}
    for c, (kind, w, ins, bits) in enumerate(cells):
        for b in range(w):
            succ[(c, b)] = list(ins) if kind == "f" else list(bits[b])
    return succ


def certificate(succ):
    """('cyc', closed walk) or ('topo', order newest first) of a plain graph; iterative DFS"""
    state = {}
    finished = []
    for root in succ:
        if root in state:
            continue
        stack = [(root, iter(succ.get(root, ())))]
        state[root] = 1
        path = [root]
        while stack:
            node, it = stack[-1]
            advanced = False
            for s in it:
                if s not in succ:
                    continue              # a net without outgoing edges that is no cell output
                st = state.get(s)
                if st == 1:
                    return "cyc", path[path.index(s):]
                if st is None:
                    state[s] = 1
                    stack.append((s, iter(succ.get(s, ()))))
                    path.append(s)
                    advanced = True
                    break
            if not advanced:
                state[node] = 2
                finished.append(node)
                stack.pop()
                path.pop()
    return "topo", finished[::-1]


def _nets(xs):
    return " ".join(f"({c} {b})" for c, b in xs)


def graph_request(cells, roots, cert):
    cs = []
    for kind, w, ins, bits in cells:
        cs.append(f"({kind} {w} ({_nets(ins)}) (" + " ".join(f"({_nets(b)})" for b in bits) + "))")
    return f"(graph (cells {' '.join(cs)}) (roots {_nets(roots)}) ({cert[0]} {_nets(cert[1])}))"


def abstract_request(widths, absdeps):
    cells = [("b", w, [], [sorted(absdeps[(s, b)]) for b in range(w)]) for s, w in enumerate(widths)]
    roots = [(s, b) for s, w in enumerate(widths) for b in range(w)]
    return graph_request(cells, roots, certificate(graph_succ(cells)))


def run_cycle_case(case, public_too):
    """returns dict(abs_req, net_req, impl, pathlen, public, problems)"""
    from amaranth.hdl import Fragment
    from amaranth.hdl import _ir, _nir
    from amaranth.back import rtlil
    builder = build_enum_design if case["family"] == "cycle-enum" else build_cycle_design
    defaults = None
    if case["family"] != "cycle-enum" and any(st.get("role") == "default" for st in case["stmts"]):
        top, ports, absdeps, sigs, nodef = _build_cycle_design(case)
        cyc, cyc_nodef = _cyclic(case["widths"], absdeps), _cyclic(case["widths"], nodef)
        defaults = {"class": ("loop closes only through a default" if cyc and not cyc_nodef else
                              "loop also without the defaults" if cyc else "loop-free")}
    else:
        top, ports, absdeps, sigs = builder(case)
    abs_req = abstract_request(case["widths"], absdeps)
    design = Fragment.get(top, None).prepare(ports=ports, hierarchy=("top",))
    netlist = _nir.Netlist()
    _ir._emit_netlist(netlist, design)
    cells, roots, problems, pos = dump_netlist_graph(netlist)
    if defaults is not None:
        # for the histograms only: how many assignment lists of the emitted netlist got a default that is a wire
        # (not a constant, not a cell output) - i.e. the unconditional assignment really was folded into `default`
        lists = [c for c in netlist.cells if type(c).__name__ == "AssignmentList"]
        defaults["assignment_lists"] = len(lists)
        defaults["with_wire_default"] = sum(1 for c in lists if any(int(n) < 0 for n in c.default))
    net_req = graph_request(cells, roots, certificate(graph_succ(cells)))
    # edge level: the dependencies between signal bits that the netlist (comb_edges_to) shows, against the Spec reading
    netdeps = netlist_signal_deps(netlist, cells, pos, sigs)
    edge_diff = []
    for key in sorted(absdeps):
        got = netdeps.get(key, set())
        if got != absdeps[key]:
            edge_diff.append({"bit": list(key), "missing_in_netlist": sorted(absdeps[key] - got),
                              "extra_in_netlist": sorted(got - absdeps[key])})
    pathlen = 0
    try:
        netlist.check_comb_cycles()
        impl = "ok"
    except Exception as e:  # noqa: BLE001
        impl = common.errkind(e)
        if impl == "CombinationalCycle":
            pathlen = len(str(e).splitlines()) - 1
    public = None
    if public_too:
        top2, ports2, _, _ = builder(case)
        try:
            if case["via"] == "convert":
                rtlil.convert(top2, ports=ports2)
            else:
                _ir.build_netlist(Fragment.get(top2, None), ports=ports2)
            public = "ok"
        except Exception as e:  # noqa: BLE001
            public = common.errkind(e)
    return {"abs_req": abs_req, "net_req": net_req, "impl": impl, "pathlen": pathlen, "public": public,
            "problems": problems, "ncells": len(cells), "edge_diff": edge_diff[:4], "defaults": defaults}


def enum_index_to_case(n, idx):
    """idx enumerates (mode, lab, adj[0..n-1]) in mixed radix"""
    adj = []
    for _ in range(n):
        adj.append(idx % (1 << n))
        idx //= (1 << n)
    lab = idx % (1 << n)
    mode = idx >> n
    return enum_cycle_case(n, adj, lab, mode)


def cycle_worker(task):
    kind = task[0]
    out = []
    if kind == "random":
        _k, seed, n = task
        rng = random.Random(seed)
        for _ in range(n):
            case = gen_cycle_case(rng)
            out.append((case, run_cycle_case(case, public_too=True)))
    elif kind == "enum":
        _k, n, start, stop, labs, stride, phase = task
        for idx in range(start, stop):
            if stride > 1 and idx % stride != phase:
                continue
            case = enum_index_to_case(n, idx)
            if case is None or (labs is not None and case["lab"] not in labs):
                continue
            res = run_cycle_case(case, public_too=(idx % 16 == 0))
            out.append(({"family": "cycle-enum", "n": n, "index": idx, "adj": case["adj"], "lab": case["lab"],
                         "mode": case["mode"]}, res))
    elif kind == "default":
        _k, seed, n = task
        rng = random.Random(seed)
        for _ in range(n):
            case = gen_default_case(rng)
            out.append((case, run_cycle_case(case, public_too=True)))
    elif kind == "cases":
        for case in task[1]:
            out.append((case, run_cycle_case(case, public_too=True)))
    return out


def judge_cycles(chk, records, stream):
    reqs = []
    for _case, res in records:
        reqs.append(res["abs_req"])
        reqs.append(res["net_req"])
    resps = chk.driver.ask(reqs)
    for k, (case, res) in enumerate(records):
        a = common.kv(resps[2 * k])
        d = common.kv(resps[2 * k + 1])
        if "model" not in a or "model" not in d:
            raise common.Infra(f"driver: {resps[2 * k]!r} / {resps[2 * k + 1]!r}")
        if a["spec"] == "badcert" or d["spec"] == "badcert":
            raise common.Infra(f"certificate rejected by the driver (harness error): {case} {a} {d}")
        impl = res["impl"]
        chk.count()
        spec_abs = "CombinationalCycle" if a["spec"] == "cyclic" else "ok"
        spec_net = "CombinationalCycle" if d["spec"] == "cyclic" else "ok"
        model_net = {"ok": "ok", "cycle": "CombinationalCycle", "assert": "AssertionError", "fuel": "fuel"}[d["model"]]
        model_abs = {"ok": "ok", "cycle": "CombinationalCycle", "assert": "AssertionError", "fuel": "fuel"}[a["model"]]
        key = res["abs_req"] + "|" + res["net_req"] if stream != "enum" else (case["n"], case["index"])
        chk.distinct(key, nontrivial=True)
        chk.hist(f"cycle.{stream}.outcome", impl)
        if stream == "random":
            chk.hist("cycle.cells", min(res["ncells"] // 5 * 5, 40))
            chk.hist("cycle.nets", sum(case["widths"]))
            chk.hist("cycle.clock_in_graph", ",".join(sorted(case.get("special") or {})) or "no")
            for st in case["stmts"]:
                chk.hist("cycle.kind", st["kind"])
                chk.hist("cycle.cond", str(st.get("cond")))
            if d["spec"] == "cyclic":
                chk.hist("cycle.pathlen", res["pathlen"])
        dd = res.get("defaults")
        if dd is not None:
            # designs with an unconditional assignment followed by conditional ones to the same bits (all streams)
            chk.hist("cycle.default.class", dd["class"])
            chk.hist("cycle.default.netlist", "assignment list with a wire as default" if dd["with_wire_default"] else
                     ("assignment list, default constant or cell output" if dd["assignment_lists"] else "no assignment list"))
            if dd["class"] == "loop closes only through a default" and dd["with_wire_default"]:
                chk.hist("cycle.default.class", "loop closes only through a default that is a wire in the netlist")
            if stream == "default":
                sh = case["shape"]
                chk.hist("cycle.default.template", f"{sh['template']}:{sh['intent']}" + (":overrides-read-the-ring" if sh["back"] else ""))
                for part in sh["parts"]:
                    chk.hist("cycle.default.parts", part)
                for st in case["stmts"]:
                    if st.get("role") == "override":
                        chk.hist("cycle.default.override", f"{st['cond']}:{'bit-precise' if st['kind'] in BIT_KINDS else 'word-level'}:" +
                                 ("whole signal" if st["hi"] - st["lo"] == case["widths"][st["tsig"]] else "part of the signal"))
                    chk.hist("cycle.default.domain", st["dom"])
        replay = {"family": case.get("family", "cycle"), "case": case, "impl": impl, "impl_pathlen": res["pathlen"],
                  "public_api": res["public"], "spec_abstract": spec_abs, "spec_netlist": spec_net,
                  "model_netlist": model_net, "model_netlist_pathlen": d["len"], "model_unfixed_netlist": d["unfixed"],
                  "abstract_request": res["abs_req"], "netlist_request": res["net_req"], "problems": res["problems"],
                  "edge_diff": res["edge_diff"]}
        if impl == "AssertionError" and spec_abs == "CombinationalCycle" and d["unfixed"] == "assert":
            replay["classes"] = ["F5"]
        if impl != spec_abs:
            # The Spec on the abstract graph is the reference: it does not depend on comb_edges_to. (If
            # `spec_netlist` in the replay equals the real outcome, either comb_edges_to drops a dependency
            # or the harness misreads a construct - stmt_deps - and has to be corrected.)
            chk.hist("violations", f"cycle:{stream}:" + ",".join(replay.get("classes", ["unclassified"])))
            chk.violation(f"combinational cycle: real code says {impl}, Spec says {spec_abs} "
                          f"({case.get('family', 'cycle')} {case.get('index', '')}" +
                          (f" default+override {case['shape']['template']} {case['shape']['parts']}" if "shape" in case else "") + ")", replay)
        elif res["public"] is not None and res["public"] != impl:
            chk.hist("violations", "cycle:public-api")
            chk.violation(f"combinational cycle: public API says {res['public']}, check_comb_cycles says {impl}", replay)
        else:
            if spec_net != spec_abs:
                chk.hist("not_shown", "cycle:construct-reading")
                chk.not_shown("the dependency graph of the emitted netlist disagrees with the abstract graph "
                              f"(abstract graph {spec_abs}, netlist graph {spec_net}, real code {impl})", replay)
            elif model_net != impl or model_abs != spec_abs:
                chk.hist("not_shown", "cycle:dfs-model")
                chk.not_shown(f"DFS model says {model_net} on the dumped netlist, real code says {impl}", replay)
            elif impl == "CombinationalCycle" and int(d["len"]) != res["pathlen"]:
                chk.hist("not_shown", "cycle:path-length")
                chk.not_shown(f"DFS model reports a path of {d['len']} nets, real code one of {res['pathlen']}", replay)
            elif res["edge_diff"]:
                chk.hist("not_shown", "cycle:dependency-edges")
                chk.not_shown("the netlist's combinational edges (comb_edges_to) differ from the Spec's reading of the "
                              f"design although this case has the same outcome: {res['edge_diff'][:1]}", replay)
            elif d["covers"] != "1" or res["problems"]:
                chk.hist("not_shown", "cycle:hypothesis")
                chk.not_shown("a hypothesis of the cycle theorems does not hold of the dumped netlist "
                              f"(covers={d['covers']}, {res['problems'][:2]})", replay)
        if stream == "default" and len(chk.cov["samples"]) < 5:
            chk.sample({"family": "cycle (default + override)", "shape": case["shape"], "stmts": case["stmts"][:5],
                        "impl": impl, "spec": spec_abs, "model_on_netlist": model_net, "defaults": res.get("defaults")})
        if stream == "random" and len(chk.cov["samples"]) < 6 and len(case["stmts"]) >= 2:
            chk.sample({"family": "cycle", "stmts": [{k: v for k, v in st.items()} for st in case["stmts"][:4]],
                        "impl": impl, "spec": spec_abs, "model_on_netlist": model_net})


# the witnesses of finding F5 and their legal neighbours: always run
def corpus_cases():
    def st(lo, hi, kind, ops, **kw):
        d = {"tsig": 0, "lo": lo, "hi": hi, "mod": 0, "dom": "comb", "cond": None, "kind": kind, "ops": ops}
        d.update(kw)
        return d
    base = {"family": "cycle", "widths": [4], "tree": [None], "ports": [0], "via": "build_netlist"}
    a = lambda *bs: [[0, b] for b in bs]
    one = [["c", 1]]
    return [
        dict(base, stmts=[st(0, 4, "+", [a(1, 2), one])]),                    # a.eq(a[1:3] + 1)         (F5)
        dict(base, stmts=[st(0, 2, ">>", [a(0, 1, 2, 3), one], roff=2)]),     # a[:2].eq((a >> C(1,1))[2:])  (F5)
        dict(base, stmts=[st(0, 4, "+", [a(0, 1), one])]),                    # a.eq(a[0:2] + 1)         (cycle, reported)
        dict(base, stmts=[st(0, 2, "+", [a(2, 3), one])]),                    # a[0:2].eq(a[2:4] + 1)    (legal)
        dict(base, stmts=[st(0, 1, "copy", [a(1)]), st(1, 2, "and", [a(2), a(3)])]),   # legal chain
        dict(base, stmts=[st(0, 1, "copy", [a(1)]), st(1, 2, "copy", [a(0)])]),        # two-bit loop
    ] + [
        # a wide choice node whose 1-bit control is fed from result bit k: o.eq(Mux(sel, x, y)); sel.eq(o[k])
        dict(base, widths=[4, 1, 4], ports=[0, 2],
             stmts=[st(0, 4, "mux", [[[1, 0]], [[2, 0], [2, 1], [2, 2], [2, 3]], [[2, 3], [2, 2], [2, 1], [2, 0]]]),
                    dict(st(0, 1, "copy", [[[0, k]]]), tsig=1)])
        for k in range(4)
    ] + [
        # the same through an If/Else, and the legal neighbour (data operands take lower result bits)
        dict(base, widths=[4, 1, 4], ports=[0, 2],
             stmts=[st(0, 4, "copy", [[[2, 0], [2, 1], [2, 2], [2, 3]]], cond="else", cbits=[[1, 0]]),
                    dict(st(0, 1, "xor", [[[0, 3]], [[2, 0]]]), tsig=1)]),
        dict(base, widths=[4, 1, 4], ports=[0, 1, 2],
             stmts=[st(0, 4, "mux", [[[1, 0]], [[2, 0], [0, 0], [0, 1], [0, 2]], [[2, 0], [2, 1], [2, 2], [2, 3]]])]),
    ] + [
        # a loop that closes through the *default* of an overridden signal:  a = <wiring of b>; if c: a = 0; b = <wiring of a>
        # (signals: 0 = a, 1 = b, 2 = c), and the legal neighbours that shift instead of rotating
        dict(base, widths=[4, 4, 1], ports=[0, 1, 2],
             stmts=[st(0, 4, "copy", [dflt], role="default"),
                    st(0, 4, "copy", [[["c", 0]] * 4], cond="if1", cbits=[[2, 0]], role="override"),
                    dict(st(0, 4, "copy", [close], role="close"), tsig=1)])
        for dflt, close in [
            ([[1, 0], [1, 1], [1, 2], [1, 3]], [[0, 1], [0, 2], [0, 3], [0, 0]]),        # a = b,        b = rotate(a)   (loop)
            ([[1, 3], [1, 2], [1, 1], [1, 0]], [[0, 1], [0, 2], [0, 3], [0, 0]]),        # a = b[::-1],  b = rotate(a)   (loop)
            ([[1, 2], [1, 3], [1, 0], [1, 1]], [[0, 0], [0, 1], [0, 2], [0, 3]]),        # a = Cat(b[2:], b[:2]), b = a  (loop)
            ([[1, 0], [1, 1], [1, 2], [1, 3]], [[0, 1], [0, 2], [0, 3], ["c", 0]]),      # a = b,        b = a >> 1      (legal)
            ([[1, 1], [1, 2], [1, 3], ["c", 0]], [[0, 0], [0, 1], [0, 2], [0, 3]]),      # a = b >> 1,   b = a           (legal)
        ]
    ] + [
        # the same within one signal: a = rotate(a) / a = a >> 1, then a partial override
        dict(base, widths=[4, 1], ports=[0, 1],
             stmts=[st(0, 4, "copy", [dflt], role="default"),
                    st(1, 3, "not", [[[1, 0], [1, 0]]], cond="else", cbits=[[1, 0]], role="override")])
        for dflt in [[[0, 1], [0, 2], [0, 3], [0, 0]], [[0, 1], [0, 2], [0, 3], ["c", 0]]]
    ]


# =================================================================================================

def boundary_witnesses():
    """documented over-approximations at the edge of the property; recorded in the evidence, never judged"""
    from amaranth.hdl import Module, Signal, ClockDomain, Fragment, SyntaxError
    from amaranth.hdl._ir import build_netlist
    out = []
    # 1. the unassigned bits of a partially assigned register signal become flip-flop outputs
    m = Module()
    cd = ClockDomain("sync")
    m.domains.sync = cd
    d = Signal(2, name="d")
    s = Signal(4, name="s")
    m.d.sync += s[0:2].eq(d)
    m.d.comb += cd.clk.eq(s[2])
    try:
        build_netlist(Fragment.get(m, None), ports=[d, s])
        kind = "ok"
    except Exception as e:  # noqa: BLE001
        kind = common.errkind(e)
    out.append({"what": "clock of a domain derived from a never-assigned bit of a signal registered in that domain "
                        "(no bit depends on itself; the emitter widens the register over the whole signal)",
                "observed": kind, "repro": "prelim/repro/c06_widened_register_clock.py"})
    # 2. Module's early check claims the whole operand of a part-select target
    m = Module()
    o = Signal(1, name="o")
    m.d.comb += s[0:4].bit_select(o, 1).eq(1)
    try:
        m.d.sync += s[3].eq(1)
        kind = "ok"
    except SyntaxError:
        kind = "SyntaxError"
    out.append({"what": "s[0:4].bit_select(o, 1) with a 1-bit o in d.comb, s[3] in d.sync of the same module "
                        "(bit 3 is out of reach of the part-select; the whole-design check accepts the pair)",
                "observed": kind, "repro": "prelim/repro/c06_early_partselect_overapprox.py"})
    return out


def dispatch(task):
    fam, inner = task
    return fam, inner[0], (conflict_worker(inner) if fam == "conflict" else cycle_worker(inner))


def _pool_map(tasks):
    ctx = multiprocessing.get_context("fork")
    with ProcessPoolExecutor(max_workers=WORKERS, mp_context=ctx) as ex:
        for res in ex.map(dispatch, tasks):
            yield res


def keep_labelling(n, lab):
    """one of each pair of labellings that are mirror images of each other (bit order reversed)"""
    rev = int(format(lab, f"0{n}b")[::-1], 2)
    return lab <= rev


def run(chk):
    if not chk.lean():
        chk.not_shown("Lean build of Properties/C06 failed", chk.build_log[-3000:])
        return
    rng = chk.rng
    quick = chk.tier == "quick"
    n_conf = int(os.environ.get("C06_CONFLICTS", 4000 if quick else 40000))
    n_cyc = int(os.environ.get("C06_CYCLES", 2500 if quick else 30000))
    n_def = int(os.environ.get("C06_DEFAULTS", 1000 if quick else 12000))
    full4 = os.environ.get("C06_ENUM_MIRROR") != "1"
    t0 = time.time()
    tasks = []
    exhaustive = {}

    # ---- (i) conflicts -------------------------------------------------------------------------
    per = max(50, n_conf // (WORKERS * 4))
    tasks += [("conflict", ("random", rng.getrandbits(48), per)) for _ in range((n_conf + per - 1) // per)]
    if not quick:
        total = sum(1 for _ in enum_conflict_cases())
        tasks += [("conflict", ("enum", s, min(total, s + 500))) for s in range(0, total, 500)]
        exhaustive["conflicts"] = {
            "domain": "all multisets of <= 3 logic drives (10 bit ranges x 3 modules x {comb, sync}) over one 4-bit signal "
                      "and the tree top/a/a.b; Module-built, and Fragment-built whenever the Module refuses early",
            "placements": total}

    # ---- (ii) cycles ---------------------------------------------------------------------------
    tasks.append(("cycle", ("cases", corpus_cases())))
    per = max(25, n_def // (WORKERS * 4))
    tasks += [("cycle", ("default", rng.getrandbits(48), per)) for _ in range((n_def + per - 1) // per)]
    per = max(25, n_cyc // (WORKERS * 4))
    tasks += [("cycle", ("random", rng.getrandbits(48), per)) for _ in range((n_cyc + per - 1) // per)]
    # small graphs: quick = all graphs on <= 3 nets with every labelling + a seeded 1/256 sample of the 4-net ones;
    # thorough = all of them (with C06_ENUM_MIRROR=1: one of each mirror-image pair of the 4-net labellings)
    plan = [(1, 1, 0), (2, 1, 0), (3, 1, 0), (4, 256, rng.randrange(256)) if quick else (4, 1, 0)]
    ecount = {}
    for n, stride, phase in plan:
        ngraphs = 1 << (n * n)
        labs = [lab for lab in range(1 << n) if stride > 1 or full4 or n < 4 or keep_labelling(n, lab)]
        ecount[n] = {"graphs": ngraphs, "labellings": len(labs), "of_labellings": 1 << n, "stride": stride}
        step = max(256, ngraphs // 8)
        # mode 1 (wide choice nodes) only differs where two adjacent nets are bit-precise
        labs1 = [lab for lab in labs if n >= 2 and any(not (lab >> i & 1) and not (lab >> (i + 1) & 1) for i in range(n - 1))]
        ecount[n]["labellings_with_wide_choice_nodes"] = len(labs1)
        for mode, ls in ((0, labs), (1, labs1)):
            for lab in ls:
                base = ((mode << n) | lab) * ngraphs
                tasks += [("cycle", ("enum", n, base + s, base + min(ngraphs, s + step), None, stride, phase))
                          for s in range(0, ngraphs, step)]
    exhaustive["cycles"] = {
        "domain": "every dependency graph on n nets (bits of one n-bit signal, self-loops included) x every labelling of the "
                  "nets as bit-precise / word-level (with C06_ENUM_MIRROR=1, for n = 4: one of each mirror-image pair of "
                  "labellings); adjacent word-level nets with equal dependencies share one operator cell; every case with two "
                  "adjacent bit-precise nets that share a dependency is run a second time with those nets realised as one wide "
                  "choice node (Mux / If-Else / replicated select) controlled by the shared net",
        "by_n": ecount, "complete_for_n": [n for n, stride, _p in plan if stride == 1]}

    # (i') conflicts, designs under ResetInserter / EnableInserter with multi-domain control dicts (seeds drawn last: the
    # streams above see the same cases as before this stream existed)
    n_ctl = int(os.environ.get("C06_CTL", 1500 if quick else 15000))
    per = max(50, n_ctl // (WORKERS * 2))
    tasks += [("conflict", ("ctl", rng.getrandbits(48), per)) for _ in range((n_ctl + per - 1) // per)]

    nrun = {}
    for fam, stream, recs in _pool_map(tasks):
        nrun[(fam, stream)] = nrun.get((fam, stream), 0) + len(recs)
        if fam == "conflict":
            judge_conflicts(chk, recs, stream)
        else:
            judge_cycles(chk, recs, {"cases": "corpus"}.get(stream, stream))
    exhaustive["designs_run"] = {f"{f}.{s}": n for (f, s), n in nrun.items()}
    chk.extra["exhaustive"] = exhaustive
    chk.extra["boundary_notes"] = boundary_witnesses()
    chk.extra["time_cases_s"] = round(time.time() - t0, 1)

    chk.cov["rule"] = (
        "conflicts: random module trees (1-5 modules), 1-3 signals + memory read data, up to 5 logic drives in "
        "(module, domain) pairs with several target forms (slice, nested slice, Cat, as_signed, bit_select, If, Switch), "
        "Instance / memory / IOBuffer / top-input drivers, Module-built or Fragment-built, optional DomainRenamer; "
        "35% bit-disjoint by construction (legal near-misses). distinct = the drive list; non-trivial = at least two drives. "
        "control inserters (stream ctl): 1-4 modules, 1-4 signals (random init, 12% reset-less), one module with statements in "
        "2-3 of the clocked domains sync/fast/slow (+ comb, + other (module, domain) pairs), 60% bit-disjoint by construction; "
        "1-2 wrappers ResetInserter (65%) / EnableInserter with a control dict over 1-3 domains (mostly those of the busy "
        "module, sometimes one it does not use) around the busy module, one of its ancestors or any module, stacked on one "
        "module or nested; Module-built or Fragment-built; distinct = drive list + wrappers; coverage.distribution "
        "conflict.ctl.* says how many controlled domains have statements in one fragment. "
        "cycles: up to 12 signal bits in 1-4 signals over 1-3 modules, one statement per target slice, bit-precise or "
        "word-level kind, optional condition, forward-only (acyclic by construction) or with 1-2 back edges or free; "
        "defaults: rings of 1-3 signals in which every member but the last is assigned unconditionally from a pure rearrangement "
        "(identity / reversal / rotation / half swap / shift, as slices and Cat) of the next one and then overridden under a condition "
        "(whole or part of the signal, any operator, conditions and operands from inputs, 15 % also from the ring), the last member closes "
        "the ring (rearrangement, ~, ^, or + / -); the unconditional assignment covers the whole signal, one of two halves driven from "
        "two modules, all but one bit, or sits in the sync domain; intended loop / legal (indices move one way only) / free; "
        "coverage.distribution cycle.default.* says how often the loop closes only through such a default; "
        "distinct = abstract graph + dumped netlist graph; every case exercises the traversal.")
    chk.assumptions += [
        "the harness's per-construct reading of dependencies (stmt_deps) - cross-checked on every case against the dumped netlist",
        "the Lean `Graph` of a real netlist is what dump_netlist_graph extracts through output_nets / comb_edges_to / "
        "comb_edges_is_per_bit / connections (the same calls check_comb_cycles makes)",
        "part-select assignment targets whose offset cannot reach every bit are left out of the conflict stream: "
        "Module._add_statement over-approximates them on purpose (comment in LHSMaskCollector.visit_value)",
        "driver conflicts on I/O ports ('used twice') and clock-domain signals are not generated",
        "ResetInserter / EnableInserter add no driver to a bit the wrapped statements of that (module, domain) do not "
        "drive (the reset covers LHSMaskCollector's bits of the domain's own statements; part-select targets in this "
        "stream reach every bit of their slice), so the verdict of a wrapped design is that of the unwrapped drives",
        "a signal whose only driver is one synchronous (module, domain) pair is registered in all its bits, assigned or "
        "not (the widening in emit_drivers); this only matters when the domain's clock / asynchronous reset is itself "
        "driven by logic (20% of the random cycle cases); see coverage.boundary_notes",
        "cycle_complete assumes Graph.Covers (every net with an edge is a traversal root); the driver evaluates it on "
        "every dumped netlist and the check reports any netlist on which it is false",
        "no malformed-input stream: the property's inputs are designs that construct; designs refused by Module at "
        "construction time for a driver conflict are the SyntaxError class of the conflict stream",
    ]


def replay(chk, path):
    data = json.load(open(path))
    rep = data["replay"]
    if not chk.lean():
        return common.EXIT_INFRA
    if rep["family"] == "conflict":
        case = rep["case"]
        impl, msg = run_conflict_case(case)
        resp = chk.driver.ask([conflict_request(case)])[0]
        print("request:", conflict_request(case))
        print("real code:", impl, msg)
        print("driver:", resp)
    else:
        case = rep["case"]
        if case.get("family") == "cycle-enum" and "stmts" not in case:
            case = enum_index_to_case(case["n"], case["index"])
        res = run_cycle_case(case, public_too=True)
        resps = chk.driver.ask([res["abs_req"], res["net_req"]])
        print("real code:", res["impl"], "path", res["pathlen"], "public:", res["public"])
        print("abstract graph:", resps[0])
        print("netlist graph:", resps[1])
    return common.EXIT_OK
