"""C17 - clock-domain-crossing primitives meet their latency and pulse contracts.

The real `FFSynchronizer`, `AsyncFFSynchronizer`, `ResetSynchronizer` and `PulseSynchronizer` are
simulated with hand-driven clocks; the output read after *every* event of a schedule is compared
with the register-level Lean model (`Model/Cdc.lean`) and with the contract (`Spec/Cdc.lean`).

A schedule is a list of events: "i" (input-clock edge), "o" (output-clock edge), "b" (both clocks
have their active edge in one `ctx.set`), an integer (drive the input signal), and - FFSynchronizer
only - "R" / "r" (raise / release the reset of the output domain).

FFSynchronizer is built with input and output of *different shapes* (signed/unsigned in all four
combinations, output narrower / equal / wider): the expected output pattern is the value of the input
converted into the output's shape, computed by the driver (`Model.extendTo`, `Spec.delivered`), never
by amaranth.  Its output domain is declared with a synchronous or an asynchronous reset and that
reset is driven during the schedule: a reset-less synchroniser (the default) must be unaffected, a
`reset_less=False` one shows `init` again.  FFSynchronizer and PulseSynchronizer are also run in
output domains whose active edge is the falling one.

Streams
  * exhaustive: the reachable state graph of the model is enumerated breadth-first through the
    driver; every (reachable state, event) transition is replayed on the real primitive, followed by
    distinguishing suffixes that shift the whole register contents to the output;
  * random: long random interleavings (stages 2-5, widths 0-9, signed and unsigned, in- and
    out-of-range initial values, both async edges, pulse schedules that respect / violate the
    spacing hypothesis);
  * multi: designs with two or three AsyncFFSynchronizer / ResetSynchronizer instances (each owns a
    private clock domain called "async_ff"), different inputs, output clocks, stage counts and
    nesting depths, sometimes next to an FFSynchronizer / PulseSynchronizer; every instance is
    compared with its own model run on its own events, and must not move on anybody else's;
  * renamed: primitives under `DomainRenamer` maps (none, identity, distinct targets, "sync" renamed
    by a str, swap, chains, and maps that send BOTH domains of a PulseSynchronizer onto one clock);
    expected = the model run with the renamed, possibly identical, clocks;
  * reuse: a primitive elaborated once (`Fragment.get`), the Fragment used in two or three successive
    designs whose top level declares new ClockDomain objects (other clk_edge / reset kind);
  * malformed: constructor rejections compared as error kinds;
  * elaboration: every primitive x async_edge x `clk_edge` of the output domain, elaborated for the
    simulator and for RTLIL; `DomainRequirementFailed` expected exactly where the model's
    `RequirePosedge` bookkeeping says so (AsyncFFSynchronizer for either edge, ResetSynchronizer).
"""
import concurrent.futures
import os

from .. import common

LEVEL = "proof"
EXE = "amodel_c17"


# ------------------------------------------------------------------------------------------------
# the real code

def _drive(ctx, cdi, cdo, ev, set_input, neg_o=False):
    """one event.  The input clock idles low and is active on its rising edge; the output clock of a
    `clk_edge="neg"` domain (`neg_o`) idles high and is active on its falling edge, so that in every
    case an event contains exactly one active edge and "b" has both active edges in one `ctx.set`."""
    from amaranth.hdl import Cat
    if ev == "i":
        ctx.set(cdi.clk, 1); ctx.set(cdi.clk, 0)
    elif ev == "o":
        ctx.set(cdo.clk, 0 if neg_o else 1); ctx.set(cdo.clk, 1 if neg_o else 0)
    elif ev == "b":
        ctx.set(Cat(cdi.clk, cdo.clk), 0b01 if neg_o else 0b11)
        ctx.set(Cat(cdi.clk, cdo.clk), 0b10 if neg_o else 0b00)
    elif ev == "R":
        ctx.set(cdo.rst, 1)
    elif ev == "r":
        ctx.set(cdo.rst, 0)
    else:
        set_input(ctx, ev)


def make_input(form, w, is_signed, i0, aux):
    """The synchroniser's input as the user may write it: a Signal whose power-on value is `i0`
    (any value, not only 0), or an expression over other signals whose power-on value is `i0`.
    returns (value handed to the constructor, setter(ctx, bit pattern))"""
    from amaranth.hdl import Signal, Const, Cat, signed, unsigned
    mask = (1 << w) - 1
    i0 &= mask

    def to_signed(p):
        p &= mask
        return (p ^ (1 << (w - 1))) - (1 << (w - 1))
    if form == "signal":
        if is_signed:
            sig = Signal(signed(w), init=to_signed(i0))
            return sig, lambda ctx, p: ctx.set(sig, to_signed(p))
        sig = Signal(unsigned(w), init=i0)
        return sig, lambda ctx, p: ctx.set(sig, p)       # ctx.set truncates an out-of-range value
    if form == "slice":
        lo, hi = aux % 3, (aux // 3) % 3
        junk = aux // 9
        big = Signal(lo + w + hi, init=((junk << (lo + w)) | (i0 << lo) | (junk & ((1 << lo) - 1))) & ((1 << (lo + w + hi)) - 1))
        val = big[lo:lo + w]
        setter = lambda ctx, p: ctx.set(big[lo:lo + w], p & mask)
    elif form == "xor":
        c = aux & mask
        sig = Signal(w, init=i0 ^ c)
        val = sig ^ Const(c, w)
        setter = lambda ctx, p: ctx.set(sig, (p & mask) ^ c)
    elif form == "not":
        sig = Signal(w, init=~i0 & mask)
        val = ~sig
        setter = lambda ctx, p: ctx.set(sig, ~p & mask)
    elif form == "cat":
        k = aux % (w + 1)
        a = Signal(k, init=i0 & ((1 << k) - 1))
        b = Signal(w - k, init=i0 >> k)
        val = Cat(a, b)
        setter = lambda ctx, p: ctx.set(Cat(a, b), p & mask)
    else:
        raise AssertionError(form)
    if is_signed:
        val = val.as_signed()
    return val, setter


def simulate(case):
    """run one case on the real primitives; returns the list of outputs (one before any event, one
    after every event), as unsigned bit patterns, or ("error", kind).
    `case["omit"]` lists the constructor arguments that are *not passed* (the case then carries the
    documented default as the parameter's value), `case["iform"]` says how the input is written."""
    from amaranth.hdl import Module, Signal, ClockDomain, signed, unsigned
    from amaranth.sim import Simulator
    from amaranth.lib import cdc
    try:
        kind, n, evs = case["kind"], case["n"], case["evs"]
        omit = set(case.get("omit", ()))
        iform, aux = case.get("iform", "signal"), case.get("aux", 0)
        dom_kw = "domain" if kind == "reset" else "o_domain"
        od = "sync" if dom_kw in omit else "o"            # documented default of o_domain / domain
        m = Module()
        m.domains.i = cdi = ClockDomain("i")
        neg_o = bool(case.get("neg_dom"))
        cdo = ClockDomain(od, async_reset=bool(case.get("async_dom")), **({"clk_edge": "neg"} if neg_o else {}))
        m.domains += cdo
        heartbeat = Signal()
        m.d.i += heartbeat.eq(~heartbeat)          # makes "i" a real clock of the design
        kw = {}
        if "stages" not in omit:
            kw["stages"] = n
        elif n != 2:
            raise AssertionError("stages omitted but n != 2")
        if dom_kw not in omit and kind != "pulse":
            kw[dom_kw] = od
        mask = 1
        if kind == "ff":
            w = case["w"]
            inp, set_input = make_input(iform, w, case["signed"], case["i0"], aux)
            wo = case.get("wo", w)
            out = Signal(signed(wo) if case.get("osigned", case["signed"]) else unsigned(wo))
            mask = (1 << wo) - 1
            if "init" not in omit:
                kw[case.get("init_kw", "init")] = case["init"]     # "init" or the deprecated "reset"
            elif case["init"] != 0:
                raise AssertionError("init omitted but init != 0")
            elif case.get("init_none"):
                kw["init"] = None                                   # the signature's default, spelled out
            if "reset_less" not in omit:
                kw["reset_less"] = case.get("reset_less", True)
            m.submodules.dut = cdc.FFSynchronizer(inp, out, **kw)
        elif kind == "async":
            inp, set_input = make_input(iform, 1, False, case["i0"], aux)
            out = Signal()
            if "async_edge" not in omit:
                kw["async_edge"] = "pos" if case["pos"] else "neg"
            elif not case["pos"]:
                raise AssertionError("async_edge omitted but not pos")
            m.submodules.dut = cdc.AsyncFFSynchronizer(inp, out, **kw)
        elif kind == "reset":
            inp, set_input = make_input(iform, 1, False, case["i0"], aux)
            out = cdo.rst
            m.submodules.dut = cdc.ResetSynchronizer(inp, **kw)
            user = Signal(4)
            m.d[od] += user.eq(user + 1)           # something for the synchronised reset to reset
        elif kind == "pulse":
            dut = m.submodules.dut = cdc.PulseSynchronizer("i", od, **kw)
            out = dut.o
            set_input = lambda ctx, p: ctx.set(dut.i, p)
        else:
            raise AssertionError(kind)
        if kind != "reset":
            keep = Signal()
            m.d[od] += keep.eq(~keep)
        sim = Simulator(m)
        outs = []

        async def tb(ctx):
            if neg_o:
                ctx.set(cdo.clk, 1)                 # idle level; a rising edge is not an active one
            outs.append(ctx.get(out) & mask)
            for ev in evs:
                _drive(ctx, cdi, cdo, ev, set_input, neg_o)
                outs.append(ctx.get(out) & mask)
        sim.add_testbench(tb)
        sim.run()
        return outs
    except AssertionError:
        raise
    except Exception as e:                          # noqa: BLE001 - mapped to an error kind
        return ("error", common.errkind(e), str(e)[:200])


def simulate_many(cases, workers):
    if workers <= 1 or len(cases) < 64:
        return [simulate(c) for c in cases]
    chunk = max(8, len(cases) // (workers * 8))
    with concurrent.futures.ProcessPoolExecutor(max_workers=workers) as ex:
        return list(ex.map(simulate, cases, chunksize=chunk))


# ------------------------------------------------------------------------------------------------
# designs: several primitives in one simulated design, primitives under DomainRenamer, and one
# elaborated Fragment used in several successive designs
#
# session = {"stream": ..., "insts": [inst, ...], "reuse": bool, "runs": [run, ...]}
#   inst  = the parameters of `simulate`'s case (kind, n, w, signed, wo, osigned, init, i0, reset_less,
#           pos, iform, aux) plus
#             "o_name" / "i_name": the domain names handed to the constructor (i_name: PulseSynchronizer),
#             "omit_dom": o_domain / domain not passed (then o_name is "sync"),
#             "rename": list of DomainRenamer maps (a dict, or a str = {"sync": str}), innermost first,
#             "nest": number of wrapper Modules between the top level and the primitive
#   run   = {"domains": [{"name", "neg", "async"}...], "evs": [design event...]}
#   design events: ["c", [domain index...]]  the listed clocks have their active edge in one ctx.set
#                  ["s", k, pattern]         drive the input of instance k
#                  ["R", d, 0|1]             drive the reset of domain d
# With "reuse" every primitive is elaborated ONCE (`Fragment.get(prim, None)`) and the same Fragment
# object is put into every run's new top-level Module, which declares its domains itself with new
# ClockDomain objects.  Every instance is compared with its own model run on the projection of the
# design's events onto that instance (its clocks under their final names, its input, the reset of its
# output domain); an event that is not in the projection must leave its output unchanged.

def apply_renames(name, renames):
    for mp in renames:
        mp = {"sync": mp} if isinstance(mp, str) else mp
        name = mp.get(name, name)
    return name


def eff_domains(inst):
    """final names of (input domain or None, output domain) of an instance, after its renamers"""
    rn = inst.get("rename", [])
    i = apply_renames(inst["i_name"], rn) if inst["kind"] == "pulse" else None
    return i, apply_renames(inst["o_name"], rn)


def project(inst, run, k):
    """the design's events as instance k sees them: (events of `simulate`'s alphabet, for each of them
    the index of the design event it comes from)"""
    names = [d["name"] for d in run["domains"]]
    di, do = eff_domains(inst)
    evs, idx = [], []
    for j, e in enumerate(run["evs"]):
        p = None
        if e[0] == "c":
            hit_i = di is not None and names.index(di) in e[1]
            hit_o = names.index(do) in e[1]
            p = "b" if hit_i and hit_o else "i" if hit_i else "o" if hit_o else None
        elif e[0] == "s":
            p = e[2] if e[1] == k else None
        elif e[0] == "R" and inst["kind"] == "ff" and names[e[1]] == do:
            p = "R" if e[2] else "r"
        if p is not None:
            evs.append(p)
            idx.append(j)
    return evs, idx


def inst_case(inst, run, k):
    """instance k of a run as a case of `request` / `compare`, on its projected events"""
    _di, do = eff_domains(inst)
    dom = next(d for d in run["domains"] if d["name"] == do)
    evs, idx = project(inst, run, k)
    c = {key: v for key, v in inst.items() if key not in ("o_name", "i_name", "rename", "nest", "omit_dom")}
    c.update(evs=evs, async_dom=dom["async"], neg_dom=dom["neg"])
    return c, idx


def simulate_session(sess):
    """returns per run: per instance the list of outputs (before any event, after every design event),
    or ("error", kind, message) for the run"""
    from amaranth.hdl import Module, Signal, ClockDomain, Cat, Fragment, DomainRenamer, signed, unsigned
    from amaranth.sim import Simulator
    from amaranth.lib import cdc
    try:
        built = []
        for inst in sess["insts"]:
            kind, n = inst["kind"], inst["n"]
            dom_kw = "domain" if kind == "reset" else "o_domain"
            kw = {"stages": n}
            if not inst.get("omit_dom") and kind != "pulse":
                kw[dom_kw] = inst["o_name"]
            out = None
            if kind == "ff":
                inp, set_input = make_input(inst.get("iform", "signal"), inst["w"], inst["signed"], inst["i0"], inst.get("aux", 0))
                out = Signal(signed(inst["wo"]) if inst["osigned"] else unsigned(inst["wo"]))
                prim = cdc.FFSynchronizer(inp, out, init=inst["init"], reset_less=inst["reset_less"], **kw)
            elif kind == "async":
                inp, set_input = make_input(inst.get("iform", "signal"), 1, False, inst["i0"], inst.get("aux", 0))
                out = Signal()
                prim = cdc.AsyncFFSynchronizer(inp, out, async_edge="pos" if inst["pos"] else "neg", **kw)
            elif kind == "reset":
                inp, set_input = make_input(inst.get("iform", "signal"), 1, False, inst["i0"], inst.get("aux", 0))
                prim = cdc.ResetSynchronizer(inp, **kw)
            elif kind == "pulse":
                prim = cdc.PulseSynchronizer(inst["i_name"], inst["o_name"], **kw)
                out = prim.o
                set_input = (lambda sig: lambda ctx, p: ctx.set(sig, p))(prim.i)
            else:
                raise AssertionError(kind)
            for mp in inst.get("rename", []):
                prim = DomainRenamer(mp)(prim)
            if sess.get("reuse"):
                prim = Fragment.get(prim, None)
            built.append((prim, out, set_input))
    except AssertionError:
        raise
    except Exception as e:                          # noqa: BLE001 - mapped to an error kind
        return [("error", common.errkind(e), str(e)[:200])] * len(sess["runs"])
    results = []
    for run in sess["runs"]:
        try:
            m = Module()
            cds = []
            for d in run["domains"]:
                cd = ClockDomain(d["name"], async_reset=d["async"], **({"clk_edge": "neg"} if d["neg"] else {}))
                m.domains += cd
                cds.append(cd)
                keep = Signal(4, name=f"keep_{d['name']}")
                m.d[d["name"]] += keep.eq(keep + 1)     # makes it a real clock of the design / something to reset
            outs_sig = []
            for k, (inst, (prim, out, _set)) in enumerate(zip(sess["insts"], built)):
                sub = prim
                for _ in range(inst.get("nest", 0)):
                    wrap = Module()
                    wrap.submodules.inner = sub
                    sub = wrap
                m.submodules[f"u{k}"] = sub
                if inst["kind"] == "reset":
                    out = cds[[d["name"] for d in run["domains"]].index(eff_domains(inst)[1])].rst
                outs_sig.append(out)
            masks = [(1 << len(s)) - 1 for s in outs_sig]
            sim = Simulator(m)
            outs = [[] for _ in outs_sig]
            idle = sum((1 << j) for j, d in enumerate(run["domains"]) if d["neg"])
            clks = Cat(*[cd.clk for cd in cds])

            def observe(ctx):
                for o, s, mk in zip(outs, outs_sig, masks):
                    o.append(ctx.get(s) & mk)

            async def tb(ctx, run=run, clks=clks, idle=idle, cds=cds, observe=observe):
                if idle:
                    ctx.set(clks, idle)                 # idle level; a rising edge is not an active one
                observe(ctx)
                for e in run["evs"]:
                    if e[0] == "c":
                        flip = sum(1 << j for j in e[1])
                        ctx.set(clks, idle ^ flip)
                        ctx.set(clks, idle)
                    elif e[0] == "s":
                        built[e[1]][2](ctx, e[2])
                    elif e[0] == "R":
                        ctx.set(cds[e[1]].rst, e[2])
                    else:
                        raise AssertionError(e)
                    observe(ctx)
            sim.add_testbench(tb)
            sim.run()
            results.append(outs)
        except AssertionError:
            raise
        except Exception as e:                      # noqa: BLE001 - mapped to an error kind
            results.append(("error", common.errkind(e), str(e)[:200]))
    return results


def simulate_sessions(sessions, workers):
    if workers <= 1 or len(sessions) < 1500:        # a session takes a few ms: a pool only pays off for the thorough tier
        return [simulate_session(s) for s in sessions]
    chunk = max(2, len(sessions) // (workers * 4))
    with concurrent.futures.ProcessPoolExecutor(max_workers=workers) as ex:
        return list(ex.map(simulate_session, sessions, chunksize=chunk))


def f4_in_driven_domain():
    """Informational: finding F4 (a rising async reset ran the whole sync process) never reached
    the outputs of the primitives (every flop of the private domain is resettable to 1); it was
    visible in a *user* domain with async_reset=True driven by ResetSynchronizer, where a
    reset-less counter advanced when `arst` rose without any clock edge.  Records whether the tree
    under test still does that (`advanced`)."""
    from amaranth.hdl import Module, Signal, ClockDomain
    from amaranth.sim import Simulator
    from amaranth.lib import cdc
    m = Module()
    arst = Signal()
    m.domains.o = cdo = ClockDomain("o", async_reset=True)
    m.submodules.rs = cdc.ResetSynchronizer(arst, domain="o", stages=2)
    cnt = Signal(8, reset_less=True)
    m.d.o += cnt.eq(cnt + 1)
    seen = {}
    sim = Simulator(m)

    async def tb(ctx):
        for _ in range(4):
            ctx.set(cdo.clk, 1); ctx.set(cdo.clk, 0)
        before = ctx.get(cnt)
        ctx.set(arst, 1)
        seen["advanced"] = ctx.get(cnt) != before
        seen["rst"] = ctx.get(cdo.rst)
    sim.add_testbench(tb)
    sim.run()
    return seen


# ------------------------------------------------------------------------------------------------
# protocol

def ser_evs(evs):
    return "(" + " ".join(str(e) for e in evs) + ")"


def request(case):
    k = case["kind"]
    if k == "ff":
        mask = (1 << case["w"]) - 1
        return (f"(ff {case['n']} {case['w']} {1 if case['signed'] else 0} {case.get('wo', case['w'])} {case['init']} "
                f"{case['i0'] & mask} {1 if case.get('reset_less', True) else 0} {1 if case.get('async_dom') else 0} "
                f"{ser_evs(case['evs'])})")
    if k in ("async", "reset"):
        return f"(async {case['n']} {1 if case['pos'] else 0} {case['i0']} {ser_evs(case['evs'])})"
    return f"(pulse {case['n']} {ser_evs(case['evs'])})"


def ints(s):
    return [int(x) for x in s.split(",")] if s else []


# ------------------------------------------------------------------------------------------------
# generators

def rand_ff(rng):
    n = rng.choice([2, 2, 3, 3, 4, 5])
    w = rng.randint(0, 9)
    sg = w >= 1 and rng.random() < 0.3
    mask = (1 << w) - 1
    r = rng.random()
    if r < 0.15:
        init = rng.randint(-(1 << (w + 2)), 1 << (w + 2))      # out of range: truncated (warning only)
    elif sg:
        init = rng.randint(-(1 << (w - 1)), (1 << (w - 1)) - 1)
    else:
        init = rng.randint(0, mask)
    evs = []
    for _ in range(rng.randint(5, 60)):
        x = rng.random()
        if x < 0.35: evs.append("o")
        elif x < 0.45: evs.append("b")
        elif x < 0.53: evs.append("i")
        elif x < 0.56: evs.append(rng.randint(0, 4 * mask + 3))  # ctx.set truncates
        else: evs.append(rng.randint(0, mask))
    if sg:
        evs = [e if isinstance(e, str) or e <= mask else e & mask for e in evs]
    # shape of the output: independent of the input's (narrower / equal / wider, signed or not)
    r = rng.random()
    if r < 0.35 or (w == 0 and r >= 0.7):
        wo = w
    elif r < 0.7:
        wo = w + rng.randint(1, 4)
    else:
        wo = rng.randint(0, w - 1)
    osg = wo >= 1 and rng.random() < 0.4
    # the reset of the output domain: synchronous or asynchronous, driven in half of the schedules
    adom = rng.random() < 0.5
    if rng.random() < 0.5:
        p_rst = rng.choice([0.04, 0.1])
        evs = [(("R" if rng.random() < 0.55 else "r") if rng.random() < p_rst else e) for e in evs]
    c = {"kind": "ff", "n": n, "w": w, "signed": sg, "wo": wo, "osigned": osg, "init": init,
         "i0": rng.randint(0, mask), "reset_less": rng.random() < 0.7, "async_dom": adom,
         "neg_dom": rng.random() < 0.2, "evs": evs}
    # how the constructor is called: which arguments are left to their defaults, how the input is written
    omit = []
    if rng.random() < 0.4:
        omit.append("init"); c["init"] = 0
        c["init_none"] = rng.random() < 0.25
        if mask and rng.random() < 0.7:
            c["i0"] = rng.randint(1, mask)          # an input whose own power-on value is not 0
    elif rng.random() < 0.1:
        c["init_kw"] = "reset"
    if n == 2 and rng.random() < 0.5: omit.append("stages")
    if rng.random() < 0.3: omit.append("o_domain")
    if c["reset_less"] and rng.random() < 0.5: omit.append("reset_less")
    c["omit"] = omit
    c["iform"] = rng.choice(["signal", "signal", "slice", "xor", "not", "cat"])
    c["aux"] = rng.getrandbits(16)
    return c


def rand_async(rng):
    n = rng.choice([2, 2, 3, 4, 5])
    kind = rng.choice(["async", "async", "reset"])
    pos = True if kind == "reset" else rng.random() < 0.5
    evs = []
    p_set = rng.choice([0.15, 0.3, 0.5])
    for _ in range(rng.randint(5, 60)):
        x = rng.random()
        if x < p_set: evs.append(rng.randint(0, 1))
        elif x < p_set + 0.08: evs.append("i")
        elif x < p_set + 0.18: evs.append("b")
        else: evs.append("o")
    omit = []
    if n == 2 and rng.random() < 0.5: omit.append("stages")
    if kind == "async" and pos and rng.random() < 0.5: omit.append("async_edge")
    if rng.random() < 0.3: omit.append("domain" if kind == "reset" else "o_domain")
    return {"kind": kind, "n": n, "pos": pos, "i0": rng.randint(0, 1),
            "async_dom": kind == "reset" and rng.random() < 0.5, "evs": evs, "omit": omit,
            "iform": rng.choice(["signal", "signal", "slice", "xor", "not"]), "aux": rng.getrandbits(16)}


def rand_pulse(rng):
    n = rng.choice([2, 2, 3, 4, 5])
    mode = rng.choice(["spaced", "spaced", "free", "fast-in"])
    evs, inp, pend = [], 0, 0
    p_hi = rng.choice([0.3, 0.6, 0.9])
    for _ in range(rng.randint(5, 80)):
        x = rng.random()
        if x < 0.25:
            inp = 1 if rng.random() < p_hi else 0
            evs.append(inp)
            continue
        if mode == "fast-in":
            ev = "i" if x < 0.75 else ("o" if x < 0.9 else "b")
        else:
            ev = "i" if x < 0.5 else ("o" if x < 0.85 else "b")
        if mode == "spaced" and ev == "i" and inp and pend:
            ev = rng.choice(["o", "b"])                  # let an output edge fall first
            if ev == "o":
                evs.append("o"); pend = 0; ev = "i"
        evs.append(ev)
        if ev == "o": pend = 0
        elif ev == "b": pend = 1 if inp else 0
        elif ev == "i" and inp: pend += 1
    if rng.random() < 0.7:                                # flush, so that the counts can be compared
        if rng.random() < 0.5:
            evs.append(0)
        evs += ["o"] * (n + rng.randint(0, 2))
    return {"kind": "pulse", "n": n, "mode": mode, "evs": evs, "neg_dom": rng.random() < 0.2,
            "omit": ["stages"] if n == 2 and rng.random() < 0.5 else []}


def rand_inst(rng, kind):
    """parameters of one primitive inside a design (all constructor arguments passed)"""
    n = rng.choice([2, 2, 3, 3, 4])
    inst = {"kind": kind, "n": n, "nest": rng.choice([0, 0, 1, 2]), "rename": []}
    if kind == "ff":
        w = rng.randint(1, 4)
        mask = (1 << w) - 1
        sg = rng.random() < 0.25
        wo = rng.choice([w, w, w + 2, max(1, w - 1)])
        inst.update(w=w, signed=sg, wo=wo, osigned=rng.random() < 0.3,
                    init=rng.randint(-(1 << (w - 1)), (1 << (w - 1)) - 1) if sg else rng.randint(0, mask),
                    i0=rng.randint(0, mask), reset_less=rng.random() < 0.6,
                    iform=rng.choice(["signal", "signal", "not", "xor"]), aux=rng.getrandbits(16))
    elif kind in ("async", "reset"):
        inst.update(pos=True if kind == "reset" else rng.random() < 0.6, i0=rng.randint(0, 1),
                    iform=rng.choice(["signal", "signal", "not"]), aux=rng.getrandbits(16))
    return inst


def rand_design_events(rng, insts, domains, length, resettable=()):
    """a schedule of a design: clock edges of its domains (each domain with its own rate, a few of
    them coincident), changes of every instance's input, and the reset of the `resettable` domains"""
    nd = len(domains)
    rate = [rng.choice([0.15, 1, 1, 1, 3]) for _ in range(nd)]
    if nd > 1 and rng.random() < 0.3:
        rate[rng.randrange(nd)] = 0                          # one clock of the design stands still
    if not any(rate):
        rate[rng.randrange(nd)] = 1
    p_set = rng.choice([0.2, 0.3, 0.45])
    p_rst = rng.choice([0.0, 0.05, 0.1]) if resettable else 0.0
    level = [0] * len(insts)
    evs = []
    for _ in range(length):
        x = rng.random()
        if x < p_rst:
            evs.append(["R", rng.choice(list(resettable)), int(rng.random() < 0.55)])
        elif x < p_rst + p_set:
            k = rng.randrange(len(insts))
            inst = insts[k]
            if inst["kind"] == "ff":
                v = rng.randint(0, (1 << inst["w"]) - 1)
            elif inst["kind"] == "pulse":
                v = int(rng.random() < 0.6)
            else:
                v = 1 - level[k] if rng.random() < 0.7 else level[k]
                level[k] = v
            evs.append(["s", k, v])
        else:
            hit = sorted(set(rng.choices(range(nd), weights=rate, k=1 if rng.random() < 0.8 else rng.randint(2, nd + 1))))
            evs.append(["c", hit])
    return evs


def name_domains(rng, insts, prefix="c"):
    """gives every instance its output (and input) domain: a ResetSynchronizer owns the domain it
    resets, the other primitives share or do not share theirs.  returns the list of domain names"""
    names, shared = [], []
    for inst in insts:
        def fresh():
            names.append(f"{prefix}{len(names)}")
            return names[-1]
        if inst["kind"] == "reset":
            inst["o_name"] = fresh()
            continue
        if shared and rng.random() < 0.3:
            inst["o_name"] = rng.choice(shared)
        else:
            inst["o_name"] = fresh()
            shared.append(inst["o_name"])
        if inst["kind"] == "pulse":
            if rng.random() < 0.5 and [s for s in shared if s != inst["o_name"]]:
                inst["i_name"] = rng.choice([s for s in shared if s != inst["o_name"]])
            else:
                inst["i_name"] = fresh()
                shared.append(inst["i_name"])
    return names


def domain_props(rng, insts, names):
    """how a run's top level declares the domains: the clock edge and reset kind of each (the
    falling edge only where no AsyncFFSynchronizer / ResetSynchronizer needs a rising one)"""
    pos_only = set()
    for inst in insts:
        if inst["kind"] in ("async", "reset"):
            pos_only.add(eff_domains(inst)[1])
    return [{"name": nm, "neg": nm not in pos_only and rng.random() < 0.3, "async": rng.random() < 0.5} for nm in names]


def resettable_domains(insts, names):
    """indices of the domains whose reset the schedule may drive: only FFSynchronizer outputs (whose
    model has the reset) and AsyncFFSynchronizer outputs (which use the domain's clock alone) live there"""
    ok = set(range(len(names)))
    for inst in insts:
        di, do = eff_domains(inst)
        if inst["kind"] == "reset":
            ok.discard(names.index(do))
        if inst["kind"] == "pulse":
            ok.discard(names.index(do))
            ok.discard(names.index(di))
    return sorted(ok)


def gen_multi(rng):
    """two or three AsyncFFSynchronizer / ResetSynchronizer instances (each with its private
    "async_ff" domain) in one design, with different inputs, output clocks and stage counts;
    sometimes an FFSynchronizer or a PulseSynchronizer next to them"""
    kinds = [rng.choice(["async", "reset"]) for _ in range(rng.choice([2, 2, 3]))]
    if rng.random() < 0.35:
        kinds.append(rng.choice(["ff", "pulse"]))
    rng.shuffle(kinds)
    insts = [rand_inst(rng, k) for k in kinds]
    if rng.random() < 0.6:                                   # different stage counts side by side
        for j, inst in enumerate(insts):
            inst["n"] = 2 + (j + rng.randint(0, 1)) % 3
    names = name_domains(rng, insts)
    doms = domain_props(rng, insts, names)
    evs = rand_design_events(rng, insts, doms, rng.randint(20, 70), resettable_domains(insts, names))
    return {"stream": "multi", "insts": insts, "reuse": False, "runs": [{"domains": doms, "evs": evs}]}


RENAMES = {
    # name: (kinds, o_name, i_name, omit_dom, maps)    PulseSynchronizer is built as ("w", "r")
    "none": (("ff", "async", "reset", "pulse"), "r", "w", False, []),
    "empty map": (("ff", "async", "reset", "pulse"), "r", "w", False, [{}]),
    "unrelated name": (("ff", "async", "reset", "pulse"), "r", "w", False, [{"zz": "q", "sync": "r2"}]),
    "distinct targets": (("ff", "async", "reset", "pulse"), "r", "w", False, [{"w": "a", "r": "b"}]),
    "output only": (("ff", "async", "reset", "pulse"), "r", "w", False, [{"r": "b"}]),
    "input only": (("pulse",), "r", "w", False, [{"w": "a"}]),
    "default sync renamed by a str": (("ff", "async", "reset"), "sync", None, True, ["pix"]),
    "sync renamed by a str": (("pulse",), "sync", "w", False, ["pix"]),
    "swap": (("pulse",), "r", "w", False, [{"w": "r", "r": "w"}]),
    "chain": (("ff", "async", "reset", "pulse"), "r", "w", False, [{"r": "t", "w": "u"}, {"t": "v"}]),
    "chain swap": (("pulse",), "r", "w", False, [{"w": "a", "r": "b"}, {"a": "b", "b": "a"}]),
    "merge both into a third": (("pulse",), "r", "w", False, [{"w": "sys", "r": "sys"}]),
    "merge both into sync": (("pulse",), "r", "w", False, [{"w": "sync", "r": "sync"}]),
    "merge input into output": (("pulse",), "r", "w", False, [{"w": "r"}]),
    "merge output into input": (("pulse",), "r", "w", False, [{"r": "w"}]),
    "merge by chain": (("pulse",), "r", "w", False, [{"w": "a"}, {"r": "a"}]),
    "merge output into sync input": (("pulse",), "r", "sync", False, ["r"]),
}


def gen_renamed(rng, which=None, kind=None):
    """one primitive (sometimes with a second, un-renamed one next to it) under DomainRenamer"""
    if which is None:
        which = rng.choice(sorted(RENAMES))
    kinds, o_name, i_name, omit_dom, maps = RENAMES[which]
    kind = kind or rng.choice(kinds)
    inst = rand_inst(rng, kind)
    inst.update(o_name=o_name, omit_dom=omit_dom, rename=[dict(m) if isinstance(m, dict) else m for m in maps])
    if kind == "pulse":
        inst["i_name"] = i_name
    insts = [inst]
    names = sorted({d for d in eff_domains(inst) if d is not None})
    if rng.random() < 0.25:                                  # a bystander in domains of its own
        other = rand_inst(rng, rng.choice(["ff", "async", "pulse"]))
        extra = name_domains(rng, [other], prefix="x")
        insts.append(other)
        names += extra
    doms = domain_props(rng, insts, names)
    evs = rand_design_events(rng, insts, doms, rng.randint(20, 60), resettable_domains(insts, names))
    if kind == "pulse" and rng.random() < 0.7:               # flush, so that the pulse counts can be compared
        di, do = eff_domains(inst)
        evs += [["s", 0, 0]] + [["c", [names.index(do)]]] * (inst["n"] + 2)
    return {"stream": "renamed", "rename": which, "insts": insts, "reuse": False, "runs": [{"domains": doms, "evs": evs}]}


def gen_reuse(rng):
    """one or two primitives elaborated once; the Fragment objects are used in two or three
    successive designs whose top level declares the domains anew (other clock edge / reset kind)"""
    kinds = [rng.choice(["ff", "ff", "async", "reset", "pulse", "pulse"])]
    if rng.random() < 0.3:
        kinds.append(rng.choice(["ff", "async", "reset", "pulse"]))
    insts = [rand_inst(rng, k) for k in kinds]
    names = name_domains(rng, insts, prefix="p")
    if rng.random() < 0.25 and len(insts) == 1:
        which = rng.choice([w for w in sorted(RENAMES) if insts[0]["kind"] in RENAMES[w][0] and not RENAMES[w][3]])
        _k, o_name, i_name, _om, maps = RENAMES[which]
        insts[0].update(o_name=o_name, rename=[dict(m) if isinstance(m, dict) else m for m in maps])
        if insts[0]["kind"] == "pulse":
            insts[0]["i_name"] = i_name
        names = sorted({d for d in eff_domains(insts[0]) if d is not None})
    runs = []
    for _ in range(rng.choice([2, 3, 3])):
        doms = domain_props(rng, insts, names)
        evs = rand_design_events(rng, insts, doms, rng.randint(15, 45), resettable_domains(insts, names))
        for k, inst in enumerate(insts):
            if inst["kind"] == "pulse":
                evs += [["s", k, 0]] + [["c", [names.index(eff_domains(inst)[1])]]] * (inst["n"] + 2)
        runs.append({"domains": doms, "evs": evs})
    return {"stream": "reuse", "insts": insts, "reuse": True, "runs": runs}


def reachable_many(chk, graphs, limit=5000):
    """breadth-first enumeration of the reachable states of several model instances at once (one
    driver call per BFS level for all of them).  graphs: list of (base case, alphabet).
    returns per graph (number of states, list of (path + [event]) transitions, complete?)"""
    def states_of(items):
        resps = chk.driver.ask([request(dict(graphs[g][0], evs=p)) for g, p in items])
        out = []
        for (g, p), r in zip(items, resps):
            st = common.kv(r).get("state")
            if st is None:
                raise common.Infra("driver gave no state for " + request(dict(graphs[g][0], evs=p)))
            out.append(st)
        return out
    seen = [set() for _ in graphs]
    trans = [[] for _ in graphs]
    complete = [True] * len(graphs)
    for g, st in enumerate(states_of([(g, []) for g in range(len(graphs))])):
        seen[g].add(st)
    frontier = [(g, []) for g in range(len(graphs))]
    while frontier:
        cand = [(g, p + [e]) for g, p in frontier for e in graphs[g][1]]
        frontier = []
        for (g, p), st in zip(cand, states_of(cand)):
            trans[g].append(p)
            if st not in seen[g]:
                if len(seen[g]) >= limit:
                    complete[g] = False
                    continue
                seen[g].add(st)
                frontier.append((g, p))
    return [(len(seen[g]), trans[g], complete[g]) for g in range(len(graphs))]


def exhaustive_cases(chk, quick):
    graphs, meta = [], []
    # FFSynchronizer: (stages, width)
    ff_cfg = [(2, 0), (2, 1), (3, 1), (2, 2), (4, 1)] + ([] if quick else [(3, 2), (5, 1), (2, 3)])
    for n, w in ff_cfg:
        for init in sorted({0, (1 << w) - 1}):
            if quick and w >= 2 and init == 0:
                continue        # quick tier: init 0 on the big graph is covered by the default-form variant below
            base = {"kind": "ff", "n": n, "w": w, "signed": False, "init": init, "i0": 0}
            other = 0 if w == 0 else 1
            graphs.append((base, ["o", "b", "i"] + list(range(1 << w))))
            meta.append(({"primitive": "FFSynchronizer", "stages": n, "width": w, "init": init},
                         [["o"] * n, [other] + ["b"] * n]))
        # every argument that has a default left out, on an input whose own power-on value is all-ones
        base = {"kind": "ff", "n": n, "w": w, "signed": False, "init": 0, "i0": (1 << w) - 1,
                "omit": ["init", "o_domain", "reset_less"] + (["stages"] if n == 2 else []),
                "iform": "signal" if n % 2 == 0 else "not"}
        graphs.append((base, ["o", "b", "i"] + list(range(1 << w))))
        meta.append(({"primitive": "FFSynchronizer", "stages": n, "width": w, "init": "omitted", "i0": (1 << w) - 1},
                     [["o"] * n, [0] + ["b"] * n]))
    # input and output of different shapes: signed(1) -> signed(2) with a negative init,
    # signed(1) -> unsigned(3) through three stages (thorough: 2-bit inputs, widening and narrowing)
    shape_cfg = [(2, 1, True, 2, True, -1), (3, 1, True, 3, False, 0)]
    if not quick:
        shape_cfg += [(2, 2, True, 4, False, 0), (2, 2, True, 4, True, -2), (2, 2, False, 1, True, 3), (2, 2, True, 1, False, -1)]
    for n, w, sg, wo, osg, init in shape_cfg:
        base = {"kind": "ff", "n": n, "w": w, "signed": sg, "wo": wo, "osigned": osg, "init": init, "i0": 0}
        graphs.append((base, ["o", "b", "i"] + list(range(1 << w))))
        meta.append(({"primitive": "FFSynchronizer", "stages": n, "width": w, "input_signed": sg, "output_width": wo,
                      "output_signed": osg, "init": init},
                     [["o"] * n, [(1 << w) - 1] + ["b"] * n]))
    # the reset of the output domain is part of the alphabet: reset-less / resettable stages x
    # synchronous / asynchronous reset, on a falling-edge domain for one of them
    for rl, adom, init, neg in [(True, True, 0, False), (True, False, 1, True), (False, True, 1, False), (False, False, 0, False)]:
        base = {"kind": "ff", "n": 2, "w": 1, "signed": False, "init": init, "i0": 0, "reset_less": rl,
                "async_dom": adom, "neg_dom": neg}
        graphs.append((base, ["o", "b", "i", 0, 1, "R", "r"]))
        meta.append(({"primitive": "FFSynchronizer", "stages": 2, "width": 1, "init": init, "reset_less": rl,
                      "o_domain_async_reset": adom, "o_domain_clk_edge": "neg" if neg else "pos",
                      "alphabet": "clock edges, input values, reset raised / released"},
                     [["o"] * 2, ["r", 1 - init] + ["b"] * 2]))
    for n in (2, 3, 4, 5):
        for kind, pos, adom in [("async", True, False), ("async", False, False), ("reset", True, False), ("reset", True, True)]:
            for i0 in (0, 1):
                base = {"kind": kind, "n": n, "pos": pos, "i0": i0, "async_dom": adom}
                rel = 0 if pos else 1
                graphs.append((base, ["o", "b", "i", 0, 1]))
                meta.append(({"primitive": "ResetSynchronizer" if kind == "reset" else "AsyncFFSynchronizer",
                              "stages": n, "async_edge": "pos" if pos else "neg", "i0": i0,
                              "async_reset_target": adom},
                             [["o"] * (n + 1), [rel] + ["o"] * (n + 1)]))
    for kind, iform in [("async", "signal"), ("async", "not"), ("reset", "signal"), ("reset", "not")]:
        for i0 in (0, 1):
            base = {"kind": kind, "n": 2, "pos": True, "i0": i0, "iform": iform,
                    "omit": ["stages", "domain"] if kind == "reset" else ["stages", "async_edge", "o_domain"]}
            graphs.append((base, ["o", "b", "i", 0, 1]))
            meta.append(({"primitive": "ResetSynchronizer" if kind == "reset" else "AsyncFFSynchronizer",
                          "stages": "omitted", "async_edge": "omitted", "domain": "omitted", "i0": i0, "input": iform},
                         [["o"] * 3, [0] + ["o"] * 3]))
    graphs.append(({"kind": "pulse", "n": 2, "omit": ["stages"]}, ["i", "o", "b", 0, 1]))
    meta.append(({"primitive": "PulseSynchronizer", "stages": "omitted"}, [["o"] * 4, ["i"] + ["o"] * 4]))
    for n in ([2, 3] if quick else [2, 3, 4, 5]):
        graphs.append(({"kind": "pulse", "n": n}, ["i", "o", "b", 0, 1]))
        meta.append(({"primitive": "PulseSynchronizer", "stages": n},
                     [["o"] * (n + 2), ["i"] + ["o"] * (n + 2)]))
    cases, info = [], []
    for (base, _alpha), (desc, suffixes), (nstates, trans, comp) in zip(graphs, meta, reachable_many(chk, graphs)):
        for t in trans:
            for suf in suffixes:
                cases.append(dict(base, evs=t + suf, stream="exhaustive"))
        info.append(dict(desc, states=nstates, transitions=len(trans), complete=comp))
    return cases, info


# ------------------------------------------------------------------------------------------------
# comparison

def compare(chk, case, impl, resp, where=""):
    """returns True when the case agrees everywhere.  `where`: context put in front of the summaries
    (the design an instance is part of); the comparison itself does not depend on it"""
    kind = case["kind"]
    d = common.kv(resp)
    if "model" not in d:
        raise common.Infra(f"driver: {resp!r} for {request(case)}")
    model, spec = ints(d["model"]), ints(d["spec"])
    replay = {k: v for k, v in case.items()}
    replay["request"] = request(case)
    if isinstance(impl, tuple):
        chk.violation(f"{where}{kind}: the real primitive raised {impl[1]} on a valid configuration: {impl[2]}",
                      dict(replay, impl=list(impl)))
        return False
    if len(impl) != len(model):
        raise common.Infra("length mismatch between simulation and driver")
    applicable = [True] * len(impl)
    if kind == "pulse":
        applicable = [x == 1 for x in ints(d["spaced"])]
    cfg = ""
    if kind == "ff":
        cfg = (f" {'signed' if case['signed'] else 'unsigned'}({case['w']}) -> "
               f"{'signed' if case.get('osigned', case['signed']) else 'unsigned'}({case.get('wo', case['w'])}) init={case['init']} "
               f"reset_less={case.get('reset_less', True)} o_domain(async_reset={bool(case.get('async_dom'))}, "
               f"clk_edge={'neg' if case.get('neg_dom') else 'pos'})")
    # the property itself, on this input
    for j, (a, s, ok) in enumerate(zip(impl, spec, applicable)):
        if ok and a != s:
            chk.violation(
                f"{where}{kind} stages={case['n']}{cfg}: output {a} after event #{j} ({'start' if j == 0 else case['evs'][j - 1]}), "
                f"the contract says {s}",
                dict(replay, impl=impl, model=model, spec=spec, first_difference=j))
            return False
    if kind == "pulse" and applicable[-1] and int(d["idle"]) >= case["n"]:
        evs = case["evs"]
        high = sum(1 for j, e in enumerate(evs) if e in ("o", "b") and impl[j + 1])
        if high != int(d["pulses"]):
            chk.violation(
                f"{where}pulse stages={case['n']}: {int(d['pulses'])} input pulses, {high} high output cycles",
                dict(replay, impl=impl, model=model, spec=spec))
            return False
        chk.hist("pulse_counts_compared", min(int(d["pulses"]), 10))
    # the tie
    if impl != model:
        j = next(j for j in range(len(impl)) if impl[j] != model[j])
        chk.not_shown(f"{where}{kind}: real primitive and model part ways (contract not contradicted)",
                      dict(replay, impl=impl, model=model, spec=spec, first_difference=j))
        return False
    return True


CTOR_STAGES = [0, 1, -1, -7, 2, 3, 5, 64, "2", 2.0, 2.5, None, True, False, (2,), 10 ** 20]


def stage_atom(st):
    if isinstance(st, bool):
        return str(int(st))
    if isinstance(st, int):
        return str(st)
    return "none"


def malformed(chk):
    from amaranth.hdl import Signal
    from amaranth.lib import cdc
    trials = []
    for st in CTOR_STAGES:
        trials.append(("FFSynchronizer", st, lambda st=st: cdc.FFSynchronizer(Signal(3), Signal(3), stages=st),
                       f"(ctor stages {stage_atom(st)})"))
        trials.append(("ResetSynchronizer", st, lambda st=st: cdc.ResetSynchronizer(Signal(), stages=st),
                       f"(ctor stages {stage_atom(st)})"))
        trials.append(("PulseSynchronizer", st, lambda st=st: cdc.PulseSynchronizer("i", "o", stages=st),
                       f"(ctor stages {stage_atom(st)})"))
    for st in [2, 3, 1, 0, "2", None]:
        for wi in (0, 1, 2):
            for wo in (0, 1, 3):
                for edge in ("pos", "neg", "both", "POS", None, 1):
                    trials.append(("AsyncFFSynchronizer", (st, wi, wo, edge),
                                   lambda st=st, wi=wi, wo=wo, edge=edge: cdc.AsyncFFSynchronizer(
                                       Signal(wi), Signal(wo), stages=st, async_edge=edge),
                                   f"(ctor async {stage_atom(st)} {wi} {wo} {1 if edge in ('pos', 'neg') else 0})"))
    resps = chk.driver.ask([t[3] for t in trials])
    for (name, arg, mk, req), resp in zip(trials, resps):
        try:
            mk()
            impl = "ok"
        except Exception as e:                       # noqa: BLE001
            impl = common.errkind(e)
        d = common.kv(resp)
        chk.count()
        chk.hist("ctor_outcome", f"{name}:{impl}")
        chk.distinct(("ctor", name, repr(arg)), nontrivial=impl != "ok")
        if impl != d.get("spec"):
            chk.violation(f"{name}({arg!r}) gives {impl}, the contract says {d.get('spec')}",
                          {"constructor": name, "args": repr(arg), "impl": impl, "request": req, "response": resp})
        elif impl != d.get("model"):
            chk.not_shown(f"{name}({arg!r}): constructor model differs", {"impl": impl, "response": resp})
    return len(trials)


def elaboration(chk):
    """every primitive in an output domain of either `clk_edge`, elaborated for the simulator and for
    RTLIL; the outcome (ok / error kind) is compared with the model's `RequirePosedge` bookkeeping
    (`Model.elaborate`) and with the contract (`Spec.elabContract`)."""
    from amaranth.hdl import Module, Signal, ClockDomain
    from amaranth.sim import Simulator
    from amaranth.back import rtlil
    from amaranth.lib import cdc

    def build(prim, edge, clk_edge, od, stages, adom):
        m = Module()
        m.domains.i = ClockDomain("i")
        m.domains += ClockDomain(od, clk_edge=clk_edge, async_reset=adom)
        heartbeat, keep = Signal(), Signal()
        m.d.i += heartbeat.eq(~heartbeat)
        m.d[od] += keep.eq(~keep)
        dom = {} if od == "sync" else {"o_domain": od}
        if prim == "ff":
            m.submodules.dut = cdc.FFSynchronizer(Signal(3), Signal(3), stages=stages, **dom)
        elif prim == "async":
            m.submodules.dut = cdc.AsyncFFSynchronizer(Signal(), Signal(), stages=stages,
                                                       **({} if edge is None else {"async_edge": edge}), **dom)
        elif prim == "reset":
            m.submodules.dut = cdc.ResetSynchronizer(Signal(), stages=stages, **({} if od == "sync" else {"domain": od}))
        else:
            m.submodules.dut = cdc.PulseSynchronizer("i", od, stages=stages)
        return m

    trials = []
    for prim in ("ff", "async", "reset", "pulse"):
        for edge in (("pos", "neg", None) if prim == "async" else ("n/a",)):
            for clk_edge in ("pos", "neg"):
                for od in ("o", "sync"):
                    for stages in (2, 3):
                        for adom in ((False, True) if prim in ("reset", "ff") else (False,)):
                            for route in ("simulator", "rtlil"):
                                trials.append((prim, edge, clk_edge, od, stages, adom, route))
    reqs = [f"(elab {prim} {0 if edge == 'neg' else 1} {1 if clk_edge == 'neg' else 0})"
            for prim, edge, clk_edge, _od, _st, _ad, _route in trials]
    names = {"ff": "FFSynchronizer", "async": "AsyncFFSynchronizer", "reset": "ResetSynchronizer", "pulse": "PulseSynchronizer"}
    for t, req, resp in zip(trials, reqs, chk.driver.ask(reqs)):
        prim, edge, clk_edge, od, stages, adom, route = t
        try:
            m = build(prim, edge, clk_edge, od, stages, adom)
            if route == "simulator":
                Simulator(m)
            else:
                rtlil.convert(m, ports=[])
            impl = "ok"
        except Exception as e:                       # noqa: BLE001
            impl = common.errkind(e)
        d = common.kv(resp)
        want = {k: ("ok" if d.get(k) == "ok" else "other:" + str(d.get(k))) for k in ("model", "spec")}
        chk.count()
        edge_txt = "" if prim != "async" else f" async_edge={'omitted' if edge is None else edge}"
        chk.hist("elaboration_outcome", f"{names[prim]}{edge_txt} in clk_edge={clk_edge} domain: {impl}")
        chk.distinct(("elab",) + t, nontrivial=impl != "ok")
        replay = {"primitive": names[prim], "async_edge": edge, "o_domain": od, "o_domain_clk_edge": clk_edge,
                  "o_domain_async_reset": adom, "stages": stages, "elaborated_for": route, "impl": impl,
                  "request": req, "response": resp}
        if impl != want["spec"]:
            chk.violation(f"{names[prim]}{edge_txt} in a clk_edge={clk_edge!r} output domain: elaboration for "
                          f"{route} gives {impl}, the contract says {want['spec']}", replay)
        elif impl != want["model"]:
            chk.not_shown(f"{names[prim]} elaboration: model differs", replay)
    return len(trials)


PRIM_NAMES = {"ff": "FFSynchronizer", "async": "AsyncFFSynchronizer", "reset": "ResetSynchronizer",
              "pulse": "PulseSynchronizer"}


def designs(chk, rng, quick, workers):
    """the three design streams (see `simulate_session`); returns their sizes"""
    n_multi = int(os.environ.get("VERIF_C17_MULTI", "160" if quick else "4000"))
    n_ren = int(os.environ.get("VERIF_C17_RENAMED", "220" if quick else "4000"))
    n_reuse = int(os.environ.get("VERIF_C17_REUSE", "120" if quick else "2500"))
    sessions = [gen_multi(rng) for _ in range(n_multi)]
    ren = [gen_renamed(rng, which, kind) for which in sorted(RENAMES) for kind in RENAMES[which][0] for _ in range(2)]
    while len(ren) < n_ren:
        ren.append(gen_renamed(rng))
    sessions += ren
    sessions += [gen_reuse(rng) for _ in range(n_reuse)]
    results = simulate_sessions(sessions, workers)
    items = []
    for sess, res in zip(sessions, results):
        chk.hist("design_stream", sess["stream"])
        chk.hist("design_primitives", f"{sess['stream']}: " + " + ".join(sorted(PRIM_NAMES[i["kind"]] for i in sess["insts"])))
        priv = [i for i in sess["insts"] if i["kind"] in ("async", "reset")]
        if sess["stream"] == "multi":
            chk.hist("multi_private_async_ff_domains_in_one_design", len(priv))
            chk.hist("multi_distinct_output_clocks_of_async_ff_instances", len({eff_domains(i)[1] for i in priv}))
            chk.hist("multi_distinct_stage_counts_of_async_ff_instances", len({i["n"] for i in priv}))
            chk.hist("multi_instances_below_wrapper_modules", sum(1 for i in sess["insts"] if i["nest"]))
        if sess["stream"] == "renamed":
            inst = sess["insts"][0]
            chk.hist("renamed_map", f"{PRIM_NAMES[inst['kind']]}: {sess['rename']}")
            if inst["kind"] == "pulse":
                di, do = eff_domains(inst)
                chk.hist("renamed_pulse_domains", "both domains end on one clock" if di == do else "two clocks")
        if sess["stream"] == "reuse":
            chk.hist("reuse_designs_per_fragment", len(sess["runs"]))
            chk.hist("reuse_fragment_under_renamer", any(i["rename"] for i in sess["insts"]))
        for r, (run, outs) in enumerate(zip(sess["runs"], res)):
            if sess["stream"] == "reuse" and r > 0:
                prev = {d["name"]: d for d in sess["runs"][r - 1]["domains"]}
                ch = sorted({w for d in run["domains"] for w, key in (("clk_edge", "neg"), ("reset kind", "async"))
                             if d[key] != prev[d["name"]][key]})
                chk.hist("reuse_domains_redeclared_with", " and ".join(ch) + " changed" if ch else "the same clk_edge and reset kind")
            for k, inst in enumerate(sess["insts"]):
                case, idx = inst_case(inst, run, k)
                case["stream"] = sess["stream"]
                items.append((sess, r, k, case, idx, outs))
    resps = chk.driver.ask([request(it[3]) for it in items])
    for (sess, r, k, case, idx, outs), resp in zip(items, resps):
        run, inst = sess["runs"][r], sess["insts"][k]
        chk.count()
        name = PRIM_NAMES[inst["kind"]]
        di, do = eff_domains(inst)
        where = {"multi": f"instance #{k} of {len(sess['insts'])} in one design ({do!r}): ",
                 "renamed": f"under DomainRenamer {inst['rename']!r} (-> {'/'.join(x for x in (di, do) if x)}): ",
                 "reuse": f"use #{r + 1} of one Fragment: "}[sess["stream"]]
        case["design"] = {"stream": sess["stream"], "instances": sess["insts"], "fragment_reused": sess["reuse"],
                          "use": r + 1, "instance": k, "domains": run["domains"], "design_events": run["evs"],
                          "projection": idx, "earlier_uses": sess["runs"][:r]}
        if isinstance(outs, tuple):
            compare(chk, case, outs, resp, where)
            continue
        full = outs[k]
        nontrivial = len(set(full)) > 1
        chk.distinct((sess["stream"], r, k, repr(sess["insts"]), repr(sess["runs"][:r + 1])), nontrivial)
        chk.hist("design_instance_output", f"{sess['stream']}: {name}: " + ("changes" if nontrivial else "constant"))
        chk.hist("primitive", name)
        chk.hist("stream", sess["stream"])
        chk.hist("stages", inst["n"])
        if sess["stream"] == "reuse":
            chk.hist("reuse_use_number", f"{name}: use #{r + 1}" + (" changes" if nontrivial else " constant"))
        part = set(idx)
        stray = next((j for j in range(len(run["evs"])) if j not in part and full[j + 1] != full[j]), None)
        if stray is not None:
            chk.violation(
                f"{where}{name} stages={inst['n']}: output goes {full[stray]} -> {full[stray + 1]} at design event #{stray + 1} "
                f"{run['evs'][stray]}, which is neither an edge of its clock(s) nor a change of its input",
                dict(case, request=request(case), impl_all_events=full, first_difference=stray + 1))
            continue
        ok = compare(chk, case, [full[0]] + [full[j + 1] for j in idx], resp, where)
        if ok and nontrivial:
            chk.sample({"design": sess["stream"], "instance": {kk: v for kk, v in inst.items()}, "domains": run["domains"],
                        "events": run["evs"][:30], "outputs": full[:31]}, limit=9)
    return {"multi": n_multi, "renamed": len(ren), "reuse": n_reuse, "instance_runs": len(items)}


# ------------------------------------------------------------------------------------------------

def run(chk):
    if not chk.lean():
        chk.not_shown("Lean build of Properties/C17 failed", chk.build_log[-3000:])
        return
    rng = chk.rng
    quick = chk.tier == "quick"
    workers = int(os.environ.get("VERIF_WORKERS", "16"))
    n_rand = int(os.environ.get("VERIF_C17_RANDOM", "1200" if quick else "40000"))

    cases, info = exhaustive_cases(chk, quick)
    n_exh = len(cases)
    for k in range(n_rand):
        gen = (rand_ff, rand_async, rand_pulse)[k % 3]
        c = gen(rng)
        c["stream"] = "random"
        cases.append(c)

    resps = chk.driver.ask([request(c) for c in cases])
    impls = simulate_many(cases, workers)
    bad = 0
    for c, impl, resp in zip(cases, impls, resps):
        chk.count()
        ok = compare(chk, c, impl, resp)
        bad += 0 if ok else 1
        evs = c["evs"]
        outs = impl if isinstance(impl, list) else []
        nontrivial = len(set(outs)) > 1
        name = {"ff": "FFSynchronizer", "async": "AsyncFFSynchronizer", "reset": "ResetSynchronizer",
                "pulse": "PulseSynchronizer"}[c["kind"]]
        chk.distinct((c["kind"], c["n"], c.get("w"), c.get("init"), c.get("pos"), c.get("i0"),
                      tuple(sorted(c.get("omit", ()))), c.get("iform"), tuple(evs),
                      c.get("signed"), c.get("wo"), c.get("osigned"), c.get("reset_less"), c.get("async_dom"),
                      c.get("neg_dom")), nontrivial)
        if c["kind"] in ("ff", "pulse"):
            chk.hist("o_domain_clk_edge", f"{name}: {'neg' if c.get('neg_dom') else 'pos'}")
        if c["kind"] == "ff":
            w, wo = c["w"], c.get("wo", c["w"])
            chk.hist("ff_input_to_output_shape",
                     f"{'signed' if c['signed'] else 'unsigned'} -> {'signed' if c.get('osigned', c['signed']) else 'unsigned'}, "
                     f"output {'narrower' if wo < w else 'wider' if wo > w else 'same width'}")
            if c["signed"] and wo > w:
                # an output pattern with bits above the input's width can only come from a negative value
                init_neg = w >= 1 and ((c["init"] >> (w - 1)) & 1) == 1
                later = [o for j, o in enumerate(outs) if j > 0 and sum(1 for e in evs[:j] if e in ("o", "b")) >= c["n"]]
                chk.hist("ff_signed_input_wider_output",
                         ("negative init shown, " if init_neg and outs and outs[0] >> w else "init not negative, ")
                         + ("negative value delivered" if any(o >> w for o in later if not init_neg or o != outs[0])
                            else "no negative value delivered"))
            d = common.kv(resp)
            dirty, rst, hit = ints(d.get("dirty", "")), False, None
            for j, e in enumerate(evs):
                if e == "R" and not rst:
                    hit = "in flight" if (dirty[j] or hit == "in flight") else (hit or "at init")
                rst = True if e == "R" else False if e == "r" else rst
            chk.hist("ff_o_domain_reset",
                     f"reset_less={c.get('reset_less', True)} async_reset={bool(c.get('async_dom'))}: "
                     + ("reset never raised" if hit is None else
                        "reset raised while the stages hold data" if hit == "in flight" else
                        "reset raised only with the stages at init"))
        for o in c.get("omit", ()):
            chk.hist("argument_left_to_default", f"{name}.{o}")
        if not c.get("omit"):
            chk.hist("argument_left_to_default", f"{name}: none")
        if c["kind"] != "pulse":
            chk.hist("input_written_as", c.get("iform", "signal"))
        if c["kind"] == "ff":
            chk.hist("ff_init_vs_input_power_on", ("init omitted, " if "init" in c.get("omit", ()) else "init given, ")
                     + ("input starts non-zero" if c["i0"] & ((1 << c["w"]) - 1) else "input starts 0"))
        name = {"ff": "FFSynchronizer", "async": "AsyncFFSynchronizer", "reset": "ResetSynchronizer",
                "pulse": "PulseSynchronizer"}[c["kind"]]
        chk.hist("primitive", name)
        chk.hist("stream", c["stream"])
        chk.hist("stages", c["n"])
        if c["stream"] == "random":
            chk.hist("schedule_length", (len(evs) // 10) * 10)
            chk.hist("coincident_edges", min(evs.count("b"), 10))
            if c["kind"] == "ff":
                chk.hist("width", c["w"])
                chk.hist("ff_signed", c["signed"])
            if c["kind"] in ("async", "reset"):
                chk.hist("async_edge", "pos" if c["pos"] else "neg")
            if c["kind"] == "pulse":
                d = common.kv(resp)
                chk.hist("pulse_mode", c["mode"])
                chk.hist("pulse_spaced_to_the_end", d["spaced"].endswith("1"))
                chk.hist("pulse_input_pulses", min(int(d["pulses"]), 12))
            if nontrivial and isinstance(impl, list):
                chk.sample({"case": {k: v for k, v in c.items() if k != "evs"}, "events": evs[:40], "outputs": outs[:41]})
    n_des = designs(chk, rng, quick, workers)
    n_ctor = malformed(chk)
    n_elab = elaboration(chk)

    try:
        f4 = f4_in_driven_domain()
    except Exception as e:                              # noqa: BLE001
        f4 = {"error": common.errkind(e)}
    chk.extra["exhaustive"] = {
        "what": "every (reachable model state, event) transition, each followed by two distinguishing suffixes",
        "cases": n_exh, "graphs": info,
    }
    chk.extra["F4_note"] = {
        "at_primitive_outputs": "not observable, before or after the F4 repair: all flops of the private async_ff "
                                "domain are resettable (init=1), so whatever the simulator runs on a reset rise "
                                "ends in the reset values; ResetSynchronizer into an async_reset=True domain is "
                                "part of both streams",
        "in_a_user_domain_driven_by_ResetSynchronizer": f4,
    }
    chk.extra["design_streams"] = dict(n_des, what=(
        "multi: 2-3 AsyncFFSynchronizer/ResetSynchronizer (+ sometimes FFSynchronizer/PulseSynchronizer) in ONE simulated "
        "design; renamed: a primitive under DomainRenamer (every map of RENAMES x applicable primitive at least twice); "
        "reuse: Fragment.get(primitive) used in 2-3 successive designs with newly declared domains. Every instance is "
        "compared after every design event with its own model/contract run on the projection of the events"))
    chk.cov["rule"] = (
        f"{n_exh} exhaustive transition-cover schedules + {n_rand} random schedules (one third per primitive family) + "
        f"{n_des['multi']} multi-instance designs + {n_des['renamed']} designs under DomainRenamer + {n_des['reuse']} reused-Fragment "
        f"sessions ({n_des['instance_runs']} instance runs) + "
        f"{n_ctor} constructor calls + {n_elab} elaborations (primitive x async_edge x clk_edge / name / reset kind of "
        f"the output domain x stages x simulator|rtlil); a case is one (primitive, stages, width/init/edge, schedule); the output after "
        "every event is compared with model and contract; distinct = different configuration or schedule; "
        "non-trivial = the output changes during the schedule (constructor stream: the call is rejected)")
    chk.assumptions += [
        "hand-driven clocks: `ctx.set(clk, 1); ctx.set(clk, 0)` is one edge; both clocks in one `ctx.set` are coincident edges",
        "the input signal changes only between clock edges (a change coincident with an edge is a physical race and is not part of the schedules)",
        "the output domain's reset is driven for FFSynchronizer only, between clock edges (a reset change coincident with "
        "an edge is a race and not part of the schedules); the input domain's reset is never asserted; the reset of a "
        "domain driven by ResetSynchronizer is driven by it alone; platform overrides (get_ff_sync, get_async_ff_sync) are not exercised",
        "FFSynchronizer's output is read as a bit pattern of the output signal's width; the expected pattern is the value of "
        "the input converted by the driver (sign-extend a signed input, truncate), independent of the output's signedness",
        "falling-edge output domains: the hand-driven clock idles high, one event = one falling (active) edge",
        "pulse contract compared only on the prefixes of a schedule that satisfy the spacing hypothesis; on the others only the model is compared",
        "design streams: a ResetSynchronizer owns the domain it resets; the reset of a domain is driven by the schedule only "
        "where FFSynchronizer / AsyncFFSynchronizer outputs live; AsyncFFSynchronizer / ResetSynchronizer sit in rising-edge "
        "domains; DomainRenamer maps never name the private 'async_ff' domain; two PulseSynchronizer domains renamed onto one "
        "clock = every edge is a coincident edge of both",
    ]
