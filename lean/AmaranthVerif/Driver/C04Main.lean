import AmaranthVerif.Model.Sexp
import AmaranthVerif.Model.Rtlil.Parse
import AmaranthVerif.Model.Rtlil.WF
import AmaranthVerif.Model.Rtlil.Eval

/-! # Driver `amodel_c04` (unverified I/O glue around Model/Rtlil/{Parse,WF,Eval})

Request (one per line):
`(run "<rtlil text, \n-escaped>" (init (NAME VALUE) …) (events ((NAME VALUE) …) …) (obs NAME …))`
* `init`: values of the top-level input wires at time 0; `events`: each event sets some top-level
  input wires (clocks and resets included); `obs`: flattened wire names (`"\\sub \\x"` is wire `\x`
  of the instance reached through cell `\sub` of the top module).

Response (TAB separated):
* `parse=error line=<n> msg=<text>` | `wf=fail module=… clause=…` | `eval=error msg=<text>`
* `eval=ok trace=<row;row;…> xdep=<0|1> [trace1=<row;…>]` — one row per observation time (after the
  initial settle and after every event), values comma separated in the order of `obs`; `trace` resolves
  undefined values to zeros, `trace1` (only when it differs: `xdep=1`) to ones; `collide=<k>`: the first event in
  which write ports of different clocks write different data to the same bits (-1: never) — undefined from there on.
-/

open Amaranth Amaranth.Rtlil

def parsePair : Sexp → Option (String × Nat)
  | .list [.atom n, v] => do some (n, ← Sexp.toNat? v)
  | _ => none

def parsePairs (xs : List Sexp) : Option (List (String × Nat)) := xs.mapM parsePair

def parseEvent : Sexp → Option (List (String × Nat))
  | .list xs => parsePairs xs
  | _ => none

def atomS : Sexp → Option String
  | .atom s => some s
  | _ => none

def showRows (rows : List (List Nat)) : String :=
  ";".intercalate (rows.map (fun r => ",".intercalate (r.map toString)))

def tab (xs : List String) : String := "\t".intercalate xs
def clean (s : String) : String := String.ofList (s.toList.map (fun c => if c == '\t' || c == '\n' then ' ' else c))

def runOnce (f : Flat) (xres : Bool) (init : List (String × Nat)) (events : List (List (String × Nat))) (obs : List String)
    (shiftArith : Bool := false) : Except String (List (List Nat) × Option Nat) := do
  let s ← mkSim f xres shiftArith
  runTraceC s init events obs

def handleRun (text : String) (init : List (String × Nat)) (events : List (List (String × Nat))) (obs : List String)
    (shiftArith : Bool := false) : String :=
  match parse text with
  | .error (ln, msg) => tab ["parse=error", s!"line={ln}", s!"msg={msg}"]
  | .ok d =>
    match check d [] with
    | .error (mn, cl) => tab ["wf=fail", s!"module={mn}", s!"clause={cl.name}"]
    | .ok () =>
      match flatten d with
      | .error e => tab ["eval=error", s!"msg={clean e}"]
      | .ok f =>
        let missing := obs.filter (fun n => !(f.wires.any (·.1 == n)))
        if !missing.isEmpty then tab ["eval=error", s!"msg=no such wire: {clean (toString missing)}"]
        else
          match runOnce f false init events obs shiftArith with
          | .error e => tab ["eval=error", s!"msg={clean e}"]
          | .ok (t0, c0) =>
            match runOnce f true init events obs shiftArith with
            | .error e => tab ["eval=error", s!"msg={clean e}"]
            | .ok (t1, c1) =>
              -- the first event with a cross-clock write collision under either resolution (-1: none)
              let c := match c0, c1 with
                | some a, some b => toString (min a b)
                | some a, none => toString a
                | none, some b => toString b
                | none, none => "-1"
              if t0 == t1 then tab ["eval=ok", s!"trace={showRows t0}", "xdep=0", s!"collide={c}"]
              else tab ["eval=ok", s!"trace={showRows t0}", "xdep=1", s!"trace1={showRows t1}", s!"collide={c}"]

def handle (line : String) : String :=
  match Sexp.parse line with
  | some (.list [.atom "run", .atom text, .list (.atom "init" :: is), .list (.atom "events" :: es), .list (.atom "obs" :: os)]) =>
    match parsePairs is, es.mapM parseEvent, os.mapM atomS with
    | some init, some events, some obs => handleRun text init events obs
    | _, _, _ => "error=bad-arguments"
  -- the same with `$shift` of a signed operand read as an arithmetic shift: attribution of finding F27 only
  | some (.list [.atom "run27", .atom text, .list (.atom "init" :: is), .list (.atom "events" :: es), .list (.atom "obs" :: os)]) =>
    match parsePairs is, es.mapM parseEvent, os.mapM atomS with
    | some init, some events, some obs => handleRun text init events obs true
    | _, _, _ => "error=bad-arguments"
  | _ => "error=bad-request"

partial def loop (stdin : IO.FS.Stream) (stdout : IO.FS.Stream) : IO Unit := do
  let line ← stdin.getLine
  if line.isEmpty then return
  stdout.putStrLn (handle (String.ofList (line.toList.filter (· != '\n'))))
  loop stdin stdout

def main : IO Unit := do
  let stdin ← IO.getStdin
  let stdout ← IO.getStdout
  loop stdin stdout
  stdout.flush
