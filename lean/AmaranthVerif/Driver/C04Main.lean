import AmaranthVerif.Model.Sexp
import AmaranthVerif.Model.Rtlil.Parse
import AmaranthVerif.Model.Rtlil.WF
import AmaranthVerif.Model.Rtlil.Eval
import AmaranthVerif.Model.Rtlil.EmitExpr
import AmaranthVerif.Model.Rtlil.EmitCtx
import AmaranthVerif.Driver.ExprIO

/-! # Driver `amodel_c04` (unverified I/O glue around Model/Rtlil/{Parse,WF,Eval})

Request (one per line):
`(run "<rtlil text, \n-escaped>" (init (NAME VALUE) …) (events ((NAME VALUE) …) …) (obs NAME …))`
* `init`: values of the top-level input wires at time 0; `events`: each event sets some top-level
  input wires (clocks and resets included); `obs`: flattened wire names (`"\\sub \\x"` is wire `\x`
  of the instance reached through cell `\sub` of the top module).

Response (TAB separated):
* `parse=error line=<n> msg=<text>` | `wf=fail module=… clause=…` | `eval=error msg=<text>`
* `eval=ok trace=<row;row;…> xdep=<0|1> [trace1=<row;…>]` — one row per observation time (after the
  initial settle and after every event), values comma separated in the order of `obs`; `trace` resolves
  undefined values to zeros, `trace1` (only when it differs: `xdep=1`) to ones; `collide=<k>`: the first event in
  which write ports of different clocks write different data to the same bits (-1: never) — undefined from there on.

`(emit (ctx (w u|s)*) <expr> (env int*)*)` — the emitter model (`Model/Rtlil/EmitExpr.lean`) on an expression in the
syntax of `Driver/ExprIO.lean`: `emit=ok canon=<text> cells=<type:count,…> wf=<0|1> part=<0|1> ev=<v,…> rtl=<v,…>`.
`canon` is the emitted module body in a canonical form: generated names (`$k`) are renamed `w0, w1, …` in order of first
occurrence, then `wires name:width …`, one `cell <type> <param=value,…> <port=sigspec,…>` or `proc <body>` per emitted
node in emission order, and `result <sigspec>`; the harness prints the real `rtlil.convert` text in the same form.
`ev`: per environment, the value of the result sigspec after running the emitted nodes in emission order in the RTLIL
evaluator; `rtl`: the simulator model's value (`evalRtl`, masked to the width) — equal by `C04.emit_expr_correct`.
-/

open Amaranth Amaranth.Rtlil

def parsePair : Sexp → Option (String × Nat)
  | .list [.atom n, v] => do some (n, ← Sexp.toNat? v)
  | _ => none

def parsePairs (xs : List Sexp) : Option (List (String × Nat)) := xs.mapM parsePair

def parseEvent : Sexp → Option (List (String × Nat))
  | .list xs => parsePairs xs
  | _ => none

def atomS : Sexp → Option String
  | .atom s => some s
  | _ => none

def showRows (rows : List (List Nat)) : String :=
  ";".intercalate (rows.map (fun r => ",".intercalate (r.map toString)))

def tab (xs : List String) : String := "\t".intercalate xs
def clean (s : String) : String := String.ofList (s.toList.map (fun c => if c == '\t' || c == '\n' then ' ' else c))

/-! ## canonical form of an emitted module body -/

def bitChar : Bit → Char
  | .b0 => '0' | .b1 => '1' | .x => 'x' | .dc => '-'

def bitsStr (bs : List Bit) : String := s!"{bs.length}'" ++ String.ofList (bs.map bitChar)

def canonChunk (ren : String → String) : Chunk → String
  | .const bs => bitsStr bs
  | .wire n => ren n
  | .slice n hi lo => s!"{ren n}[{hi}:{lo}]"
  | .bit n i => s!"{ren n}[{i}]"

def canonSpec (ren : String → String) : SigSpec → String
  | .one c => canonChunk ren c
  | .cat cs => "{" ++ " ".intercalate (cs.map (canonChunk ren)) ++ "}"

mutual
def canonBody (ren : String → String) : Body → String
  | .done => ""
  | .assign l r rest => "assign " ++ canonSpec ren l ++ " " ++ canonSpec ren r ++ ";" ++ canonBody ren rest
  | .switch sel cs rest => "switch " ++ canonSpec ren sel ++ "[" ++ canonCases ren cs ++ "]" ++ canonBody ren rest
def canonCases (ren : String → String) : Cases → String
  | .nil => ""
  | .case pats b rest => "case " ++ ",".intercalate (pats.map bitsStr) ++ ":" ++ canonBody ren b ++ "|" ++ canonCases ren rest
end

def constStr : Const → String
  | .bits bs => bitsStr bs
  | .int n => toString n
  | .str s => s

def canonNode (ren : String → String) : Node → String
  | .cell c =>
    "cell " ++ c.type ++ " " ++ ",".intercalate (c.params.map (fun p => p.name ++ "=" ++ constStr p.value)) ++ " "
      ++ ",".intercalate (c.conns.map (fun pc => pc.1 ++ "=" ++ canonSpec ren pc.2))
  | .proc b => "proc " ++ canonBody ren b
  | .alias l r => "alias " ++ canonSpec ren l ++ " " ++ canonSpec ren r
  | .memrd .. => "memrd"

mutual
def bodyNames : Body → List String
  | .done => []
  | .assign l r rest => specWires l ++ specWires r ++ bodyNames rest
  | .switch sel cs rest => specWires sel ++ casesNames cs ++ bodyNames rest
def casesNames : Cases → List String
  | .nil => []
  | .case _ b rest => bodyNames b ++ casesNames rest
end

def nodeNames : Node → List String
  | .cell c => c.conns.flatMap (fun pc => specWires pc.2)
  | .proc b => bodyNames b
  | .alias l r => specWires l ++ specWires r
  | .memrd .. => []

def isGenerated (n : String) : Bool := match n.toList with | '$' :: _ => true | _ => false

def canonEmit (r : Res) : String :=
  -- a zero-width wire carries nothing: the real backend gives all zero-width cell outputs the wire of some zero-width
  -- signal (`emit_driven_wire`: the empty value *is* that signal's value); all of them are printed `_0`
  let zero (n : String) : Bool := (r.wires.find? (·.1 == n)).any (·.2 == 0)
  let names := ((r.nodes.flatMap nodeNames) ++ specWires (emitSpec r.val)).filter (fun n => isGenerated n && !zero n) |>.eraseDups
  let ren (n : String) : String := if zero n then "_0" else match names.idxOf? n with
    | some k => s!"w{k}"
    | none => n
  let wires := names.filterMap (fun n => (r.wires.find? (·.1 == n)).map (fun nw => s!"{ren n}:{nw.2}"))
  " ## ".intercalate (["wires " ++ " ".intercalate wires] ++ r.nodes.map (canonNode ren) ++ ["result " ++ canonSpec ren (emitSpec r.val)])

def cellHist (r : Res) : String :=
  let tys := r.nodes.map (fun n => match n with | .cell c => c.type | .proc _ => "process" | _ => "other")
  ",".intercalate (tys.eraseDups.map (fun t => s!"{t}:{tys.count t}"))

def handleEmit (ctx : Amaranth.Ctx) (e : Expr) (envs : List Amaranth.Env) : String :=
  let st0 := EmitState.init ctx
  let r := emitE ctx e st0.next
  let rc : Rtlil.Ctx := emitCtx (st0.wires ++ r.wires) false
  let w := widthOf ctx e
  let ev := envs.map fun env =>
    match evalNodes rc {} r.nodes (sigEnv ctx env) with
    | .ok renv' => toString (specVal rc renv' (emitSpec r.val))
    | .error msg => "error:" ++ clean msg
  let rtl := envs.map fun env => toString (mask w (evalRtl ctx env e)).toNat
  tab ["emit=ok", s!"canon={canonEmit r}", s!"cells={cellHist r}", s!"wf={if e.wf ctx then 1 else 0}",
       s!"part={if e.partsInside ctx then 1 else 0}", s!"chains={if e.chainsOk then 1 else 0}", s!"width={r.val.length}", s!"ev={",".intercalate ev}", s!"rtl={",".intercalate rtl}"]


def runOnce (f : Flat) (xres : Bool) (init : List (String × Nat)) (events : List (List (String × Nat))) (obs : List String)
    (shiftArith : Bool := false) : Except String (List (List Nat) × Option Nat) := do
  let s ← mkSim f xres shiftArith
  runTraceC s init events obs

def handleRun (text : String) (init : List (String × Nat)) (events : List (List (String × Nat))) (obs : List String)
    (shiftArith : Bool := false) : String :=
  match parse text with
  | .error (ln, msg) => tab ["parse=error", s!"line={ln}", s!"msg={msg}"]
  | .ok d =>
    match check d [] with
    | .error (mn, cl) => tab ["wf=fail", s!"module={mn}", s!"clause={cl.name}"]
    | .ok () =>
      match flatten d with
      | .error e => tab ["eval=error", s!"msg={clean e}"]
      | .ok f =>
        let missing := obs.filter (fun n => !(f.wires.any (·.1 == n)))
        if !missing.isEmpty then tab ["eval=error", s!"msg=no such wire: {clean (toString missing)}"]
        else
          match runOnce f false init events obs shiftArith with
          | .error e => tab ["eval=error", s!"msg={clean e}"]
          | .ok (t0, c0) =>
            match runOnce f true init events obs shiftArith with
            | .error e => tab ["eval=error", s!"msg={clean e}"]
            | .ok (t1, c1) =>
              -- the first event with a cross-clock write collision under either resolution (-1: none)
              let c := match c0, c1 with
                | some a, some b => toString (min a b)
                | some a, none => toString a
                | none, some b => toString b
                | none, none => "-1"
              if t0 == t1 then tab ["eval=ok", s!"trace={showRows t0}", "xdep=0", s!"collide={c}"]
              else tab ["eval=ok", s!"trace={showRows t0}", "xdep=1", s!"trace1={showRows t1}", s!"collide={c}"]

def handle (line : String) : String :=
  match Sexp.parse line with
  | some (.list [.atom "run", .atom text, .list (.atom "init" :: is), .list (.atom "events" :: es), .list (.atom "obs" :: os)]) =>
    match parsePairs is, es.mapM parseEvent, os.mapM atomS with
    | some init, some events, some obs => handleRun text init events obs
    | _, _, _ => "error=bad-arguments"
  -- the same with `$shift` of a signed operand read as an arithmetic shift: attribution of finding F27 only
  | some (.list [.atom "run27", .atom text, .list (.atom "init" :: is), .list (.atom "events" :: es), .list (.atom "obs" :: os)]) =>
    match parsePairs is, es.mapM parseEvent, os.mapM atomS with
    | some init, some events, some obs => handleRun text init events obs true
    | _, _, _ => "error=bad-arguments"
  | some (.list (.atom "emit" :: c :: e :: envs)) =>
    match parseCtx c with
    | none => "error=bad-ctx"
    | some ctx =>
      match parseExpr ctx e, envs.mapM parseEnv with
      | some ex, some es => handleEmit ctx ex es
      | _, _ => "error=bad-expression"
  | _ => "error=bad-request"

partial def loop (stdin : IO.FS.Stream) (stdout : IO.FS.Stream) : IO Unit := do
  let line ← stdin.getLine
  if line.isEmpty then return
  stdout.putStrLn (handle (String.ofList (line.toList.filter (· != '\n'))))
  loop stdin stdout

def main : IO Unit := do
  let stdin ← IO.getStdin
  let stdout ← IO.getStdout
  loop stdin stdout
  stdout.flush
