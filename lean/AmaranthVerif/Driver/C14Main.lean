import AmaranthVerif.Model.Sexp
import AmaranthVerif.Model.Wiring
import AmaranthVerif.Spec.Wiring

/-!
# Driver for C14 (unverified I/O glue)

Requests (one S-expression per line):

* `(flatten SV)`           → `model=<leaves> flip=<leaves of the flipped view> spec=<leafAt on the same paths>
                               specflip=<flipLeaves model> meta=<port records> entries=<member listing>
                               flipentries=<member listing of the flipped view>`
* `(leafat SV (PATH)...)`  → `spec=<leaf or none per path>`
* `(create SV)`            → `obj=<S-expression of the created object> model=<is_compliant> old=<is_compliant, code as it stands>`
* `(compliant SV OBJ)`     → `model=… old=…`
* `(connect (arg H SV ((PATH) V)...) ...)` → `model=ok:<conns>|error:<kind> spec=ok:<conns>|refused`

`SV  = (sv 0|1 SIG)`, `SIG = (sig (NAME MEMBER)...)`,
`MEMBER = (port o|i W s|u INIT (DIMS...)) | (iface o|i 0|1 SIG (DIMS...))`,
`OBJ = (signal W s|u INIT) | (const W s|u V) | (arr OBJ...) | (iface WRAPPED FL SIG ((NAME OBJ)...)) | (junk)`,
`PATH` items: names, or numbers for indices.
-/

open Amaranth Amaranth.Wiring

namespace C14

def parseFlow : Sexp → Option Flow
  | .atom "o" => some .out
  | .atom "i" => some .in
  | _ => none

def parseBool : Sexp → Option Bool
  | .atom "1" => some true
  | .atom "0" => some false
  | .atom "s" => some true
  | .atom "u" => some false
  | _ => none

def parseDims : Sexp → Option (List Nat)
  | .list xs => Sexp.nats? xs
  | _ => none

mutual
partial def parseSig : Sexp → Option Sig
  | .list (.atom "sig" :: ms) => parseMembers ms
  | _ => none
partial def parseMembers : List Sexp → Option Sig
  | [] => some .nil
  | .list [.atom n, m] :: rest => do
    let m ← parseMember m
    let r ← parseMembers rest
    pure (.cons n m r)
  | _ => none
partial def parseMember : Sexp → Option Member
  | .list [.atom "port", f, w, s, i, d] => do
    pure (.port (← parseFlow f) ⟨← w.toNat?, ← parseBool s, ← i.toInt?⟩ (← parseDims d))
  | .list [.atom "iface", f, df, s, d] => do
    pure (.iface (← parseFlow f) (← parseBool df) (← parseSig s) (← parseDims d))
  | _ => none
end

def parseSV : Sexp → Option SigV
  | .list [.atom "sv", fl, s] => do pure (← parseBool fl, ← parseSig s)
  | _ => none

def parseItem : Sexp → Option Item
  | .atom s => match s.toNat? with
    | some n => some (.idx n)
    | none => some (.name s)
  | _ => none

def parsePath : Sexp → Option Path
  | .list xs => xs.mapM parseItem
  | _ => none

partial def parseObj : Sexp → Option Obj
  | .list [.atom "signal", w, s, i] => do pure (.signal (← w.toNat?) (← parseBool s) (← i.toInt?))
  | .list [.atom "const", w, s, i] => do pure (.const (← w.toNat?) (← parseBool s) (← i.toInt?))
  | .list (.atom "arr" :: xs) => do pure (.arr (← xs.mapM parseObj))
  | .list [.atom "iface", w, fl, s, .list attrs] => do
    let attrs ← attrs.mapM fun
      | .list [.atom n, o] => do pure (n, ← parseObj o)
      | _ => none
    pure (.iface (← parseBool w) (← parseBool fl) (← parseSig s) attrs)
  | .list [.atom "junk"] => some .junk
  | _ => none

/-! rendering -/

def showFlow : Flow → String
  | .out => "o"
  | .in => "i"

def showB (b : Bool) : String := if b then "1" else "0"
def showSg (b : Bool) : String := if b then "s" else "u"

def showItem : Item → String
  | .name s => s
  | .idx n => toString n

def showPath (p : Path) : String := ".".intercalate (p.map showItem)

def showLeaf (l : Leaf) : String :=
  s!"{showFlow l.flow}:{l.port.width}:{showSg l.port.signed}:{l.port.init}"

def showLeaves (ls : List (Path × Leaf)) : String :=
  if ls.isEmpty then "-" else ";".intercalate (ls.map fun (p, l) => s!"{showPath p}={showLeaf l}")

def showDims (d : List Nat) : String := "(" ++ " ".intercalate (d.map toString) ++ ")"

mutual
partial def showSig : Sig → String
  | s => "(sig" ++ showMembers s ++ ")"
partial def showMembers : Sig → String
  | .nil => ""
  | .cons n m r => s!" ({n} {showMember m})" ++ showMembers r
partial def showMember : Member → String
  | .port f p d => s!"(port {showFlow f} {p.width} {showSg p.signed} {p.init} {showDims d})"
  | .iface f df s d => s!"(iface {showFlow f} {showB df} {showSig s} {showDims d})"
end

partial def showObj : Obj → String
  | .signal w s i => s!"(signal {w} {showSg s} {i})"
  | .const w s i => s!"(const {w} {showSg s} {i})"
  | .arr xs => "(arr" ++ String.join (xs.map fun x => " " ++ showObj x) ++ ")"
  | .iface w fl s attrs =>
    s!"(iface {showB w} {showB fl} {showSig s} (" ++
      " ".intercalate (attrs.map fun (n, o) => s!"({n} {showObj o})") ++ "))"
  | .junk => "(junk)"

def showCompl : Except GetErr Bool → String
  | .ok b => s!"ok:{showB b}"
  | .error .typeErr => "error:TypeError"
  | .error .noAttr => "error:AttributeError"

def showErr : ConnErr → String
  | .missing => "missing" | .kind => "kind" | .width => "width" | .init => "init"
  | .several => "several" | .constVarying => "constVarying" | .constMismatch => "constMismatch"
  | .onlyInputs => "onlyInputs" | .dims => "dims"

def showConn (c : Conn) : String :=
  s!"{c.1.1}.{showPath c.1.2}<-{c.2.1}.{showPath c.2.2}"

def showConns (cs : List Conn) : String :=
  if cs.isEmpty then "-" else ";".intercalate (cs.map showConn)

def showEntry (e : Entry) : String :=
  ".".intercalate (e.segs.map fun (n, d) => n ++ String.join (d.map fun k => s!"[{k}]")) ++ "=" ++
    (match e.view with
     | .iface => "iface"
     | .port f p => s!"{showFlow f}:{p.width}:{p.init}")

def showMeta (r : PortRec) : String :=
  s!"{r.name}={showFlow r.dir}:{r.width}:{showSg r.signed}:{r.init}"

def parseArg : Sexp → Option Arg
  | .list [.atom "arg", h, sv, .list cs] => do
    let cs ← cs.mapM fun
      | .list [p, v] => do pure (← parsePath p, ← v.toInt?)
      | _ => none
    pure ⟨← h.toNat?, ← parseSV sv, cs⟩
  | _ => none

def handle : Sexp → Option String
  | .list [.atom "flatten", sv] => do
    let sv ← parseSV sv
    let m := sv.flatten
    let fm := SigV.flatten (!sv.1, sv.2)
    let sp := m.map fun (p, _) => (p, WiringSpec.leafAt sv p)
    let spS := if sp.isEmpty then "-" else ";".intercalate (sp.map fun (p, l) =>
      s!"{showPath p}=" ++ (match l with | some l => showLeaf l | none => "none"))
    let md := sv.metadata
    let es := sv.2.entries sv.1 []
    let fes := sv.2.entries (!sv.1) []
    pure (s!"model={showLeaves m} flip={showLeaves fm} spec={spS} " ++
      s!"specflip={showLeaves (WiringSpec.flipLeaves m)} " ++
      "meta=" ++ (if md.isEmpty then "-" else ";".intercalate (md.map showMeta)) ++
      " entries=" ++ (if es.isEmpty then "-" else ";".intercalate (es.map showEntry)) ++
      " flipentries=" ++ (if fes.isEmpty then "-" else ";".intercalate (fes.map showEntry)))
  | .list (.atom "leafat" :: sv :: ps) => do
    let sv ← parseSV sv
    let ps ← ps.mapM parsePath
    let r := ps.map fun p => s!"{showPath p}=" ++
      (match WiringSpec.leafAt sv p with | some l => showLeaf l | none => "none")
    pure ("spec=" ++ (if r.isEmpty then "-" else ";".intercalate r))
  | .list [.atom "create", sv] => do
    let sv ← parseSV sv
    let o := sv.create
    pure (s!"model={showCompl (sv.isCompliant o)} old={showCompl (sv.isCompliantOld o)} obj={showObj o}")
  | .list [.atom "compliant", sv, o] => do
    let sv ← parseSV sv
    let o ← parseObj o
    pure (s!"model={showCompl (sv.isCompliant o)} old={showCompl (sv.isCompliantOld o)}")
  | .list (.atom "connect" :: args) => do
    let args ← args.mapM parseArg
    let m := match connect args with
      | .ok cs => "ok:" ++ showConns cs
      | .error e => "error:" ++ showErr e
    let s := match WiringSpec.connect (args.map Arg.toPart) with
      | some cs => "ok:" ++ showConns cs
      | none => "refused"
    pure (s!"model={m} spec={s}")
  | _ => none

def respond (line : String) : String :=
  match Sexp.parse line with
  | none => "error parse"
  | some sx =>
    match handle sx with
    | some r => r
    | none => "error bad-request"

end C14

partial def loop (h : IO.FS.Stream) (out : IO.FS.Stream) : IO Unit := do
  let line ← h.getLine
  if line.isEmpty then return ()
  out.putStrLn (C14.respond line)
  loop h out

def main : IO Unit := do
  let stdin ← IO.getStdin
  let stdout ← IO.getStdout
  loop stdin stdout
  stdout.flush
