import AmaranthVerif.Model.Sexp
import AmaranthVerif.Model.Memory
import AmaranthVerif.Spec.MemoryRows
import AmaranthVerif.Model.MemoryRename
import AmaranthVerif.Model.MemQueue

/-!
# Driver for C11 (`amodel_c11`): one request per line, one response per line (unverified I/O glue)

* `(walk <cfg> <state> <op>*)`
  `cfg   = (cfg <width> <u|s> <depth> (<init row>*) (doms (<p|n> <none|sync|async>)*)
            (rds (<dom|-1> (<write port index>*))*) (wrs (<dom> <gran> <enw>)*) (rdinit <int>*) [(rename (<src> <dst>)*)])`
          with `(rename …)` the port domains are the ones the ports were *declared* in and the memory sits under
          `DomainRenamer({src: dst, …})`: the walk is evaluated on `Cfg.rename` of the declared configuration
          (the declared configuration must pass `readPortsCheck` too: the constructors run before the renamer), and
          the first response item is `init=<rows>|<rd>|<final domain of every write port>|<… of every read port, -1 = comb>`
  `state = (state (<row>*) (<read data>*) (<clk 0|1>*) (<rst 0|1>*))`     what the testbench observed
  `op    = (ev (wr (<addr> <data> <en>)*) (rd (<addr> <en>)*) (clk <0|1>*) (rst <0|1>*) <state-after>)`
         | `(tbw (wr …) (rd …) <i> <start> <stop> <v> <state-after>)`      `ctx.set(mem[i][start:stop], v)`; `i` any integer:
                                                                             for a row that does not exist (`Mem.tbSet`
                                                                             rejects) the item starts with `e=IndexError`
                                                                             and m / s / o are the unchanged state
         | `(set <state>)`                                                   continue from another state
  Every `ev`/`tbw` is evaluated **from the observed state before it** (the previous `state-after`), so every
  event of a walk is an independent one-step comparison. Response: `init=<rows>|<rd>` followed by one item
  per op, separated by `;`:
  `m=<rows>|<rd> s=<rows>|<rd> o=<rows>|<rd> rs=<0/1 per row> ds=<0/1 per read port>`
  A configuration that `Mem.readPortsCheck` rejects (a transparency list naming something that is not a write port
  of the read port's domain) is answered with `error cfg-rejected:<kind>`: the model is not evaluated on
  configurations that the real constructor refuses.
  (m: `Mem.step`/`Mem.tbSet` + `Mem.readData`; s: `MemRows.step`/`rowWrite` on `absState`, shown through
  `toInt`; o: `Mem.stepOld`; rs/ds: where the Spec is defined — no two ports hit one bit of the row, read in range).
* `(enw <kind> <gran>)`  kind = `(plain <w> <u|s>)` | `(array <elem width> <length>)` | `(castable <w>)`,
  gran = `none` | `other` | int  →  `ok enw=<n> gran=<bits>` | `TypeError` | `ValueError`
* `(initchk <depth|none> <n init>)`, `(rdchk <dom|-1> (<(p <same 0|1> <dom>)|x>*))`, `(wrchk <dom|-1>)` → `ok` | error kind
* `(mkcfg <kind> <depth> <n init rows> (wrs (<dom|-1> <gran>)*) (rds (<dom|-1> (<write port index>*))*))` → `Mem.mkCfg`
  (the whole sequence `Memory(...)`, `write_port(...)`…, `read_port(...)`…): `ok wrs=<dom>:<gran bits>:<enw>,… rows=<n> rd=<n>`
  or the kind of the first exception
* `(abits <depth>)` → `<n>`;  `(merge <value> <mask> <old>)` → Python's `(value & mask) | (old & ~mask)`;
  `(repl <g> <n> <en>)` → value of `Cat(bit.replicate(g) for bit in en)`.
-/

open Amaranth Amaranth.Mem

namespace C11Driver

def commas (xs : List Int) : String := ",".intercalate (xs.map toString)
def bits01 (xs : List Bool) : String := String.join (xs.map fun b => if b then "1" else "0")

def toBool? (x : Sexp) : Option Bool := do
  let n ← x.toNat?
  if n = 0 then some false else if n = 1 then some true else none

def bools? (xs : List Sexp) : Option (List Bool) := xs.mapM toBool?

def parseDom : Sexp → Option DomCfg
  | .list [.atom p, .atom r] => do
    let pe ← (if p = "p" then some true else if p = "n" then some false else none)
    let rk ← (if r = "none" then some RstKind.none else if r = "sync" then some .sync
              else if r = "async" then some .async else none)
    some ⟨pe, rk⟩
  | _ => none

def parseRd : Sexp → Option RdCfg
  | .list [d, .list tr] => do
    let d ← d.toInt?
    let tr ← Sexp.nats? tr
    some ⟨if d < 0 then none else some d.toNat, tr⟩
  | _ => none

def parseWr : Sexp → Option WrCfg
  | .list [d, g, n] => do some ⟨← d.toNat?, ← g.toNat?, ← n.toNat?⟩
  | _ => none

def parseCfg : Sexp → Option Cfg
  | .list [.atom "cfg", w, .atom sg, d, .list ini, .list (.atom "doms" :: doms), .list (.atom "rds" :: rds),
           .list (.atom "wrs" :: wrs), .list (.atom "rdinit" :: rdi)] => do
    let w ← w.toNat?
    let d ← d.toNat?
    let sg ← (if sg = "s" then some true else if sg = "u" then some false else none)
    some ⟨⟨w, sg⟩, d, ← Sexp.ints? ini, ← doms.mapM parseDom, ← rds.mapM parseRd, ← wrs.mapM parseWr,
          ← Sexp.ints? rdi⟩
  | _ => none

/-- `(cfg … )` or `(cfg … (rename (src dst)*))` → the declared configuration and the renamer's map -/
def parseCfgRen : Sexp → Option (Cfg × Option (List (Nat × Nat)))
  | .list [a, w, sg, d, ini, doms, rds, wrs, rdi, .list (.atom "rename" :: es)] => do
    let c ← parseCfg (.list [a, w, sg, d, ini, doms, rds, wrs, rdi])
    let m ← es.mapM fun e => match e with
      | .list [s, t] => do some (← s.toNat?, ← t.toNat?)
      | _ => none
    some (c, some m)
  | x => do some (← parseCfg x, none)

def showPortDoms (c : Cfg) : String :=
  let ws := commas (c.wrs.map fun w => (w.dom : Int))
  let rs := commas (c.rds.map fun r => match r.dom with | some d => (d : Int) | none => -1)
  s!"|{ws}|{rs}"

def parseState : Sexp → Option State
  | .list [.atom "state", .list rows, .list rd, .list clk, .list rst] => do
    some ⟨← Sexp.ints? rows, ← Sexp.ints? rd, ← bools? clk, ← bools? rst⟩
  | _ => none

def parseWrIn : Sexp → Option WrIn
  | .list [a, d, e] => do some ⟨← a.toNat?, ← d.toInt?, ← e.toNat?⟩
  | _ => none

def parseRdIn : Sexp → Option RdIn
  | .list [a, e] => do some ⟨← a.toNat?, ← toBool? e⟩
  | _ => none

def parseInputs (wr rd : Sexp) : Option Inputs :=
  match wr, rd with
  | .list (.atom "wr" :: ws), .list (.atom "rd" :: rs) => do some ⟨← ws.mapM parseWrIn, ← rs.mapM parseRdIn⟩
  | _, _ => none

def showState (rows rd : List Int) : String := s!"{commas rows}|{commas rd}"

def specInts (c : Cfg) (rows : List MemRows.Row) : List Int := rows.map (MemRows.toInt c.shape.signed)

/-- what the Spec says every read port shows in state `sp` under inputs `inp` -/
def specReadData (c : Cfg) (sp : MemRows.State) (inp : Inputs) : List MemRows.Row :=
  c.rds.mapIdx fun k r =>
    match r.dom with
    | none => MemRows.asyncRead sp (inp.rd.getD k default).addr
    | some _ => sp.rdata.getD k []

/-- is the Spec defined for read port `k` (asynchronous: address in range and the addressed row specified) -/
def combSpecified (c : Cfg) (inp : Inputs) (rs : List Bool) : List Bool :=
  c.rds.mapIdx fun k r =>
    match r.dom with
    | none => decide ((inp.rd.getD k default).addr < c.depth) && rs.getD (inp.rd.getD k default).addr false
    | some _ => true

def item (c : Cfg) (inp : Inputs) (m o : State) (sp : MemRows.State) (rs ds : List Bool) : String :=
  s!"m={showState m.rows (readData c m inp)} s={showState (specInts c sp.mem) (specInts c (specReadData c sp inp))} " ++
  s!"o={showState o.rows (readData c o inp)} rs={bits01 rs} ds={bits01 ds}"

def doEv (c : Cfg) (s : State) (inp : Inputs) (e : Event) : String :=
  let m := step c s inp e
  let o := stepOld c s inp e
  let edge := MemRows.edgeOf c s.clk inp e
  let sp := MemRows.step (MemRows.absState c s) edge
  let rs := (List.range s.rows.length).map fun a => MemRows.rowSpecified edge.writes c.shape.width a
  let ds := (c.rds.mapIdx fun k _ => MemRows.readSpecified c.depth c.shape.width (edge.reads.getD k .hold))
  let ds := List.zipWith (· && ·) ds (combSpecified c inp rs)
  item c inp m o sp rs ds

def doTbw (c : Cfg) (s : State) (inp : Inputs) (index : Int) (start stop : Nat) (v : Int) : String :=
  let all := s.rows.map fun _ => true
  match tbSet c s index start stop v with
  | .ok m =>
    let sp := MemRows.rowWrite (MemRows.absState c s) index.toNat start stop (MemRows.toBits (stop - start) v)
    item c inp m m sp all (combSpecified c inp all)
  | .error e =>
    -- no such row: nothing is read or written
    s!"e={e} " ++ item c inp s s (MemRows.absState c s) all (combSpecified c inp all)

def walkOps (c : Cfg) : State → List Sexp → List String → Option (List String)
  | _, [], acc => some acc.reverse
  | s, op :: rest, acc =>
    match op with
    | .list [.atom "set", st] => do
      let s' ← parseState st
      walkOps c s' rest ("-" :: acc)
    | .list [.atom "ev", wr, rd, .list (.atom "clk" :: clk), .list (.atom "rst" :: rst), post] => do
      let inp ← parseInputs wr rd
      let e : Event := ⟨← bools? clk, ← bools? rst⟩
      let s' ← parseState post
      walkOps c s' rest (doEv c s inp e :: acc)
    | .list [.atom "tbw", wr, rd, i, a, b, v, post] => do
      let inp ← parseInputs wr rd
      let s' ← parseState post
      walkOps c s' rest (doTbw c s inp (← i.toInt?) (← a.toNat?) (← b.toNat?) (← v.toInt?) :: acc)
    | _ => none

def parseKind : Sexp → Option RowKind
  | .list [.atom "plain", w, .atom sg] => do
    let sg ← (if sg = "s" then some true else if sg = "u" then some false else none)
    some (.plain ⟨← w.toNat?, sg⟩)
  | .list [.atom "array", e, n] => do some (.array (← e.toNat?) (← n.toNat?))
  | .list [.atom "castable", w] => do some (.castable (← w.toNat?))
  | _ => none

def parseGran : Sexp → Option GranArg
  | .atom "none" => some .none
  | .atom "other" => some .other
  | x => do some (.int (← x.toInt?))

def parseTransp : Sexp → Option TranspArg
  | .atom "x" => some .notAPort
  | .list [.atom "p", s, d] => do some (.port (← toBool? s) (← d.toNat?))
  | _ => none

def domArg (x : Sexp) : Option (Option Nat) := do
  let d ← x.toInt?
  some (if d < 0 then none else some d.toNat)

def parseWrArg : Sexp → Option WrArg
  | .list [d, g] => do some ⟨← domArg d, ← parseGran g⟩
  | _ => none

def showCfg (c : Cfg) : String :=
  let ws := ",".intercalate (c.wrs.map fun w => s!"{w.dom}:{w.gran}:{w.enw}")
  s!"ok wrs={ws} rows={(init c).rows.length} rd={(init c).rdata.length}"

def showExcept : Except String Unit → String
  | .ok _ => "ok"
  | .error e => e

def respond (line : String) : String :=
  match Sexp.parse line with
  | some (.list (.atom "walk" :: cfg :: st :: ops)) =>
    match parseCfgRen cfg, parseState st with
    | some (c0, ren), some s =>
      match readPortsCheck c0.wrs c0.rds with
      | .error e => s!"error cfg-rejected:{e}"
      | .ok _ =>
      let c := match ren with | some m => c0.rename m | none => c0
      let i := init c
      match readPortsCheck c.wrs c.rds with
      | .error e => s!"error cfg-rejected:{e}"
      | .ok _ =>
      match walkOps c s ops [] with
      | some items => s!"init={showState i.rows (readData c i ⟨[], []⟩)}" ++ (if ren.isSome then showPortDoms c else "") ++
          String.join (items.map fun x => ";" ++ x)
      | none => "error bad-op"
    | _, _ => "error bad-cfg"
  | some (.list [.atom "enw", k, g]) =>
    match parseKind k, parseGran g with
    | some k, some g =>
      match enWidth k g with
      | .ok n => s!"ok enw={n} gran={granBits k.width n}"
      | .error e => e
    | _, _ => "error bad-request"
  | some (.list [.atom "initchk", d, n]) =>
    match n.toNat? with
    | some n => showExcept (initCheck d.toInt? n)
    | none => "error bad-request"
  | some (.list [.atom "rdchk", d, .list items]) =>
    match domArg d, items.mapM parseTransp with
    | some d, some items => showExcept (readPortCheck d items)
    | _, _ => "error bad-request"
  | some (.list [.atom "wrchk", d]) =>
    match domArg d with
    | some d => showExcept (writePortCheck d)
    | none => "error bad-request"
  | some (.list [.atom "mkcfg", k, d, n, .list (.atom "wrs" :: ws), .list (.atom "rds" :: rs)]) =>
    match parseKind k, d.toNat?, n.toNat?, ws.mapM parseWrArg, rs.mapM parseRd with
    | some k, some d, some n, some ws, some rs =>
      match mkCfg k d (List.replicate n 0) (List.replicate 2 ⟨true, .sync⟩) ws rs with
      | .ok c => showCfg c
      | .error e => e
    | _, _, _, _, _ => "error bad-request"
  | some (.list [.atom "abits", d]) =>
    match d.toNat? with
    | some d => toString (ceilLog2 d)
    | none => "error bad-request"
  | some (.list [.atom "merge", v, m, o]) =>
    match v.toInt?, m.toInt?, o.toInt? with
    | some v, some m, some o => toString (pyMerge v m o)
    | _, _, _ => "error bad-request"
  | some (.list (.atom "mq" :: w :: .atom sg :: .list rows :: ops)) =>
    -- `_PyMemoryState`: `write` calls in order, then `commit()`; `(op addr value mask|none)`
    let parseOp : Sexp → Option QOp
      | .list [.atom "op", a, v, .atom "none"] => do some ⟨← a.toNat?, ← v.toInt?, none⟩
      | .list [.atom "op", a, v, m] => do some ⟨← a.toNat?, ← v.toInt?, some (← m.toInt?)⟩
      | _ => none
    match w.toNat?, Sexp.ints? rows, ops.mapM parseOp with
    | some w, some rows, some ops =>
      let r := runOps ⟨w, sg == "s"⟩ rows ops
      s!"mq rows={commas r.1} changed={if r.2 then 1 else 0}"
    | _, _, _ => "error bad-request"
  | some (.list [.atom "repl", g, n, e]) =>
    match g.toNat?, n.toNat?, e.toNat? with
    | some g, some n, some e => toString (replMask g n e)
    | _, _, _ => "error bad-request"
  | some _ => "error bad-request"
  | none => "error parse"

end C11Driver

partial def loop (stdin stdout : IO.FS.Stream) : IO Unit := do
  let line ← stdin.getLine
  if line.isEmpty then return
  stdout.putStrLn (C11Driver.respond line)
  loop stdin stdout

def main : IO Unit := do
  let stdin ← IO.getStdin
  let stdout ← IO.getStdout
  loop stdin stdout
  stdout.flush
