import AmaranthVerif.Model.Sexp
import AmaranthVerif.Model.AsyncFifoObs
import Std.Data.HashSet

/-! # Driver `amodel_c13` (unverified I/O glue around Model/AsyncFifo and Spec/Queue2)

Requests (one per line):
* `(graytab n)` → `enc=<gray x for x < 2^n> dec=<grayDecode n x for x < 2^n>` (comma separated)
* `(ctor async|buffered depth exact)` →
  `model=ok depth=<d> ctr=<n> elab=<ok|IndexError> elab_old=<ok|IndexError> spec=<ok depth | ValueError>`
* `(run zero|async|buffered ctrBits width bound (obs) (W|R|B wen wdata ren (obs)) …)` with
  `obs = wrdy rrdy rdata wlevel rlevel rrst` as seen on the implementation →
  `model=<o;o;…> spec=<ok|k:clauses> mspec=<ok|k:clauses> writes=<…> reads=<…>`:
  model outputs before the first and after every event; verdict of the Spec monitor on the
  *implementation's* observations (`spec`) and on the model's (`mspec`).
* `(reach async|buffered ctrBits width)` → `n=<count> states=<s;s;…>` all reachable model states
* `(succ async|buffered ctrBits width (state))` → `out=<o> succ=<s;s;…>` successors in canonical event order
-/

open Amaranth Amaranth.AsyncFifo

def commas (xs : List Nat) : String := ",".intercalate (xs.map toString)
def semis (xs : List String) : String := ";".intercalate xs

def showOut (o : Out) : String :=
  commas [b2n o.wRdy, b2n o.rRdy, o.rData, o.wLevel, o.rLevel, b2n o.rRst]


/-! ### state encodings -/

def encState (c : Cfg) (s : State) : List Nat :=
  [s.produceWBin, s.produceWGry, s.consumeRBin, s.consumeRGry, s.pStage0, s.pStage1, s.cStage0, s.cStage1,
   s.consumeWBin, s.wLevel, s.rData, b2n s.rst0, b2n s.rst1, b2n s.rRst] ++ (List.range c.depth).map s.mem

def decState (_c : Cfg) : List Nat → Option State
  | a :: b :: cc :: d :: e :: f :: g :: h :: i :: j :: k :: r0 :: r1 :: rr :: mem =>
    some { produceWBin := a, produceWGry := b, consumeRBin := cc, consumeRGry := d, pStage0 := e, pStage1 := f,
           cStage0 := g, cStage1 := h, consumeWBin := i, wLevel := j, rData := k, rst0 := r0 != 0, rst1 := r1 != 0,
           rRst := rr != 0, mem := fun x => mem.getD x 0 }
  | _ => none

def encB (c : Cfg) (s : BState) : List Nat :=
  [s.rData, b2n s.rRdy, s.rLevel, b2n s.rRst, b2n s.sync0, b2n s.sync1, b2n s.sync2, b2n s.sync3] ++ encState c s.inner

def decB (c : Cfg) : List Nat → Option BState
  | a :: b :: l :: rr :: s0 :: s1 :: s2 :: s3 :: rest => do
    let inner ← decState c rest
    some { inner, rData := a, rRdy := b != 0, rLevel := l, rRst := rr != 0, sync0 := s0 != 0, sync1 := s1 != 0, sync2 := s2 != 0,
           sync3 := s3 != 0 }
  | _ => none

/-! ### a FIFO of either class as a transition system over encoded states -/

structure Sys where
  initS : List Nat
  stepS : List Nat → Event → Option (List Nat)
  outS : List Nat → Option Out

def sysOf (kind : String) (c : Cfg) : Option Sys :=
  if kind == "async" then
    some { initS := encState c init
           stepS := fun l e => (decState c l).map fun s => encState c (step c s e)
           outS := fun l => (decState c l).map (outputs c) }
  else if kind == "buffered" then
    some { initS := encB c binit
           stepS := fun l e => (decB c l).map fun s => encB c (bstep c s e)
           outS := fun l => (decB c l).map (boutputs c) }
  else if kind == "zero" then
    some { initS := [], stepS := fun l _ => some l, outS := fun _ => some zeroOutputs }
  else none

/-- all events over the finite input alphabet, canonical order -/
def allEvents (width : Nat) : List Event := Id.run do
  let mut out := []
  for k in [0, 1, 2] do
    for wen in [false, true] do
      for d in List.range (2 ^ width) do
        for ren in [false, true] do
          let i : Inp := ⟨wen, d, ren⟩
          out := (match k with | 0 => Event.w i | 1 => Event.r i | _ => Event.both i) :: out
  return out.reverse

partial def bfs (sys : Sys) (evs : List Event) (frontier : List (List Nat)) (seen : Std.HashSet (List Nat))
    (acc : List (List Nat)) : List (List Nat) :=
  match frontier with
  | [] => acc.reverse
  | _ =>
    let (next, seen') := frontier.foldl (fun (acc : List (List Nat) × Std.HashSet (List Nat)) s =>
      evs.foldl (fun (acc : List (List Nat) × Std.HashSet (List Nat)) e =>
        match sys.stepS s e with
        | some t => if acc.2.contains t then acc else (t :: acc.1, acc.2.insert t)
        | none => acc) acc) ([], seen)
    bfs sys evs next.reverse seen' (frontier.reverse ++ acc)

/-! ### request handlers -/

def parseObs : List Sexp → Option Out
  | [a, b, cc, d, e, f] => do
    some { wRdy := (← Sexp.toNat? a) != 0, rRdy := (← Sexp.toNat? b) != 0, rData := ← Sexp.toNat? cc,
           wLevel := ← Sexp.toNat? d, rLevel := ← Sexp.toNat? e, rRst := (← Sexp.toNat? f) != 0 }
  | _ => none

def parseEv : Sexp → Option (Event × Out)
  | .list [.atom k, wen, wd, ren, .list o] => do
    let i : Inp := ⟨(← Sexp.toNat? wen) != 0, ← Sexp.toNat? wd, (← Sexp.toNat? ren) != 0⟩
    let ob ← parseObs o
    let e ← (if k == "W" then some (Event.w i) else if k == "R" then some (Event.r i)
             else if k == "B" then some (Event.both i) else none)
    some (e, ob)
  | _ => none


def showVerdict : Option (Nat × List String) → String
  | none => "ok"
  | some (k, cl) => s!"{k}:{",".intercalate cl}"

def handleRun (kind : String) (c : Cfg) (bound : Nat) (o0 : Out) (evs : List (Event × Out)) : Option String := do
  let sys ← sysOf kind c
  let depth := if kind == "zero" then 0 else if kind == "buffered" then c.bdepth else c.depth
  -- model outputs along the run, and the words the model accepts / delivers
  let mut s := sys.initS
  let mut routs : List Out := [← sys.outS s]
  for (e, _) in evs do
    s ← sys.stepS s e
    routs := (← sys.outS s) :: routs
  let outs := routs.reverse
  let implTr := evs.map fun (e, o) => (clockOf e, strobesOf c e, toObs o)
  let modelTr :=
    if kind == "async" then specTrace c init (evs.map (·.1))
    else if kind == "buffered" then bspecTrace c binit (evs.map (·.1))
    else (evs.zip outs.tail).map fun ((e, _), o) => (clockOf e, strobesOf c e, toObs o)
  let vImpl := Queue2.firstViolation depth bound Queue2.Mon.init 0 (toObs o0) implTr
  let vModel := Queue2.firstViolation depth bound Queue2.Mon.init 0 (toObs (outs.headD zeroOutputs)) modelTr
  let evl := evs.map (·.1)
  let (ws, rs) :=
    if kind == "async" then (writes c init evl, reads c init evl)
    else if kind == "buffered" then (bwrites c binit evl, breads c binit evl) else ([], [])
  some s!"model={semis (outs.map showOut)} spec={showVerdict vImpl} mspec={showVerdict vModel} writes={commas ws} reads={commas rs}"

def showExceptElab : Except ElabErr Unit → String
  | .ok _ => "ok"
  | .error _ => "IndexError"

def handle : Sexp → Option String
  | .list [.atom "graytab", n] => do
    let n ← Sexp.toNat? n
    let xs := List.range (2 ^ n)
    some s!"enc={commas (xs.map gray)} dec={commas (xs.map (grayDecode n))}"
  | .list [.atom "ctor", .atom kind, d, ex] => do
    let d ← Sexp.toNat? d
    let ex := (← Sexp.toNat? ex) != 0
    let (res, specDepth) ←
      if kind == "async" then some (ctorAsync d ex, if d = 0 then 0 else Queue2.roundPow2 d)
      else if kind == "buffered" then some (ctorBuffered d ex, if d = 0 then 0 else Queue2.roundPow2Plus1 d)
      else none
    let spec := if ex && specDepth != d then "ValueError" else s!"ok,{specDepth}"
    match res with
    | .ok b => some s!"model=ok depth={b.depth} ctr={b.ctrBits} elab={showExceptElab (elaborate b)} elab_old={showExceptElab (elaborateOld b)} spec={spec}"
    | .error _ => some s!"model=ValueError spec={spec}"
  | .list (.atom "run" :: .atom kind :: n :: w :: bound :: .list o0 :: evs) => do
    let c : Cfg := ⟨← Sexp.toNat? n, ← Sexp.toNat? w⟩
    handleRun kind c (← Sexp.toNat? bound) (← parseObs o0) (← evs.mapM parseEv)
  | .list [.atom "reach", .atom kind, n, w] => do
    let c : Cfg := ⟨← Sexp.toNat? n, ← Sexp.toNat? w⟩
    let sys ← sysOf kind c
    let sts := bfs sys (allEvents c.width) [sys.initS] (Std.HashSet.emptyWithCapacity.insert sys.initS) []
    some s!"n={sts.length} states={semis (sts.map commas)}"
  | .list [.atom "succ", .atom kind, n, w, .list st] => do
    let c : Cfg := ⟨← Sexp.toNat? n, ← Sexp.toNat? w⟩
    let sys ← sysOf kind c
    let s ← Sexp.nats? st
    let o ← sys.outS s
    let succs ← (allEvents c.width).mapM (sys.stepS s)
    some s!"out={showOut o} succ={semis (succs.map commas)}"
  | _ => none

def respond (line : String) : String :=
  match Sexp.parse line with
  | none => "error parse"
  | some sx => (handle sx).getD "error bad-request"

partial def loop (h : IO.FS.Stream) (out : IO.FS.Stream) : IO Unit := do
  let line ← h.getLine
  if line.isEmpty then return ()
  out.putStrLn (respond line)
  loop h out

def main : IO Unit := do
  let stdin ← IO.getStdin
  let stdout ← IO.getStdout
  loop stdin stdout
  stdout.flush
