import AmaranthVerif.Spec.DomainSpec
import AmaranthVerif.Driver.ExprIO
import AmaranthVerif.Model.Stmt
import AmaranthVerif.Spec.Prog
import AmaranthVerif.Model.Dsl

/-! # Reading statements and DSL programs from the line protocol (unverified I/O glue) -/

namespace Amaranth
open Sexp

/-- `(skip)`, `(seq s*)`, `(= lhs rhs)`, `(switch test ((pat*) s*)* )` with `default` for a default case -/
partial def parseStmt (ctx : Ctx) : Sexp → Option Stmt
  | .list [.atom "skip"] => some .skip
  | .list (.atom "seq" :: ss) => do
      let xs ← ss.mapM (parseStmt ctx)
      some (xs.foldr (fun s acc => .seq s acc) .skip)
  | .list [.atom "=", l, r] => do some (.assign (← parseExpr ctx l) (← parseExpr ctx r))
  | .list (.atom "switch" :: t :: cases) => do
      let te ← parseExpr ctx t
      let w := widthOf ctx te
      let cs ← cases.mapM fun c =>
        match c with
        | .list (.atom "default" :: body) => do
            let xs ← body.mapM (parseStmt ctx)
            some ([Pat.dontCare w], xs.foldr (fun s acc => Stmt.seq s acc) .skip)
        | .list (.list ps :: body) => do
            let pats ← ps.mapM fun p => match p with | .atom s => parsePat s | _ => none
            let xs ← body.mapM (parseStmt ctx)
            some (pats, xs.foldr (fun s acc => Stmt.seq s acc) .skip)
        | _ => none
      some (cs.foldr (fun (c : List Pat × Stmt) acc => .ite te c.1 c.2 acc) .skip)
  | _ => none

def parseUPat : Sexp → Option UPat
  | .list [.atom "i", k] => do some (.int (← toInt? k))
  | .atom s => do some (.bits (← parsePat s))
  | _ => none

/-- `(= lhs rhs)`, `(if (cond item*)* (else item*))`, `(sw test ((upat*) item*)* (default item*))` -/
partial def parseProg (ctx : Ctx) : Sexp → Option Prog
  | .list [.atom "=", l, r] => do some (.assign (← parseExpr ctx l) (← parseExpr ctx r))
  | .list (.atom "if" :: rest) => do
      let brs := rest.filter fun b => match b with | .list (.atom "else" :: _) => false | _ => true
      let els := rest.filterMap fun b => match b with | .list (.atom "else" :: body) => some body | _ => none
      let branches ← brs.mapM fun b =>
        match b with
        | .list (c :: body) => do some (← parseExpr ctx c, ← body.mapM (parseProg ctx))
        | _ => none
      let e ← match els with
        | [] => some []
        | body :: _ => body.mapM (parseProg ctx)
      some (.ifs branches e)
  | .list (.atom "sw" :: t :: cases) => do
      let te ← parseExpr ctx t
      let cs ← cases.mapM fun c =>
        match c with
        | .list (.atom "default" :: body) => do some (none, ← body.mapM (parseProg ctx))
        | .list (.list ps :: body) => do some (some (← ps.mapM parseUPat), ← body.mapM (parseProg ctx))
        | _ => none
      some (.switch te cs)
  | _ => none

def parseBools : Sexp → Option (List Bool)
  | .list (.atom _ :: vs) => vs.mapM fun v => match v with | .atom "1" => some true | .atom "0" => some false | _ => none
  | _ => none

/-- `(proc ctx (inits …) (resetless …) comb|sync (rst none|<int>) <stmt> (prog item*) env*)`
→ per env `model=<ints> spec=<ints>` -/
def handleProc : Sexp → Option String
  | .list (.atom "proc" :: c :: ini :: rl :: .atom dom :: .list [.atom "rst", r] :: st :: .list (.atom "prog" :: items) :: envs) => do
      let ctx ← parseCtx c
      let inits ← match ini with | .list (.atom _ :: vs) => ints? vs | _ => none
      let resetLess ← parseBools rl
      let stmt ← parseStmt ctx st
      let prog ← items.mapM (parseProg ctx)
      let rst ← match r with | .atom "none" => some none | x => (toInt? x).map some
      let es ← envs.mapM parseEnv
      let outs := es.map fun env =>
        let m := if dom == "comb" then combProcess ctx inits stmt env else syncProcess ctx inits resetLess rst stmt env
        -- Spec of a synchronous step: the active assignments; with the domain's reset asserted the driven bits of
        -- the non-reset-less signals take their initial values instead
        let rstOn := match rst with | some r => r % 2 == 1 | none => false
        let sp := if dom == "comb" then progStep ctx prog env inits
                  else if rstOn then
                    mergeDriven ctx prog (fun i => !(resetLess.getD i false)) inits (progStep ctx prog env env)
                  else progStep ctx prog env env
        let lw := lowerList ctx prog
        let ml := if dom == "comb" then combProcess ctx inits lw env else syncProcess ctx inits resetLess rst lw env
        s!"model={showEnv m} lowered={showEnv ml} spec={showEnv sp}"
      some ("proc ; " ++ " ; ".intercalate outs)
  | _ => none

end Amaranth
