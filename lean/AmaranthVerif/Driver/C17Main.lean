import AmaranthVerif.Model.Sexp
import AmaranthVerif.Model.Cdc
import AmaranthVerif.Spec.Cdc

/-!
# Driver for C17 (unverified I/O glue)

One request per line:

* `(ff stages width signed owidth init i0 resetless asyncdom (rev*))`
                                         → `model=v,v,… spec=v,v,… dirty=b,b,… state=…`
  (`signed`, `resetless`, `asyncdom` are 1 or 0; a `rev` is an event, `R` (raise the reset of the
  output domain) or `r` (release it); `dirty` says whether some stage differs from `init`)
* `(async stages pos i0 (ev*))`          → `model=b,b,… spec=b,b,… state=…`   (`pos` is 1 or 0)
* `(pulse stages (ev*))`                 → `model=… spec=… spaced=… pulses=N high=N idle=N state=…`
* `(ctor stages <int|none>)`             → `model=<kind> spec=<kind>`
* `(ctor async <int|none> wi wo edgeok)` → `model=<kind> spec=<kind>`
* `(elab <ff|async|reset|pulse> asyncpos negdomain)` → `model=<ok|DomainRequirementFailed> spec=…`

An event is `i` (input edge), `o` (output edge), `b` (both) or a number (drive the input).  The
value lists have one entry for the empty schedule and one after every event.  `state` is the model
state after the last event (used by the harness to enumerate reachable graphs).
-/

open Amaranth Amaranth.Cdc

def parseEv : Sexp → Option Ev
  | .atom "i" => some .iedge
  | .atom "o" => some .oedge
  | .atom "b" => some .both
  | .atom s => (s.toNat?).map Ev.set
  | _ => none

def parseEvs : Sexp → Option (List Ev)
  | .list xs => xs.mapM parseEv
  | _ => none

def parseREv : Sexp → Option REv
  | .atom "R" => some (.rst 1)
  | .atom "r" => some (.rst 0)
  | s => (parseEv s).map REv.ev

def parseREvs : Sexp → Option (List REv)
  | .list xs => xs.mapM parseREv
  | _ => none

def commas (xs : List String) : String := ",".intercalate xs
def b01 (b : Bool) : String := if b then "1" else "0"
def bits (bs : List Bool) : String := String.join (bs.map b01)

/-- states after the empty schedule and after every event -/
def scan {σ ε : Type} (f : σ → ε → σ) (s : σ) : List ε → List σ
  | [] => [s]
  | e :: es => s :: scan f (f s e) es

def ctorName : Ctor → String
  | .ok => "ok" | .typeError => "TypeError" | .valueError => "ValueError"

def elabName : Elab → String
  | .ok => "ok" | .domainRequirementFailed => "DomainRequirementFailed"

def parsePrim : Sexp → Option Prim
  | .atom "ff" => some .ffSync
  | .atom "async" => some .asyncFFSync
  | .atom "reset" => some .resetSync
  | .atom "pulse" => some .pulseSync
  | _ => none

def parseStages : Sexp → Option (Option Int)
  | .atom "none" => some none
  | s => (Sexp.toInt? s).map some

def respond (line : String) : String :=
  match Sexp.parse line with
  | none => "error parse"
  | some sx =>
    let r : Option String :=
      match sx with
      | .list [.atom "ff", n, w, sg, wo, init, i0, rl, ad, evs] => do
          let n ← Sexp.toNat? n; let w ← Sexp.toNat? w; let sg ← Sexp.toNat? sg
          let wo ← Sexp.toNat? wo; let init ← Sexp.toInt? init
          let i0 ← Sexp.toNat? i0; let rl ← Sexp.toNat? rl; let ad ← Sexp.toNat? ad
          let evs ← parseREvs evs
          let sg := sg != 0; let rl := rl != 0; let ad := ad != 0
          let ms := scan (Model.ffrStep w init rl ad) (Model.ffrInit n w init i0) evs
          let ss := scan (FFRObs.step w (!rl) ad) (FFRObs.start w i0) evs
          let last := ms.getLast?.getD (Model.ffrInit n w init i0)
          let clean := List.replicate n (Model.signalInit w init)
          some s!"model={commas (ms.map fun s => toString (Model.extendTo sg w wo s.last))} spec={commas (ss.map fun r => toString (delivered sg w wo (r.out n w init)))} dirty={commas (ms.map fun s => b01 (s.flops != clean))} state={last.inp}/{b01 last.rst}/{commas (last.flops.map toString)}"
      | .list [.atom "async", n, pos, i0, evs] => do
          let n ← Sexp.toNat? n; let pos ← Sexp.toNat? pos; let i0 ← Sexp.toNat? i0
          let evs ← parseEvs evs
          let pos := pos != 0
          let ms := scan (Model.asyncStep pos) (Model.asyncInit n i0) evs
          let ss := scan (AsyncObs.step pos) (AsyncObs.start i0) evs
          let last := ms.getLast?.getD (Model.asyncInit n i0)
          some s!"model={commas (ms.map fun s => b01 s.out)} spec={commas (ss.map fun r => b01 (r.out n pos))} state={b01 last.inp}/{bits last.flops}"
      | .list [.atom "pulse", n, evs] => do
          let n ← Sexp.toNat? n; let evs ← parseEvs evs
          let ms := scan Model.pulseStep (Model.pulseInit n) evs
          let ss := scan PulseObs.step PulseObs.start evs
          let last := ms.getLast?.getD (Model.pulseInit n)
          let fin := ss.getLast?.getD PulseObs.start
          some s!"model={commas (ms.map fun s => b01 s.out)} spec={commas (ss.map fun r => b01 (r.out n))} spaced={commas (ss.map fun r => b01 r.spaced)} pulses={fin.pulses} high={highCycles (Model.pulseOut n) evs} idle={fin.idle} state={b01 last.inp}{b01 last.itog}/{bits last.flops}/{b01 last.rtog}"
      | .list [.atom "ctor", .atom "stages", s] => do
          let s ← parseStages s
          some s!"model={ctorName (Model.checkStages s)} spec={ctorName (stagesCtor s)}"
      | .list [.atom "ctor", .atom "async", s, wi, wo, e] => do
          let s ← parseStages s; let wi ← Sexp.toNat? wi; let wo ← Sexp.toNat? wo
          let e ← Sexp.toNat? e
          some s!"model={ctorName (Model.asyncCtor s wi wo (e != 0))} spec={ctorName (asyncCtor s wi wo (e != 0))}"
      | .list [.atom "elab", p, pos, neg] => do
          let p ← parsePrim p; let pos ← Sexp.toNat? pos; let neg ← Sexp.toNat? neg
          some s!"model={elabName (Model.elaborate p (pos != 0) (neg != 0))} spec={elabName (elabContract p (neg != 0))}"
      | _ => none
    r.getD "error bad-request"

partial def loop (h : IO.FS.Stream) (out : IO.FS.Stream) : IO Unit := do
  let line ← h.getLine
  if line.isEmpty then return ()
  out.putStrLn (respond line)
  loop h out

def main : IO Unit := do
  let stdin ← IO.getStdin
  let stdout ← IO.getStdout
  loop stdin stdout
  stdout.flush
