import AmaranthVerif.Driver.DomainIO
import AmaranthVerif.Model.Engine
import AmaranthVerif.Spec.Engine

/-!
# Driver `amodel_c08` (unverified I/O glue)

```
(c08 CTX (inits INT*) (resetless 0|1*) (doms DOM*) (actual (proc DOM STMT)*) (leaves LEAF*)
     (user UPROC*) (clocks (SLOT PHASE PERIOD)*) (tbs (tb OP*)*) (run) | (until FS))
UPROC = (ucomb (INS*) OUT EXPR) | (usync D (INS*) OUT EXPR) | (usyncp D (INS*) OUT LO HI EXPR) | (ulate DELAY (INS*) OUT EXPR)
OP    = (set TARGET INT) | (setfrom TARGET EXPR) | (get EXPR) | (tick D EXPR*) | (wait ELEM*)
ELEM  = (edge SIG BIT 0|1) | (changed SIG) | (delay FS) | (sample EXPR)
```
→ `c08 model=<trace>|<final> rev=<trace>|<final> spec=<trace>|<final> or na`
where a trace is `tb:now:v,v,…;…` in chronological order and final the value of every signal.

```
(clock PHASE PERIOD N)     → `clock model=<t0,t1,…> spec=<t0,t1,…>` the first N toggle instants
(halfdefault PERIOD)       → `half model=<fs>` Period(fs=PERIOD) / 2 as add_clock computes the default phase
(delay NOW N)              → `delay spec=<fs>`
```
-/

open Amaranth Amaranth.Engine

namespace C08IO
open Sexp

def parseElem (ctx : Ctx) : Sexp → Option TrigElem
  | .list [.atom "edge", s, b, p] => do some (.edge (← toNat? s) (← toNat? b) ((← toNat? p) == 1))
  | .list [.atom "changed", s] => do some (.changed (← toNat? s))
  | .list [.atom "delay", n] => do some (.delay (← toNat? n))
  | .list [.atom "sample", e] => do some (.sample (← parseExpr ctx e))
  | _ => none

def parseOp (ctx : Ctx) : Sexp → Option TbOp
  | .list [.atom "set", t, v] => do some (.set (← parseExpr ctx t) (← toInt? v))
  | .list [.atom "setfrom", t, e] => do some (.setFrom (← parseExpr ctx t) (← parseExpr ctx e))
  | .list [.atom "get", e] => do some (.get (← parseExpr ctx e))
  | .list (.atom "tick" :: d :: es) => do some (.tick (← toNat? d) (← es.mapM (parseExpr ctx)))
  | .list (.atom "wait" :: els) => do some (.wait (← els.mapM (parseElem ctx)))
  | _ => none

def parseUser (ctx : Ctx) : Sexp → Option ProcKind
  | .list [.atom "ucomb", .list ins, o, e] => do
      some (.userComb (← nats? ins) (← toNat? o) (← parseExpr ctx e))
  | .list [.atom "usync", d, .list ins, o, e] => do
      some (.userSync (← toNat? d) (← nats? ins) (← toNat? o) (← parseExpr ctx e))
  | .list [.atom "ulate", n, .list ins, o, e] => do
      some (.userLateComb (← toNat? n) (← nats? ins) (← toNat? o) (← parseExpr ctx e))
  | .list [.atom "usyncp", d, .list ins, o, lo, hi, e] => do
      some (.userSyncPart (← toNat? d) (← nats? ins) (← toNat? o) (← toNat? lo) (← toNat? hi) (← parseExpr ctx e))
  | _ => none

def showObs (os : List Obs) : String :=
  ";".intercalate (os.map fun o => s!"{o.1}:{o.2.1}:{",".intercalate (o.2.2.map toString)}")

def showRun (s : EState) : String := showObs s.obs.reverse ++ "|" ++ showEnv s.curr

def handleC08 : Sexp → Option String
  | .list [.atom "c08", c, ini, rl, .list (.atom "doms" :: ds), .list (.atom "actual" :: ps),
      .list (.atom "leaves" :: ls), .list (.atom "user" :: us), .list (.atom "clocks" :: cs),
      .list (.atom "tbs" :: ts), mode] => do
      let ctx ← parseCtx c
      let inits ← match ini with | .list (.atom _ :: vs) => ints? vs | _ => none
      let resetLess ← parseBools rl
      let doms ← ds.mapM parseDomCfg
      let actual ← ps.mapM fun p => match p with
        | .list [.atom "proc", d, s] => do some ({ dom := ← parseDom d, body := ← parseStmt ctx s } : Proc)
        | _ => none
      let leaves ← ls.mapM fun l => match l with
        | .list [.atom "leaf", d, .list (.atom "wrappers" :: ws), .list (.atom "prog" :: items)] => do
            some ({ dom := ← parseDom d, prog := ← items.mapM (parseProg ctx), wrappers := ← ws.mapM (parseWrapper ctx) } : Leaf)
        | _ => none
      let users ← us.mapM (parseUser ctx)
      let clocks ← cs.mapM fun x => match x with
        | .list [s, ph, pe] => do some (ProcKind.clock (← toNat? s) (← toNat? ph) (← toNat? pe))
        | _ => none
      let scripts ← ts.mapM fun t => match t with
        | .list (.atom "tb" :: ops) => ops.mapM (parseOp ctx)
        | _ => none
      let D : Design := { ctx, inits, resetLess, doms, procs := actual }
      let kinds := circuitKinds D ++ users ++ clocks
      let fuel := 100000
      let go := fun (sched : Sched) =>
        let S := mkSim D kinds scripts sched 1000
        let s0 := initState D kinds scripts
        match mode with
        | .list [.atom "until", n] => do some (runUntil S (← toNat? n) fuel s0)
        | _ => some (run S fuel s0)
      let m ← go (identitySched kinds.length ctx.length)
      let r ← go (reverseSched kinds.length ctx.length)
      let DS : SpecDesign := { ctx, inits, resetLess, doms, leaves }
      let deadline ← match mode with
        | .list [.atom "until", n] => (toNat? n).map some
        | _ => some none
      let specOut := match EngineSpec.specRun DS users clocks scripts deadline fuel with
        | some (obs, env) => showObs obs ++ "|" ++ showEnv env
        | none => "na"
      some s!"c08 model={showRun m} rev={showRun r} spec={specOut}"
  | _ => none

def handleClock : Sexp → Option String
  | .list [.atom "clock", ph, pe, n] => do
      let phase ← toNat? ph
      let period ← toNat? pe
      let n ← toNat? n
      -- the model: a simulation with one clock process on a 1-bit signal and a testbench that
      -- waits for `n` changes of it
      let ctx : Ctx := [Shape.u 1]
      let D : Design := { ctx, inits := [0], resetLess := [false], doms := [], procs := [] }
      let kinds := [ProcKind.clock 0 phase period]
      let scripts := [List.replicate n (TbOp.wait [.changed 0])]
      let S := mkSim D kinds scripts (identitySched 1 1) 1000
      let s := run S (4 * n + 8) (initState D kinds scripts)
      let times := s.obs.reverse.map (·.2.1)
      let spec := (List.range n).map (EngineSpec.toggleTime phase period)
      some s!"clock model={",".intercalate (times.map toString)} spec={",".intercalate (spec.map toString)}"
  | .list [.atom "halfdefault", pe] => do
      some s!"half spec={EngineSpec.halfRounded (← toNat? pe)}"
  | .list [.atom "delay", now, n] => do
      some s!"delay spec={EngineSpec.delayResume (← toNat? now) (← toNat? n)}"
  | _ => none

end C08IO

def handlers : List (Sexp → Option String) := [C08IO.handleC08, C08IO.handleClock]

def respond (line : String) : String :=
  match Sexp.parse line with
  | none => "error parse"
  | some sx =>
    match handlers.findSome? (fun h => h sx) with
    | some r => r
    | none => "error bad-request"

partial def loop (h : IO.FS.Stream) (out : IO.FS.Stream) : IO Unit := do
  let line ← h.getLine
  if line.isEmpty then return ()
  out.putStrLn (respond line)
  loop h out

def main : IO Unit := do
  let stdin ← IO.getStdin
  let stdout ← IO.getStdout
  loop stdin stdout
  stdout.flush
