import AmaranthVerif.Driver.StmtIO
import AmaranthVerif.Model.Fsm

/-! # Programs with FSMs on the line protocol (unverified I/O glue)

`(fproc ctx (inits …) (resetless …) <dom> (rst none|<int>) (seq <stmt>*) (fprog item*) (at (env …) (conf (<reg> <name>)*))*)`

* `<stmt>*`: the statements amaranth built for the domain (`frag.statements[dom]`);
* `item*`: the program *as written*: `(= dom lhs rhs)`, `(if (cond item*)* (else item*))`,
  `(sw test ((upat*) item*)* (default item*))`, `(next S)`, `(ongoing S)`,
  `(fsm <reg> <dom> (init [S]) (og (S <sig>)*) entry*)` with entries `(state S item*)` and `(ongoing S)`;
* per step the state and the *name* of the state every FSM is in (as `fsm.decoding` of the real FSM object says).

Answer: `fproc struct=<same|differs> ok=<0|1> inits=<0|1> ; model=… lowered=… spec=… next=<reg>:<S>,… agree=<0|1> ; …`

* `struct`: the Model's lowering (`lowerProgram` → `lowerList`) against the statements amaranth built, both pruned of
  empty blocks;
* `model`: the real statements executed by the process model; `lowered`: the Model's lowering executed;
* `spec`, `next`: the Spec's step (`fsmSpecStep` / `fsmSpecEdge`) on the program as written: signal values and the
  name of the next state of every FSM (in `FProg.listFsms` order; `?` = in none of its states);
* `ok`: `FProg.listOk` (the DSL accepts the program; the registers have the model's width); `inits`: every register's
  initial value is the model's `fsmInitCode`;
* `agree`: the names sent are what the Model's `decode` reads from the registers.
-/

namespace Amaranth
open Sexp

def atomName : Sexp → Option String
  | .atom s => some s
  | _ => none

partial def parseFProg (ctx : Ctx) : Sexp → Option FProg
  | .list [.atom "=", .atom d, l, r] => do some (.assign d (← parseExpr ctx l) (← parseExpr ctx r))
  | .list (.atom "if" :: rest) => do
      let brs := rest.filter fun b => match b with | .list (.atom "else" :: _) => false | _ => true
      let els := rest.filterMap fun b => match b with | .list (.atom "else" :: body) => some body | _ => none
      let branches ← brs.mapM fun b =>
        match b with
        | .list (c :: body) => do some (← parseExpr ctx c, ← body.mapM (parseFProg ctx))
        | _ => none
      let e ← match els with
        | [] => some []
        | body :: _ => body.mapM (parseFProg ctx)
      some (.ifs branches e)
  | .list (.atom "sw" :: t :: cases) => do
      let te ← parseExpr ctx t
      let cs ← cases.mapM fun c =>
        match c with
        | .list (.atom "default" :: body) => do some (none, ← body.mapM (parseFProg ctx))
        | .list (.list ps :: body) => do some (some (← ps.mapM parseUPat), ← body.mapM (parseFProg ctx))
        | _ => none
      some (.switch te cs)
  | .list [.atom "next", .atom s] => some (.next s)
  | .list [.atom "ongoing", .atom s] => some (.watch s)
  | .list (.atom "fsm" :: reg :: .atom dom :: .list (.atom "init" :: ini) :: .list (.atom "og" :: ogs) :: entries) => do
      let r ← toNat? reg
      let init ← match ini with
        | [] => some none
        | [.atom s] => some (some s)
        | _ => none
      let og ← ogs.mapM fun o => match o with
        | .list [.atom s, k] => do some (s, ← toNat? k)
        | _ => none
      let es ← entries.mapM fun e => match e with
        | .list (.atom "state" :: .atom s :: body) => do some (s, some (← body.mapM (parseFProg ctx)))
        | .list [.atom "ongoing", .atom s] => some (s, none)
        | _ => none
      some (.fsm ⟨r, dom, init, og⟩ es)
  | _ => none

def parseConf : Sexp → Option (List (Nat × String))
  | .list (.atom "conf" :: xs) => xs.mapM fun x => match x with
      | .list [r, .atom s] => do some (← toNat? r, s)
      | _ => none
  | _ => none

def confOf (l : List (Nat × String)) : Conf := fun r => l.lookup r

def showConf (σ : Conf) (fs : List (FsmHdr × FsmEntries)) : String :=
  ",".intercalate (fs.map fun f => s!"{f.1.reg}:{(σ f.1.reg).getD "?"}")

def stmtText (s : Stmt) : String := ((reprStr s).replace "\n" " ")

deriving instance BEq for Expr
deriving instance BEq for Stmt

def handleFProc : Sexp → Option String
  | .list (.atom "fproc" :: c :: ini :: rl :: .atom dom :: .list [.atom "rst", r] :: st :: .list (.atom "fprog" :: items) :: steps) => do
      let ctx ← parseCtx c
      let inits ← match ini with | .list (.atom _ :: vs) => ints? vs | _ => none
      let resetLess ← parseBools rl
      let stmt ← parseStmt ctx st
      let prog ← items.mapM (parseFProg ctx)
      let rst ← match r with | .atom "none" => some none | x => (toInt? x).map some
      let ss ← steps.mapM fun s => match s with
        | .list [.atom "at", e, cf] => do some (← parseEnv e, ← parseConf cf)
        | _ => none
      let lw := lowerList ctx (lowerProgram dom prog)
      let fs := FProg.listFsms prog
      let same := stmt.prune == lw.prune
      let ok := FProg.listOk ctx none prog
      let iok := fs.all fun f => Env.val inits f.1.reg == (fsmInitCode f.1 f.2 : Int)
      let rstOn := match rst with | some r => r % 2 == 1 | none => false
      let outs := ss.map fun (env, cf) =>
        let σ := confOf cf
        let m := if dom == "comb" then combProcess ctx inits stmt env else syncProcess ctx inits resetLess rst stmt env
        let ml := if dom == "comb" then combProcess ctx inits lw env else syncProcess ctx inits resetLess rst lw env
        let sp := if dom == "comb" then fsmSpecStep ctx prog dom env inits σ
                  else fsmSpecEdge ctx inits resetLess prog dom rstOn env σ
        let agree := fs.all fun f => σ f.1.reg == decode (encOrder f.2) (env.val f.1.reg)
        s!"model={showEnv m} lowered={showEnv ml} spec={showEnv sp.1} next={showConf sp.2 fs} agree={if agree then 1 else 0}"
      some (s!"fproc struct={if same then "same" else "differs"} ok={if ok then 1 else 0} inits={if iok then 1 else 0} ; " ++ " ; ".intercalate outs)
  | _ => none

/-- `(flower ctx <dom> (fprog item*))` → the Model's statements for the domain (pruned), as text; and what the FSMs
are: `reg:width:init:order` -/
def handleFLower : Sexp → Option String
  | .list [.atom "flower", c, .atom dom, .list (.atom "fprog" :: items)] => do
      let ctx ← parseCtx c
      let prog ← items.mapM (parseFProg ctx)
      let lw := lowerList ctx (lowerProgram dom prog)
      let fs := FProg.listFsms prog
      let ftxt := " ".intercalate (fs.map fun f =>
        s!"fsm={f.1.reg}:{fsmWidth (encOrder f.2).length}:{fsmInitCode f.1 f.2}:{",".intercalate (encOrder f.2)}")
      some s!"flower {ftxt} stmts={stmtText lw.prune}"
  | .list [.atom "fprune", c, st] => do
      let ctx ← parseCtx c
      let stmt ← parseStmt ctx st
      some s!"fprune stmts={stmtText stmt.prune}"
  | _ => none

end Amaranth
