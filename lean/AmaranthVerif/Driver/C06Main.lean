import AmaranthVerif.Model.Sexp
import AmaranthVerif.Model.CombCycle
import AmaranthVerif.Model.Drivers
import AmaranthVerif.Spec.Cycle
import AmaranthVerif.Spec.Drivers

/-!
# Driver `amodel_c06` (unverified I/O glue)

```
(drives (d <sig> <lo> <hi> <src>)*)            src ::= (l <module> <domain>) | inst | mem | iobuf | top
   → check=<ok|conflict> early=<0|1> spec=<0|1> specearly=<0|1>
(graph (cells (<f|b> <width> (<net>*) ((<net>*)*))*) (roots <net>*) (<cyc|topo> <net>*))   net ::= (<cell> <bit>)
   → model=<ok|cycle|assert|fuel> len=<n> unfixed=<ok|cycle|assert|fuel> spec=<cyclic|acyclic|badcert> covers=<0|1>
```
-/

open Amaranth Amaranth.Sexp

namespace C06Driver
open Amaranth.Drivers Amaranth.CombCycle

def parseSrc : Sexp → Option Src
  | .list [.atom "l", m, d] => do some (.logic (← toNat? m) (← toNat? d))
  | .atom "inst" => some .inst
  | .atom "mem" => some .mem
  | .atom "iobuf" => some .iobuf
  | .atom "top" => some .topIn
  | _ => none

def parseDrive : Sexp → Option Drive
  | .list [.atom "d", s, lo, hi, src] => do
      some ⟨← toNat? s, ← toNat? lo, ← toNat? hi, ← parseSrc src⟩
  | _ => none

def parseNet : Sexp → Option Net
  | .list [c, b] => do some (← toNat? c, ← toNat? b)
  | _ => none

def parseNets : Sexp → Option (List Net)
  | .list xs => xs.mapM parseNet
  | _ => none

def parseCell : Sexp → Option Cell
  | .list [.atom k, w, ins, .list bits] => do
      let fused ← (if k == "f" then some true else if k == "b" then some false else none)
      some { fused := fused, width := ← toNat? w, ins := ← parseNets ins, bitIns := ← bits.mapM parseNets }
  | _ => none

def b01 (b : Bool) : String := if b then "1" else "0"

def showOutcome : CombCycle.Outcome → String
  | .ok => "ok"
  | .cycle _ => "cycle"
  | .assertFail => "assert"
  | .outOfFuel => "fuel"

def handle : Sexp → Option String
  | .list (.atom "drives" :: ds) => do
      let drives ← ds.mapM parseDrive
      let chk := match check drives with | .ok => "ok" | .conflict => "conflict"
      some s!"check={chk} early={b01 (early drives)} spec={b01 (conflictB drives)} specearly={b01 (sameModuleB drives)}"
  | .list [.atom "graph", .list (.atom "cells" :: cs), .list (.atom "roots" :: rs), .list (.atom kind :: cert)] => do
      let cells ← cs.mapM parseCell
      let roots ← rs.mapM parseNet
      let certNets ← cert.mapM parseNet
      let g : Graph := { cells := cells, roots := roots }
      let m := detect g
      let len := match m with | .cycle p => p.length | _ => 0
      let spec :=
        if kind == "cyc" then (if cycleCertB g certNets then "cyclic" else "badcert")
        else if kind == "topo" then (if topoCertB g certNets then "acyclic" else "badcert")
        else "badcert"
      some s!"model={showOutcome m} len={len} unfixed={showOutcome (detectUnfixed g)} spec={spec} covers={b01 (decide g.Covers)}"
  | _ => none

def respond (line : String) : String :=
  match Sexp.parse line with
  | none => "error parse"
  | some sx =>
    match handle sx with
    | some r => r
    | none => "error bad-request"

end C06Driver

partial def loop (h : IO.FS.Stream) (out : IO.FS.Stream) : IO Unit := do
  let line ← h.getLine
  if line.isEmpty then return ()
  out.putStrLn (C06Driver.respond line)
  loop h out

def main : IO Unit := do
  let stdin ← IO.getStdin
  let stdout ← IO.getStdout
  loop stdin stdout
  stdout.flush
