import AmaranthVerif.Driver.StmtIO
import AmaranthVerif.Model.Domain
import AmaranthVerif.Spec.DomainSpec
import AmaranthVerif.Model.DomainRename
import AmaranthVerif.Spec.DomainRenameMap

/-! # Reading designs with clock domains and wrappers (unverified I/O glue) -/

namespace Amaranth
open Sexp

def parseDom : Sexp → Option (Option Nat)
  | .atom "comb" => some none
  | x => (toNat? x).map some

def parseDomCfg : Sexp → Option DomCfg
  | .list [c, .atom e, r, .atom a] => do
      let rst ← match r with | .atom "none" => some none | x => (toNat? x).map some
      some { clk := ← toNat? c, posedge := e == "pos", rst := rst, async := a == "1" }
  | _ => none

def parseWrapper (ctx : Ctx) : Sexp → Option Wrapper
  | .list [.atom "reset", d, c] => do some (.reset (← toNat? d) (← parseExpr ctx c))
  | .list [.atom "enable", d, c] => do some (.enable (← toNat? d) (← parseExpr ctx c))
  | .list [.atom "rename", s, t] => do some (.rename (← toNat? s) (← toNat? t))
  | _ => none

def applyWrapperM (D : Design) (p : Proc) : Wrapper → Proc
  | .reset d c => resetInserter D d c p
  | .enable d c => enableInserter D d c p
  | .rename s t => domainRenamer s t p

/-- a wrapper as written in a request: one of the Spec's wrappers, or `(renamemap (src dst)*)` = a `DomainRenamer`
whose map has several entries. The Model looks the domain up once (`domainRenamerMap`); the Spec gets the stack of
one-entry renamings through private names `fresh`, `fresh + 1`, … (`renameMapWrappers`; `fresh` = number of domains
of the design; a map naming a domain `≥ fresh` is refused). `Properties/C03.lean`: `rename_map_is_simultaneous`,
`rename_map_model_eq`. -/
def parseWrapperIO (ctx : Ctx) (fresh : Nat) : Sexp → Option (Sum Wrapper (List (Nat × Nat)))
  | .list (.atom "renamemap" :: es) => do
      let m ← es.mapM fun e => match e with
        | .list [s, t] => do
            let s ← toNat? s
            let t ← toNat? t
            if s < fresh && t < fresh then some (s, t) else none
        | _ => none
      some (.inr m)
  | x => (parseWrapper ctx x).map .inl

def applyWrapperIO (D : Design) (p : Proc) : Sum Wrapper (List (Nat × Nat)) → Proc
  | .inl w => applyWrapperM D p w
  | .inr m => domainRenamerMap m p

def specWrappers (fresh : Nat) (ws : List (Sum Wrapper (List (Nat × Nat)))) : List Wrapper :=
  ws.flatMap fun w => match w with
    | .inl w => [w]
    | .inr m => renameMapWrappers fresh m

/-- `(c03 ctx (inits …) (resetless …) (doms cfg*) (actual (proc dom stmt)*) (leaves (leaf dom (wrappers w*) (prog item*))*) (step (env …) (chg (i v)*))*)`
with `w` = `(reset dom ctl)` | `(enable dom ctl)` | `(rename src dst)` | `(renamemap (src dst)*)`, innermost first -/
def handleC03 : Sexp → Option String
  | .list (.atom "c03" :: c :: ini :: rl :: .list (.atom "doms" :: ds) :: .list (.atom "actual" :: ps) ::
      .list (.atom "leaves" :: ls) :: steps) => do
      let ctx ← parseCtx c
      let inits ← match ini with | .list (.atom _ :: vs) => ints? vs | _ => none
      let resetLess ← parseBools rl
      let doms ← ds.mapM parseDomCfg
      let actual ← ps.mapM fun p => match p with
        | .list [.atom "proc", d, s] => do some ({ dom := ← parseDom d, body := ← parseStmt ctx s } : Proc)
        | _ => none
      let fresh := doms.length
      let leavesIO ← ls.mapM fun l => match l with
        | .list [.atom "leaf", d, .list (.atom "wrappers" :: ws), .list (.atom "prog" :: items)] => do
            let ws ← ws.mapM (parseWrapperIO ctx fresh)
            some (({ dom := ← parseDom d, prog := ← items.mapM (parseProg ctx), wrappers := specWrappers fresh ws } : Leaf), ws)
        | _ => none
      let leaves := leavesIO.map (·.1)
      let DA : Design := { ctx, inits, resetLess, doms, procs := actual }
      let D0 : Design := { ctx, inits, resetLess, doms, procs := [] }
      let modelProcs := leavesIO.map fun (l, ws) =>
        ws.foldl (applyWrapperIO D0) ({ dom := l.dom, body := lowerList ctx l.prog } : Proc)
      let DM : Design := { DA with procs := modelProcs }
      let DS : SpecDesign := { ctx, inits, resetLess, doms, leaves }
      let outs ← steps.mapM fun st => match st with
        | .list [.atom "step", e, .list (.atom "chg" :: cs)] => do
            let env ← parseEnv e
            let chg ← cs.mapM fun x => match x with
              | .list [i, v] => do some (← toNat? i, ← toInt? v)
              | _ => none
            some s!"actual={showEnv (eventStep DA env chg)} model={showEnv (eventStep DM env chg)} spec={showEnv (specEvent DS env chg)}"
        | _ => none
      some ("c03 ; " ++ " ; ".intercalate outs)
  | _ => none

end Amaranth
