import AmaranthVerif.Model.Sexp
import AmaranthVerif.Model.IoBuf
import AmaranthVerif.Spec.IoBuf

/-!
# Driver `amodel_c18` (unverified I/O glue): one S-expression request per line, one response line

Requests (`<bits>`: string of `0`/`1`, index 0 first, `-` for the empty string; `<dir>`: `i|o|io`;
`<key>`: `(i k)`, `(s a b c)` with `n` for an omitted part, or `bad`; a wire is printed `leaf.bit`):

* `(pexpr se|diff|sim <e>)`, `<e> ::= (leaf <dir> <id> <width> <bits>) | (leafb <dir> <id> <width> 0|1)
  | (get <e> <key>) | (add <e> <e>) | (inv <e>)`
  → `model=<port> spec=<port>`, `<port> ::= ok|<dir>|<bits>|<lane>|<lane>|<lane>` or `err:<Kind>`
* `(bufnew <bdir> <pdir> <idom 0|1> <odom 0|1>)` → `model=ok|err:ValueError spec=…`
* `(buf <bdir> <bits> (<o> <oe> <pi>)*)` → `model=<obs>;<obs>… spec=…`, `<obs> ::= portO,portOe,i` (`-` if absent)
* `(ff <bdir> <bits> (<o> <oe> <pi> <tickI> <tickO>)*)` → the same, one observation after each event
* `(real se|diff (<ff 0|1> <bdir> <e> (<o> <oe> <pad>)*)*)` → `model=<net> spec=<net>`,
  `<net> ::= ok#<cell>&<cell>…#<ivals>&<ivals>…` or `err:<Kind>`; cells sorted;
  `<cell> ::= nets|dir|o,oe/o,oe…`; `<ivals> ::= v/v…`
  model: `Buffer.single` / `Buffer.diff`, for `ff = 1` `FFBuffer.realRun` from power-on (an event without an edge,
  then an edge of both domains, inputs held); spec: `Spec.padClaims`, `Spec.padBuffer`, `Spec.ffRunPads`
-/

open Amaranth Amaranth.IoBuf

abbrev Wire := Nat × Nat

def showErr : Err → String
  | .valueError => "err:ValueError"
  | .indexError => "err:IndexError"
  | .typeError => "err:TypeError"
  | .driverConflict => "err:DriverConflict"

def showDir : Dir → String
  | .i => "i" | .o => "o" | .io => "io"

def parseDir : Sexp → Option Dir
  | .atom "i" => some .i | .atom "o" => some .o | .atom "io" => some .io | _ => none

def parseBits : Sexp → Option (List Bool)
  | .atom "-" => some []
  | .atom s => s.toList.mapM fun c => if c == '0' then some false else if c == '1' then some true else none
  | _ => none

def showBits (bs : List Bool) : String :=
  if bs.isEmpty then "-" else String.ofList (bs.map fun b => if b then '1' else '0')

def parseOptInt : Sexp → Option (Option Int)
  | .atom "n" => some none
  | .atom s => s.toInt?.map some
  | _ => none

def parseKey : Sexp → Option Key
  | .list [.atom "i", k] => do some (.idx (← Sexp.toInt? k))
  | .list [.atom "s", a, b, c] => do some (.slc (← parseOptInt a) (← parseOptInt b) (← parseOptInt c))
  | .atom "bad" => some .bad
  | _ => none

def showWire (w : Wire) : String := s!"{w.1}.{w.2}"
def showLane : Option (List Wire) → String
  | none => "-"
  | some ws => "[" ++ ",".intercalate (ws.map showWire) ++ "]"

def wiresOf (id width : Nat) : List Wire := (List.range width).map fun b => (id, b)

/-! ### port expressions -/

/-- expressions with unevaluated leaves; leaves go through the constructors -/
inductive LExpr
  | leaf (dir : Dir) (id width : Nat) (inv : InvArg)
  | get (e : LExpr) (k : Key)
  | add (a b : LExpr)
  | inv (a : LExpr)

partial def parseLExpr : Sexp → Option LExpr
  | .list [.atom "leaf", d, id, w, bits] => do
      some (.leaf (← parseDir d) (← Sexp.toNat? id) (← Sexp.toNat? w) (.each (← parseBits bits)))
  | .list [.atom "leafb", d, id, w, b] => do
      some (.leaf (← parseDir d) (← Sexp.toNat? id) (← Sexp.toNat? w) (.all ((← Sexp.toNat? b) != 0)))
  | .list [.atom "get", e, k] => do some (.get (← parseLExpr e) (← parseKey k))
  | .list [.atom "add", a, b] => do some (.add (← parseLExpr a) (← parseLExpr b))
  | .list [.atom "inv", a] => do some (.inv (← parseLExpr a))
  | _ => none

/-- evaluate with the model: leaves through `mk`, then `PExpr.eval` step by step (same order as Python) -/
def LExpr.evalM {P : Type} (ops : Ops P) (mk : Dir → Nat → Nat → InvArg → R P) : LExpr → R P
  | .leaf d id w iv => mk d id w iv
  | .get e k => do (PExpr.getItem (.leaf (← e.evalM ops mk)) k).eval ops
  | .add a b => do
      let x ← a.evalM ops mk
      let y ← b.evalM ops mk
      (PExpr.add (.leaf x) (.leaf y)).eval ops
  | .inv a => do (PExpr.invert (.leaf (← a.evalM ops mk))).eval ops

def mkSE (d : Dir) (id w : Nat) (inv : InvArg) : R (SEPort Wire) := SEPort.new (wiresOf id w) inv d
def mkDiff (d : Dir) (id w : Nat) (inv : InvArg) : R (DiffPort Wire) := DiffPort.new (wiresOf id w) (wiresOf id w) inv d
def mkSim (d : Dir) (id w : Nat) (inv : InvArg) : R (SimPort Wire) :=
  SimPort.new d (wiresOf id w) (wiresOf id w) (wiresOf id w) inv w

def showSE (p : SEPort Wire) : String :=
  s!"ok|{showDir p.dir}|{showBits p.inv}|{showLane (some p.io)}|-|-"
def showDiff (p : DiffPort Wire) : String :=
  s!"ok|{showDir p.dir}|{showBits p.inv}|{showLane (some p.p)}|{showLane (some p.n)}|-"
def showSim (p : SimPort Wire) : String :=
  s!"ok|{showDir p.dir}|{showBits p.inv}|{showLane p.i}|{showLane p.o}|{showLane p.oe}"

def showR {α : Type} (f : α → String) : R α → String
  | .ok x => f x
  | .error e => showErr e

/-! spec side: wires as the Spec sees them -/

def specSE (p : SEPort Wire) : Spec.Port Wire := ⟨p.dir, p.io.zip p.inv⟩
def specDiff (p : DiffPort Wire) : Spec.Port (Wire × Wire) := ⟨p.dir, (p.p.zip p.n).zip p.inv⟩

abbrev SimWire := (Option Wire × Option Wire) × Option Wire
def optLane (n : Nat) : Option (List Wire) → List (Option Wire)
  | none => List.replicate n none
  | some xs => xs.map some
def specSim (p : SimPort Wire) : Spec.Port SimWire :=
  ⟨p.dir, (((optLane p.inv.length p.i).zip (optLane p.inv.length p.o)).zip (optLane p.inv.length p.oe)).zip p.inv⟩
def simRestrict (d : Dir) : SimWire → SimWire :=
  Prod.map (Prod.map (fun x => if d = .o then none else x) (fun x => if d = .i then none else x))
    (fun x => if d = .i then none else x)

def LExpr.evalS {ω : Type} (restrict : Dir → ω → ω) (mk : Dir → Nat → Nat → InvArg → R (Spec.Port ω)) :
    LExpr → R (Spec.Port ω)
  | .leaf d id w iv => mk d id w iv
  | .get e k => do Spec.getItem (← e.evalS restrict mk) k
  | .add a b => do
      let x ← a.evalS restrict mk
      let y ← b.evalS restrict mk
      Spec.add restrict x y
  | .inv a => do Spec.invert (← a.evalS restrict mk)

def showWireQ : Option Wire → String
  | none => "?"
  | some w => showWire w

def showSpecSE (p : Spec.Port Wire) : String :=
  s!"ok|{showDir p.dir}|{showBits (p.wires.map (·.2))}|{showLane (some (p.wires.map (·.1)))}|-|-"
def showSpecDiff (p : Spec.Port (Wire × Wire)) : String :=
  s!"ok|{showDir p.dir}|{showBits (p.wires.map (·.2))}|{showLane (some (p.wires.map (·.1.1)))}|{showLane (some (p.wires.map (·.1.2)))}|-"
def showSpecSim (p : Spec.Port SimWire) : String :=
  let lane (present : Bool) (f : SimWire → Option Wire) : String :=
    if present then "[" ++ ",".intercalate (p.wires.map fun w => showWireQ (f w.1)) ++ "]" else "-"
  s!"ok|{showDir p.dir}|{showBits (p.wires.map (·.2))}|{lane (p.dir != .o) (·.1.1)}|{lane (p.dir != .i) (·.1.2)}|{lane (p.dir != .i) (·.2)}"

def handlePExpr (kind : String) (e : LExpr) : Option String :=
  match kind with
  | "se" =>
    let m := showR showSE (e.evalM SEPort.ops mkSE)
    let s := showR showSpecSE (e.evalS (fun _ w => w) fun d id w inv => (mkSE d id w inv).map specSE)
    some s!"model={m} spec={s}"
  | "diff" =>
    let m := showR showDiff (e.evalM DiffPort.ops mkDiff)
    let s := showR showSpecDiff (e.evalS (fun _ w => w) fun d id w inv => (mkDiff d id w inv).map specDiff)
    some s!"model={m} spec={s}"
  | "sim" =>
    let m := showR showSim (e.evalM SimPort.ops mkSim)
    let s := showR showSpecSim (e.evalS simRestrict fun d id w inv => (mkSim d id w inv).map specSim)
    some s!"model={m} spec={s}"
  | _ => none

/-! ### buffers -/

def showOptNat : Option Nat → String
  | none => "-"
  | some v => toString v

def showOut (b : BufOut) : String := s!"{showOptNat b.portO},{showOptNat b.portOe},{showOptNat b.i}"
def showObs (b : Spec.Obs) : String :=
  s!"{showOptNat (b.portO.map Spec.ofBits)},{showOptNat (b.portOe.map Spec.ofBits)},{showOptNat (b.i.map Spec.ofBits)}"

def parseVec3 : Sexp → Option (Nat × Bool × Nat)
  | .list [o, oe, pi] => do some (← Sexp.toNat? o, (← Sexp.toNat? oe) != 0, ← Sexp.toNat? pi)
  | _ => none

def parseEv : Sexp → Option FFEvent
  | .list [o, oe, pi, ti, to] => do
      some ⟨⟨← Sexp.toNat? o, (← Sexp.toNat? oe) != 0, ← Sexp.toNat? pi⟩, (← Sexp.toNat? ti) != 0, (← Sexp.toNat? to) != 0⟩
  | _ => none

def handleBuf (bdir : Dir) (inv : List Bool) (vs : List (Nat × Bool × Nat)) : String :=
  let w := inv.length
  let m := vs.map fun (o, oe, pi) => showOut (Buffer.comb bdir inv ⟨o, oe, pi⟩)
  let s := vs.map fun (o, oe, pi) => showObs (Spec.buffer bdir inv (Spec.toBits w o) oe (Spec.toBits w pi))
  s!"model={";".intercalate m} spec={";".intercalate s}"

def handleFF (bdir : Dir) (inv : List Bool) (es : List FFEvent) : String :=
  let w := inv.length
  let m := (FFBuffer.run bdir inv FFState.init es).map showOut
  let z := List.replicate w false
  let allTick := es.all fun e => e.tickI && e.tickO
  let s :=
    if allTick then
      (Spec.ffTrace bdir inv z false (es.map fun e => (Spec.toBits w e.x.o, e.x.oe, Spec.toBits w e.x.pi))).map showObs
    else (Spec.ffRun bdir inv z false z (es.map fun e =>
      ⟨Spec.toBits w e.x.o, e.x.oe, Spec.toBits w e.x.pi, e.tickI, e.tickO⟩)).map showObs
  s!"model={";".intercalate m} spec={";".intercalate s}"

/-! ### real ports -/

structure RealBufReq where
  ff : Bool
  bdir : Dir
  e : LExpr
  vecs : List (Nat × Bool × Nat)

def parseRealBuf : Sexp → Option RealBufReq
  | .list (ff :: bd :: e :: vs) => do
      some ⟨(← Sexp.toNat? ff) != 0, ← parseDir bd, ← parseLExpr e, ← vs.mapM parseVec3⟩
  | _ => none

def showNets (ws : List Wire) : String := "[" ++ ",".intercalate (ws.map showWire) ++ "]"

def sortStrings (xs : List String) : List String := (xs.toArray.qsort (· < ·)).toList

/-- diff leaves for the netlist stream: the two halves are different I/O ports: ids `2*id` and `2*id+1` -/
def mkDiffReal (d : Dir) (id w : Nat) (inv : InvArg) : R (DiffPort Wire) :=
  DiffPort.new (wiresOf (2 * id) w) (wiresOf (2 * id + 1) w) inv d

/-- cells and `i` of one buffer for all its vectors. A registered buffer (`FFBuffer.realRun`, from power-on) is
observed twice per vector: after an event without any clock edge (registers still 0) and after one edge of both
domains with the inputs held. -/
def realOne (bdir : Dir) (cellsOf : Amaranth.IoBuf.RealBuf Wire) (ff : Bool)
    (vecs : List (Nat × Bool × Nat)) : List (List Wire × Dir × List String) × List String :=
  let obs : List (List (IOBCell Wire) × Option Nat) :=
    vecs.flatMap fun (o, oe, pad) =>
      if ff then
        FFBuffer.realRun cellsOf bdir FFState.init [⟨⟨o, oe, pad⟩, false, false⟩, ⟨⟨o, oe, pad⟩, true, true⟩]
      else [cellsOf o oe pad]
  let shape := (cellsOf 0 false 0).1
  let cells := (List.range shape.length).map fun k =>
    let c := shape.getD k ⟨[], .i, none, none⟩
    (c.port, c.dir, obs.map fun ob =>
      let ck := ob.1.getD k ⟨[], .i, none, none⟩
      s!"{showOptNat ck.o},{showOptNat (ck.oe.map fun b => if b then 1 else 0)}")
  (cells, obs.map fun ob => showOptNat ob.2)

/-- a Spec observation as the per-cell `(o, oe)` list: the (true-half) pads, then the complementary half if it is
driven -/
def padCells (ob : Spec.PadObs) : List (Option Nat × Option Bool) :=
  (ob.padO.map Spec.ofBits, ob.oe) :: (match ob.padN with
    | some n => [(some (Spec.ofBits n), ob.oe)]
    | none => [])

structure RealItem where
  b : RealBufReq
  shape : List (List Wire × Dir)
  cellsOf : Amaranth.IoBuf.RealBuf Wire
  inv : List Bool
  /-- the pads of the port: (single-ended pads or true half, complementary half) -/
  pads : List Wire × List Wire

def cellStr (c : List Wire × Dir × List String) : String :=
  s!"{showNets c.1}|{showDir c.2.1}|{"/".intercalate c.2.2}"

def evalReal (kind : String) (b : RealBufReq) : R RealItem :=
  match kind with
  | "se" => do
      let p ← b.e.evalM SEPort.ops mkSE
      let _ ← bufferNew b.bdir p.dir
      let f := fun o oe pad => Buffer.single b.bdir p o oe pad
      pure ⟨b, (f 0 false 0).1.map (fun c => (c.port, c.dir)), f, p.inv, (p.io, [])⟩
  | _ => do
      let p ← b.e.evalM DiffPort.ops mkDiffReal
      let _ ← bufferNew b.bdir p.dir
      let f := fun o oe pad => Buffer.diff b.bdir p o oe pad
      pure ⟨b, (f 0 false 0).1.map (fun c => (c.port, c.dir)), f, p.inv, (p.p, p.n)⟩

/-- the same with the Spec's sentences: which pads carry a cell (`Spec.padClaims`), what is on them
(`Spec.padBuffer`), and for a registered buffer `Spec.ffRunPads` from power-on -/
def specOne (isDiff : Bool) (it : RealItem) : List String × List String :=
  let b := it.b
  let w := it.inv.length
  let z := Spec.toBits w 0
  let obs : List Spec.PadObs :=
    b.vecs.flatMap fun (o, oe, pad) =>
      if b.ff then
        Spec.ffRunPads isDiff b.bdir it.inv z false z
          [⟨Spec.toBits w o, oe, Spec.toBits w pad, false, false⟩, ⟨Spec.toBits w o, oe, Spec.toBits w pad, true, true⟩]
      else [Spec.padBuffer isDiff b.bdir it.inv (Spec.toBits w o) oe (Spec.toBits w pad)]
  let claims := Spec.padClaims b.bdir it.pads.1 (if isDiff then some it.pads.2 else none)
  let cells := (List.range claims.length).map fun k =>
    let c := claims.getD k ([], .i)
    cellStr (c.1, c.2, obs.map fun ob =>
      let ck := (padCells ob).getD k (none, none)
      s!"{showOptNat ck.1},{showOptNat (ck.2.map fun b => if b then 1 else 0)}")
  (cells, obs.map fun ob => showOptNat (ob.i.map Spec.ofBits))

def showNet (per : List (List String × List String)) : String :=
  let cells := sortStrings (per.flatMap (·.1))
  let ivals := per.map fun p => if p.2.isEmpty then "-" else "/".intercalate p.2
  s!"ok#{"&".intercalate cells}#{"&".intercalate ivals}"

def handleReal (kind : String) (bufs : List RealBufReq) : Option String :=
  match bufs.mapM (evalReal kind) with
  | .error e => some s!"model={showErr e} spec={showErr e}"
  | .ok items =>
    let claims : List (List Wire) := items.flatMap fun (it : RealItem) => it.shape.map (·.1)
    let mOut :=
      match emitAll [] claims with
      | .error e => showErr e
      | .ok _ =>
        showNet (items.map fun (it : RealItem) =>
          let r := realOne it.b.bdir it.cellsOf it.b.ff it.b.vecs
          (r.1.map cellStr, r.2))
    let sClaims : List (List Wire) := items.flatMap fun (it : RealItem) =>
      (Spec.padClaims it.b.bdir it.pads.1 (if kind != "se" then some it.pads.2 else none)).map (·.1)
    let sOut :=
      if !Spec.accepts sClaims then showErr .driverConflict
      else showNet (items.map (specOne (kind != "se")))
    some s!"model={mOut} spec={sOut}"

/-! ### dispatch -/

def respond (line : String) : String :=
  match Sexp.parse line with
  | none => "error parse"
  | some sx =>
    let r : Option String :=
      match sx with
      | .list [.atom "pexpr", .atom kind, e] => do handlePExpr kind (← parseLExpr e)
      | .list [.atom "bufnew", bd, pd, idom, odom] => do
          let bdir ← parseDir bd
          let pdir ← parseDir pd
          let i := (← Sexp.toNat? idom) != 0
          let o := (← Sexp.toNat? odom) != 0
          let m := showR (fun _ => "ok") (ffBufferNew bdir pdir i o)
          let s := if Spec.legal bdir pdir && Spec.domainsOk bdir i o then "ok" else showErr .valueError
          some s!"model={m} spec={s}"
      | .list (.atom "buf" :: bd :: bits :: vs) => do
          some (handleBuf (← parseDir bd) (← parseBits bits) (← vs.mapM parseVec3))
      | .list (.atom "ff" :: bd :: bits :: es) => do
          some (handleFF (← parseDir bd) (← parseBits bits) (← es.mapM parseEv))
      | .list (.atom "real" :: .atom kind :: bs) => do handleReal kind (← bs.mapM parseRealBuf)
      | _ => none
    r.getD "error bad-request"

partial def loop (h : IO.FS.Stream) (out : IO.FS.Stream) : IO Unit := do
  let line ← h.getLine
  if line.isEmpty then return ()
  out.putStrLn (respond line)
  loop h out

def main : IO Unit := do
  let stdin ← IO.getStdin
  let stdout ← IO.getStdout
  loop stdin stdout
  stdout.flush
