import AmaranthVerif.Model.Sexp
import AmaranthVerif.Model.Res
import AmaranthVerif.Spec.Res

/-!
# Driver `amodel_c19` (unverified I/O glue)

One request per line, one JSON response per line.

* `(hist TABLE REQ*)` — run the request history on the repaired model, the specification and the leaky
  model; report the outcome and the state after every request.
* `(names (connectors CONN*) FUEL NAME*)` — `mapNames` (`FUEL` = `auto` for `connectors.length + 1`).

```
TABLE = (table (resources RES*) (connectors CONN*))
RES   = (res NUMBER NODE)
NODE  = (leaf NAME ATTRS PHYS DIR INVERT CLOCK) | (group NAME ATTRS NODE*)
ATTRS = (attrs (KEY VALUE) | (KEY) ...)                  -- (KEY) is a None value
PHYS  = (pins PCONN NAME*) | (diff PCONN (p NAME*) (n NAME*))
PCONN = none | (conn NAME NUMBER)
CONN  = (connector NAME NUMBER (dict (K V)*) | (seq TOK*) PCONN)
REQ   = (req NAME NUMBER DIROPT XDROPT)
OPT   = none | (val X) | (dict (KEY OPT)*)               -- X: i o oe io - bad / an integer or bad
```
-/

open Amaranth Amaranth.Res

namespace C19IO

def str? : Sexp → Option String
  | .atom s => some s
  | _ => none

def strs? (xs : List Sexp) : Option (List String) := xs.mapM str?

def parsePConn : Sexp → Option (Option (String × String))
  | .atom "none" => some none
  | .list [.atom "conn", .atom a, .atom b] => some (some (a, b))
  | _ => none

def parseDir : Sexp → Option Dir
  | .atom "i" => some .i | .atom "o" => some .o | .atom "oe" => some .oe | .atom "io" => some .io
  | _ => none

def parseAttrs : Sexp → Option AttrsDecl
  | .list (.atom "attrs" :: kvs) => kvs.mapM fun kv =>
      match kv with
      | .list [.atom k, .atom v] => some (k, some v)
      | .list [.atom k] => some (k, none)
      | _ => none
  | _ => none

def parsePhys : Sexp → Option Phys
  | .list (.atom "pins" :: c :: names) => do
      some (.single ⟨← strs? names, ← parsePConn c⟩)
  | .list [.atom "diff", c, .list (.atom "p" :: ps), .list (.atom "n" :: ns)] => do
      let cc ← parsePConn c
      some (.diff ⟨← strs? ps, cc⟩ ⟨← strs? ns, cc⟩)
  | _ => none

partial def parseNode : Sexp → Option Node
  | .list [.atom "leaf", .atom name, attrs, phys, dir, .atom inv, clock] => do
      let ck ← match clock with
        | .atom "none" => some none
        | c => (Sexp.toNat? c).map some
      some (.leaf name (← parseAttrs attrs) (← parsePhys phys) (← parseDir dir) (inv == "1") ck)
  | .list (.atom "group" :: .atom name :: attrs :: subs) => do
      some (.group name (← parseAttrs attrs) (← subs.mapM parseNode))
  | _ => none

def parseRes : Sexp → Option Resource
  | .list [.atom "res", n, node] => do some ⟨← Sexp.toInt? n, ← parseNode node⟩
  | _ => none

def parseKV : Sexp → Option (String × String)
  | .list [.atom k, .atom v] => some (k, v)
  | _ => none

def parseConnIO : Sexp → Option ConnIO
  | .list (.atom "dict" :: kvs) => (kvs.mapM parseKV).map ConnIO.dict
  | .list (.atom "seq" :: toks) => (strs? toks).map ConnIO.seq
  | _ => none

def parseConn : Sexp → Option Connector
  | .list [.atom "connector", .atom name, .atom number, io, c] => do
      some ⟨name, number, ← parseConnIO io, ← parsePConn c⟩
  | _ => none

def parseConns : Sexp → Option (List Connector)
  | .list (.atom "connectors" :: cs) => cs.mapM parseConn
  | _ => none

def parseTable : Sexp → Option Table
  | .list [.atom "table", .list (.atom "resources" :: rs), cs] => do
      some ⟨← rs.mapM parseRes, ← parseConns cs⟩
  | _ => none

def parseRDir : Sexp → Option RDir
  | .atom "-" => some .dash
  | .atom "bad" => some .bad
  | s => (parseDir s).map RDir.dir

def parseXdrV : Sexp → Option XdrV
  | .atom "bad" => some none
  | s => (Sexp.toInt? s).map some

partial def parseOpt {α : Type} (pv : Sexp → Option α) : Sexp → Option (Opt α)
  | .atom "none" => some .none
  | .list [.atom "val", v] => (pv v).map Opt.val
  | .list (.atom "dict" :: kvs) => do
      let l ← kvs.mapM fun kv => match kv with
        | .list [.atom k, o] => (parseOpt pv o).map fun x => (k, x)
        | _ => none
      some (.dict l)
  | _ => none

def parseReq : Sexp → Option Req
  | .list [.atom "req", .atom name, n, d, x] => do
      some ⟨(name, ← Sexp.toInt? n), ← parseOpt parseRDir d, ← parseOpt parseXdrV x⟩
  | _ => none

/-! JSON output -/

def jstr (s : String) : String :=
  "\"" ++ String.join (s.toList.map fun c =>
    if c == '"' then "\\\"" else if c == '\\' then "\\\\" else if c == '\n' then "\\n" else c.toString) ++ "\""

def jlist (xs : List String) : String := "[" ++ ",".intercalate xs ++ "]"
def jstrs (xs : List String) : String := jlist (xs.map jstr)
def jobj (kvs : List (String × String)) : String :=
  "{" ++ ",".intercalate (kvs.map fun (k, v) => jstr k ++ ":" ++ v) ++ "}"
def jpairs (xs : List (String × String)) : String := jlist (xs.map fun (a, b) => jlist [jstr a, jstr b])

def errName : Err → String
  | .resource => "ResourceError" | .name => "NameError" | .type => "TypeError" | .value => "ValueError"
  | .index => "IndexError" | .runtime => "RuntimeError" | .fuel => "fuel"

def dirName : Dir → String
  | .i => "i" | .o => "o" | .oe => "oe" | .io => "io"

def portDirName : PortDir → String
  | .input => "i" | .output => "o" | .bidir => "io"

def jio (io : IOPortM) : String :=
  jobj [("name", jstr io.name), ("pins", jstrs io.pins), ("attrs", jpairs io.attrs),
        ("bits", jpairs (constraintBitsOf io)), ("spec_bits", jpairs (Spec.linesFor io.name io.pins))]

def jgrant (g : LeafGrant) : String :=
  jobj [("path", jstrs g.path),
        ("kind", jstr (match g.port with | .single _ => "single" | .diff .. => "diff")),
        ("ios", jlist (g.port.ios.map jio)),
        ("invert", if g.invert then "true" else "false"),
        ("direction", jstr (portDirName g.direction)),
        ("pin", match g.pin with
          | none => "null"
          | some (d, x) => jlist [jstr (dirName d), toString x])]

def jkey (k : Key) : String := jlist [jstr k.1, toString k.2]

def jstate (s : State) : String :=
  jobj [("requested", jlist (s.requested.map jkey)),
        ("phys", jlist (s.physReqd.map fun (p, path) => jlist [jstr p, jstrs path])),
        ("pins", jlist (s.pins.map jgrant)),
        ("clocks", jlist (s.ioClocks.map fun (n, p) => jlist [jstr n, toString p]))]

def joutcome : Outcome → String
  | .granted gs => jobj [("ok", "true"), ("grants", jlist (gs.map jgrant))]
  | .refused e => jobj [("ok", "false"), ("err", jstr (errName e))]

def jverdict : Spec.Verdict → String
  | .granted pins => jobj [("verdict", jstr "granted"), ("pins", jstrs pins)]
  | .refused => jobj [("verdict", jstr "refused")]

def jalloc (a : Spec.Alloc Key) : String :=
  jobj [("granted", jlist (a.granted.map jkey)), ("owned", jstrs a.owned)]

/-- the three machines side by side -/
def runHist (t : Table) (reqs : List Req) : String :=
  let rec go (s : State) (sl : State) (a : Spec.Alloc Key) (rs : List Req) (acc : List String) : List String :=
    match rs with
    | [] => acc.reverse
    | r :: rs =>
      let (s', o) := step t s r
      let (sl', ol) := stepLeaky t sl r
      let w := wanted t r
      let (a', v) := Spec.step a r.key w
      let line := jobj [("model", joutcome o), ("state", jstate s'),
                        ("spec", jverdict v), ("alloc", jalloc a'),
                        ("wanted", match w with | none => "null" | some ps => jstrs ps),
                        ("leaky", joutcome ol), ("leaky_state", jstate sl')]
      go s' sl' a' rs (line :: acc)
  jobj [("conn_pins", jpairs t.mapping), ("fuel", toString t.fuel),
        ("steps", jlist (go State.init State.init Spec.Alloc.empty reqs []))]

def handle : Sexp → Option String
  | .list (.atom "hist" :: t :: reqs) => do
      let t ← parseTable t
      let rs ← reqs.mapM parseReq
      some (runHist t rs)
  | .list (.atom "names" :: cs :: fuel :: names) => do
      let cs ← parseConns cs
      let f ← match fuel with
        | .atom "auto" => some (cs.length + 1)
        | x => Sexp.toNat? x
      let ns ← strs? names
      let m := connPins cs
      some (jobj [("conn_pins", jpairs m),
                  ("result", match mapNames m f ns with
                    | .ok ys => jobj [("ok", "true"), ("names", jstrs ys)]
                    | .error e => jobj [("ok", "false"), ("err", jstr (errName e))])])
  | _ => none

end C19IO

def respond (line : String) : String :=
  match Sexp.parse line with
  | none => "error parse"
  | some sx =>
    match C19IO.handle sx with
    | some r => r
    | none => "error bad-request"

partial def loop (h : IO.FS.Stream) (out : IO.FS.Stream) : IO Unit := do
  let line ← h.getLine
  if line.isEmpty then return ()
  out.putStrLn (respond line)
  loop h out

def main : IO Unit := do
  let stdin ← IO.getStdin
  let stdout ← IO.getStdout
  loop stdin stdout
  stdout.flush
