import AmaranthVerif.Model.Sexp
import AmaranthVerif.Model.Rtlil.Parse
import AmaranthVerif.Model.Rtlil.Print
import AmaranthVerif.Model.Rtlil.WF
import AmaranthVerif.Model.Rtlil.SrcAttr

/-! # Driver `amodel_c07` (unverified I/O glue around Model/Rtlil/{Parse,WF})

Request (one per line):
`(wf "<rtlil text, \n-escaped>" (foreign (inst TYPE (params (KIND NAME CONST) …) (attrs (NAME CONST) …)
     (ports (NAME i|o|io WIDTH WIRE|-) …)) …))`
with `KIND ∈ plain|signed|real`, `CONST = (int N) | (bits "01…") | (str "…")`.

Response (TAB separated `key=value`):
* `parse=error  line=<n>  msg=<text>`
* `parse=ok  roundtrip=<ok|FAIL>  wf=ok  modules=<n> wires=<n> cells=<n> procs=<n> instances=<ok|type:count>`
* `parse=ok  roundtrip=…  wf=fail  module=<name>  clause=<clause>  item=<what inside the module>`
`roundtrip`: `parse (print d) = d` for the parsed document (the printer of `Model/Rtlil/Print`).
The expected attributes are given in full, one literally named `\src` included: `checkAll` (`Model/Rtlil/SrcAttr`)
runs `check` against the expected instances without their `\src` attributes and then the clause
`given-src-attribute-kept`.
-/

open Amaranth Amaranth.Rtlil

def showBit : Bit → Char
  | .b0 => '0' | .b1 => '1' | .x => 'x' | .dc => '-'

def showChunk : Chunk → String
  | .const bs => s!"{bs.length}'" ++ String.ofList (bs.map showBit)
  | .wire n => n
  | .slice n hi lo => s!"{n} [{hi}:{lo}]"
  | .bit n i => s!"{n} [{i}]"

def showSpec (s : SigSpec) : String :=
  match s with
  | .one c => showChunk c
  | .cat cs => "{ " ++ " ".intercalate (cs.map showChunk) ++ " }"

/-- which item of the module makes the clause fail (diagnostics only) -/
def diag (d : Doc) (exp : List Foreign) (m : Module) : Clause → String
  | .dupModule => "module"
  | .dupName =>
    let rec go : List String → String
      | [] => "?"
      | a :: rest => if rest.contains a then s!"name {a}" else go rest
    go m.names
  | .unknownWire =>
    match m.chunks.find? (fun c => !m.chunkRefOkB c) with
    | some c => s!"sigspec {showChunk c}"
    | none => "?"
  | .sliceBounds =>
    match m.chunks.find? (fun c => !m.chunkInBoundsB c) with
    | some c => s!"sigspec {showChunk c}"
    | none => "?"
  | .connectWidth =>
    match m.connects.find? (fun lr => !m.sameWidthB lr.1 lr.2) with
    | some lr => s!"connect {showSpec lr.1} {showSpec lr.2}"
    | none => "?"
  | .assignWidth =>
    match m.procs.find? (fun p => !p.body.assigns.all (fun lr => m.sameWidthB lr.1 lr.2)) with
    | some p =>
      match p.body.assigns.find? (fun lr => !m.sameWidthB lr.1 lr.2) with
      | some lr => s!"process {p.name}: assign {showSpec lr.1} {showSpec lr.2}"
      | none => s!"process {p.name}"
    | none => "?"
  | .caseWidth =>
    match m.procs.find? (fun p => !p.body.switches.all m.caseWidthB) with
    | some p => s!"process {p.name}"
    | none => "?"
  | .portIds => s!"port ids {m.portIds}"
  | .cell =>
    match m.cells.find? (fun c => !cellOkB d exp m c) with
    | some c =>
      let why :=
        if isInternal c.type then
          match cellSig c with
          | none => "unknown internal cell type or missing width parameter"
          | some sig =>
            if !(connsMatchB m c sig.ports) then "ports/widths/directions"
            else if !(memRefOkB m c) then "memory reference"
            else "parameters"
        else match d.module? c.type with
          | some m' => if !(connsMatchB m c (m'.ports.map (·.sig))) then "submodule ports/widths/directions" else "submodule parameters"
          | none => match exp.find? (·.type == c.type) with
            | none => "no such module and no such expected instance"
            | some f =>
              if c.params != f.params then "foreign parameters differ"
              else if c.designAttrs != f.attrs then "foreign attributes differ"
              else "foreign connections differ"
      s!"cell {c.type} {c.name}: {why}"
    | none => "?"
  | .driverCount =>
    match m.wires.find? (fun w => !w.isInout && !(List.range w.width).all (fun i => driverCount d exp m w.name i == 1)) with
    | some w =>
      match (List.range w.width).find? (fun i => driverCount d exp m w.name i != 1) with
      | some i => s!"wire {w.name} bit {i} has {driverCount d exp m w.name i} drivers"
      | none => s!"wire {w.name}"
    | none => "?"

def showConst : Const → String
  | .bits bs => s!"{bs.length}'" ++ String.ofList (bs.map showBit)
  | .int n => s!"{n}"
  | .str t => "\"" ++ t ++ "\""

/-- which cell fails the clause `given-src-attribute-kept` (diagnostics only) -/
def diagSrc (exp : List Foreign) (m : Module) : String :=
  match m.cells.find? (fun c => !cellSrcKeptB exp c) with
  | some c =>
    let given := match exp.find? (fun f => f.type == c.type) with
      | some f => " ".intercalate (f.srcAttrs.map (fun (a : Attr) => showConst a.value))
      | none => "?"
    s!"cell {c.type} {c.name}: attribute \\src is " ++ " ".intercalate (c.srcAttrs.map (fun (a : Attr) => showConst a.value)) ++
      s!", given {given}"
  | none => "?"

/-! ### expected foreign instances -/

def parseDirS : Sexp → Option Dir
  | .atom "i" => some .input
  | .atom "o" => some .output
  | .atom "io" => some .inout
  | _ => none

def bitsOfString (s : String) : Option (List Bit) := s.toList.mapM bit?

def parseConstS : Sexp → Option Const
  | .list [.atom "int", n] => (Sexp.toInt? n).map .int
  | .list [.atom "bits", .atom s] => (bitsOfString s).map .bits
  | .list [.atom "str", .atom s] => some (.str s)
  | _ => none

def parseKindS : Sexp → Option PKind
  | .atom "plain" => some .plain
  | .atom "signed" => some .signed
  | .atom "real" => some .real
  | _ => none

def parseParamS : Sexp → Option Param
  | .list [k, .atom n, c] => do some ⟨← parseKindS k, n, ← parseConstS c⟩
  | _ => none

def parseAttrS : Sexp → Option Attr
  | .list [.atom n, c] => do some ⟨n, ← parseConstS c⟩
  | _ => none

def parsePortS : Sexp → Option FPort
  | .list [.atom n, dir, w, .atom wire] => do
    some ⟨n, ← parseDirS dir, ← Sexp.toNat? w, if wire == "-" then none else some wire⟩
  | _ => none

def parseForeignS : Sexp → Option Foreign
  | .list [.atom "inst", .atom ty, .list (.atom "params" :: ps), .list (.atom "attrs" :: as), .list (.atom "ports" :: qs)] => do
    some ⟨ty, ← ps.mapM parseParamS, ← as.mapM parseAttrS, ← qs.mapM parsePortS⟩
  | _ => none

def tab (xs : List String) : String := "\t".intercalate xs

def clean (s : String) : String := String.ofList (s.toList.map (fun c => if c == '\t' || c == '\n' then ' ' else c))

def handleWf (text : String) (exp : List Foreign) : String :=
  match parse text with
  | .error (ln, msg) => tab ["parse=error", s!"line={ln}", s!"msg={msg}"]
  | .ok d =>
    let rt := match parse (render (printDoc d)) with
      | .ok d' => if d' == d then "ok" else "FAIL"
      | .error _ => "FAIL"
    match checkAll d exp with
    | .ok () =>
      let wires := (d.map (·.wires.length)).foldl (· + ·) 0
      let cells := (d.map (·.cells.length)).foldl (· + ·) 0
      let procs := (d.map (·.procs.length)).foldl (· + ·) 0
      -- every expected foreign instance occurs exactly once as a cell (outside `WellFormed`, which only judges the
      -- cells that are present: a dropped instance would otherwise pass)
      let occ := fun (f : Foreign) => (d.map (fun m => (m.cells.filter (·.type == f.type)).length)).foldl (· + ·) 0
      let bad := exp.filter (fun f => occ f != 1)
      let inst := match bad with
        | [] => "ok"
        | f :: _ => s!"{clean f.type}:{occ f}"
      tab ["parse=ok", s!"roundtrip={rt}", "wf=ok", s!"modules={d.length}", s!"wires={wires}", s!"cells={cells}", s!"procs={procs}",
           s!"instances={inst}"]
    | .error (mn, cln) =>
      let item := match d.find? (·.name == mn) with
        | some m =>
          match check d (exp.map Foreign.design) with
          | .error (_, cl) => diag d (exp.map Foreign.design) m cl
          | .ok () => diagSrc exp m
        | none => "module names"
      tab ["parse=ok", s!"roundtrip={rt}", "wf=fail", s!"module={mn}", s!"clause={cln}", s!"item={clean item}"]

def handle (line : String) : String :=
  match Sexp.parse line with
  | some (.list [.atom "wf", .atom text, .list (.atom "foreign" :: fs)]) =>
    match fs.mapM parseForeignS with
    | some exp => handleWf text exp
    | none => "error=bad-foreign"
  | _ => "error=bad-request"

partial def loop (stdin : IO.FS.Stream) (stdout : IO.FS.Stream) : IO Unit := do
  let line ← stdin.getLine
  if line.isEmpty then return
  stdout.putStrLn (handle (String.ofList (line.toList.filter (· != '\n'))))
  loop stdin stdout

def main : IO Unit := do
  let stdin ← IO.getStdin
  let stdout ← IO.getStdout
  loop stdin stdout
  stdout.flush
