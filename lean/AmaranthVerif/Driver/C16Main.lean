import AmaranthVerif.Model.Sexp
import AmaranthVerif.Model.Crc
import AmaranthVerif.Spec.Williams

/-!
# Driver `amodel_c16` (unverified I/O glue)

One request per line, one response per line.  `<params>` is
`<crc_width> <poly> <init> <refin 0|1> <refout 0|1> <xorout>`.

* `(algo <crc_width> <poly> <init> <xorout> <data_width>)` — constructor checks; an atom that is not an
  integer stands for a non-integer argument; the four `Algorithm` arguments are converted and checked
  before `data_width` is looked at.  → `model=ok|ValueError|TypeError`
* `(compute <params> <data_width> <word>*)` → `model=<int> spec=<int>` (`model=ValueError spec=undefined`
  when a word is outside `0 .. 2^data_width-1`)
* `(residue <params>)` → `model=<int> spec=<int>`; the spec value is the output-reflected Williams
  register after the empty message followed by its own CRC
* `(mat <params> <data_width>)` → `f=<row>,… g=<row>,…` (row `j` as the integer whose bit `i` is `[j][i]`)
* `(trailer <params> <data_width> <crc>)` → `words=<w>,…`
* `(hw <params> <data_width> (<start> <valid> <data>)*)` → per cycle, comma separated:
  `crc=` and `match=` of the model after the clock edge, `spec=` the Williams CRC of the words since
  the last start, `specmatch=` `1`/`0` whether those words are a message followed by its own CRC
  (`-` when crc_width is not a multiple of data_width or fewer words than a trailer were seen).
-/

open Amaranth Amaranth.Williams Amaranth.Crc

def commaSep (xs : List String) : String := ",".intercalate xs

def bit? : Sexp → Option Bool
  | .atom "0" => some false
  | .atom "1" => some true
  | _ => none

def params? : List Sexp → Option Params
  | [cw, poly, init, ri, ro, xo] => do
      some { width := ← Sexp.toNat? cw, poly := ← Sexp.toNat? poly, init := ← Sexp.toNat? init,
             refin := ← bit? ri, refout := ← bit? ro, xorout := ← Sexp.toNat? xo }
  | _ => none

def cycle? : Sexp → Option Cycle
  | .list [s, v, d] => do some { start := ← bit? s, valid := ← bit? v, data := ← Sexp.toNat? d }
  | _ => none

def specMatch (p : Params) (dw : Nat) (ws : List Nat) : String :=
  if p.width % dw != 0 || ws.length < p.width / dw then "-"
  else if isCodeword p dw ws then "1" else "0"

/-- after every cycle: model outputs, and the spec read off the prefix of cycles seen so far -/
def runHw (h : Processor) : List Cycle → List Cycle → Nat → List (Nat × Bool × Nat × String)
  | [], _, _ => []
  | c :: cs, seen, reg =>
    let reg' := hwStep h reg c.start c.valid c.data
    let seen' := seen ++ [c]
    let ws := wordsSince seen'
    (hwCrc h reg', hwMatch h reg', Williams.crc h.p h.dw ws, specMatch h.p h.dw ws) :: runHw h cs seen' reg'

def respond (line : String) : String :=
  match Sexp.parse line with
  | some (.list [.atom "algo", cw, poly, init, xo, dw]) =>
    match [cw, poly, init, xo].mapM Sexp.toInt? with
    | some [cw, poly, init, xo] =>
      match constructAlgorithm cw poly init xo with
      | some e => s!"model={e}"
      | none =>
        match constructParameters (Sexp.toInt? dw) with
        | some e => s!"model={e}"
        | none => "model=ok"
    | _ => "model=TypeError"
  | some (.list (.atom "compute" :: cw :: poly :: init :: ri :: ro :: xo :: dw :: ws)) =>
    match params? [cw, poly, init, ri, ro, xo], Sexp.toNat? dw, Sexp.ints? ws with
    | some p, some dw, some ws =>
      match computeChecked p dw ws with
      | some v => s!"model={v} spec={Williams.crc p dw (ws.map Int.toNat)}"
      | none => "model=ValueError spec=undefined"
    | _, _, _ => "error args"
  | some (.list (.atom "residue" :: ps)) =>
    match params? ps with
    | some p =>
      let reg := Williams.register p p.width (trailer p p.width (Williams.crc p p.width []))
      let spec := if p.refout then reflect reg p.width else reg
      s!"model={residue p} spec={spec}"
    | none => "error args"
  | some (.list [.atom "mat", cw, poly, init, ri, ro, xo, dw]) =>
    match params? [cw, poly, init, ri, ro, xo], Sexp.toNat? dw with
    | some p, some dw =>
      s!"f={commaSep ((matF p dw).map toString)} g={commaSep ((matG p dw).map toString)}"
    | _, _ => "error args"
  | some (.list [.atom "trailer", cw, poly, init, ri, ro, xo, dw, c]) =>
    match params? [cw, poly, init, ri, ro, xo], Sexp.toNat? dw, Sexp.toNat? c with
    | some p, some dw, some c => s!"words={commaSep ((trailer p dw c).map toString)}"
    | _, _, _ => "error args"
  | some (.list (.atom "hw" :: cw :: poly :: init :: ri :: ro :: xo :: dw :: cs)) =>
    match params? [cw, poly, init, ri, ro, xo], Sexp.toNat? dw, cs.mapM cycle? with
    | some p, some dw, some cs =>
      let h := Processor.create p dw
      let out := runHw h cs [] p.init
      let b (x : Bool) : String := if x then "1" else "0"
      s!"crc={commaSep (out.map fun o => toString o.1)} match={commaSep (out.map fun o => b o.2.1)} " ++
      s!"spec={commaSep (out.map fun o => toString o.2.2.1)} specmatch={commaSep (out.map fun o => o.2.2.2)}"
    | _, _, _ => "error args"
  | some _ => "error bad-request"
  | none => "error parse"

partial def loop (h : IO.FS.Stream) (out : IO.FS.Stream) : IO Unit := do
  let line ← h.getLine
  if line.isEmpty then return ()
  out.putStrLn (respond line)
  loop h out

def main : IO Unit := do
  let stdin ← IO.getStdin
  let stdout ← IO.getStdout
  loop stdin stdout
  stdout.flush
