import AmaranthVerif.Model.Sexp
import AmaranthVerif.Model.Data
import AmaranthVerif.Spec.Data

/-!
# Driver `amodel_c15`: one request per line, one response per line (unverified I/O glue)

Syntax
* shape      `(u w)` | `(s w)`
* enum       `(enum <shape> (m₁ m₂ …) e|strict|conform|eject|keep)`
* fieldshape `(p <shape>)` | `<enum>` | `<layout>`
* layout     `(struct (k fs)…)` | `(union (k fs)…)` | `(array fs n)` | `(flex size (k fs off)…)`
* key        `n:<name>` | `i:<index>`
* init       `none` | `(int v)` | `(map (k init)…)` | `(bits raw)`

Requests
* `(layout L)`                     placement: model (`__iter__`, `__getitem__`, `size`) and spec
* `(read L raw…)`                  every field of `from_bits(raw)` / of a view over `raw`
* `(readpath L (k…) raw…)`         nested field along a path
* `(const L init)`                 `L.const(init).as_bits()`
* `(write L (k…) (raw v)…)`        assignment to the field at the path
* `(enum E const|frombits v…)`     enumeration round trip
* `(flag E and|or|xor|inv (a b)…)` flag operators
-/

open Amaranth Amaranth.Data

namespace C15Driver

def parseShape : Sexp → Option Shape
  | .list [.atom "u", w] => do some ⟨← Sexp.toNat? w, false⟩
  | .list [.atom "s", w] => do some ⟨← Sexp.toNat? w, true⟩
  | _ => none

def parseKey : Sexp → Option Key
  | .atom s =>
    if s.startsWith "n:" then some (.name (s.drop 2).toString)
    else if s.startsWith "i:" then (s.drop 2).toString.toNat?.map Key.idx
    else none
  | _ => none

def parseBoundary : String → Option (Option Boundary)
  | "e" => some none
  | "strict" => some (some .strict)
  | "conform" => some (some .conform)
  | "eject" => some (some .eject)
  | "keep" => some (some .keep)
  | _ => none

def parseEnum : Sexp → Option EnumTy
  | .list [.atom "enum", sh, .list ms, .atom b] => do
      some ⟨← parseShape sh, ← Sexp.ints? ms, ← parseBoundary b⟩
  | _ => none

mutual
partial def parseFieldShape : Sexp → Option FieldShape
  | .list [.atom "p", sh] => do some (.plain (← parseShape sh))
  | sx@(.list (.atom "enum" :: _)) => do some (.enum (← parseEnum sx))
  | sx => do some (.layout (← parseLayout sx))
partial def parseMembers (withOff : Bool) : List Sexp → Option Members
  | [] => some .nil
  | .list [k, fs] :: rest =>
      if withOff then none else do
        some (.cons (← parseKey k) (← parseFieldShape fs) 0 (← parseMembers withOff rest))
  | .list [k, fs, off] :: rest =>
      if withOff then do
        some (.cons (← parseKey k) (← parseFieldShape fs) (← Sexp.toNat? off) (← parseMembers withOff rest))
      else none
  | _ => none
partial def parseLayout : Sexp → Option Layout
  | .list (.atom "struct" :: ms) => do some (.struct (← parseMembers false ms))
  | .list (.atom "union" :: ms) => do some (.union (← parseMembers false ms))
  | .list [.atom "array", fs, n] => do some (.array (← parseFieldShape fs) (← Sexp.toNat? n))
  | .list (.atom "flex" :: sz :: fs) => do some (.flex (← Sexp.toNat? sz) (← parseMembers true fs))
  | _ => none
end

mutual
partial def parseInit : Sexp → Option Init
  | .atom "none" => some .none
  | .list [.atom "int", v] => do some (.int (← Sexp.toInt? v))
  | .list [.atom "bits", v] => do some (.bits (← Sexp.toNat? v))
  | .list (.atom "map" :: kvs) => do some (.map (← parseInits kvs))
  | _ => none
partial def parseInits : List Sexp → Option Inits
  | [] => some .nil
  | .list [k, v] :: rest => do some (.cons (← parseKey k) (← parseInit v) (← parseInits rest))
  | _ => none
end

def showKey : Key → String
  | .name s => "n:" ++ s
  | .idx i => "i:" ++ toString i

def showLifted : Lifted → String
  | .int v => s!"i{v}"
  | .member v => s!"m{v}"
  | .invalid => "inv"
  | .const _ raw => s!"c{raw}"
  | .typeError => "te"

def showErr : Err → String
  | .typeError => "TypeError"
  | .valueError => "ValueError"
  | .attributeError => "AttributeError"

def showEnumVal : EnumVal → String
  | .member v => s!"m{v}"
  | .ejected v => s!"i{v}"
  | .invalid => "inv"

def showExcept {α : Type} [ToString α] : Except Err α → String
  | .ok v => s!"ok:{v}"
  | .error e => s!"err:{showErr e}"

def commas (xs : List String) : String := if xs.isEmpty then "-" else ",".intercalate xs

/-- the Spec's reading of a field: bit slice, two's-complement reinterpretation, then the lift -/
def specLift (sh : FieldShape) (raw off : Nat) : Lifted :=
  let bits := Spec.sliceBits raw off sh.width
  match sh with
  | .plain s => .int (Spec.reinterpret s bits)
  | .enum e =>
    (e.fromBits (Spec.reinterpret e.shape bits)).lifted
  | .layout l => .const l bits

/-- the Spec's placement of a layout: offsets in declaration order and size -/
def specPlacement : Layout → List Nat × Nat
  | .struct ms =>
    let ws := ms.toList.map fun e => e.2.1.width
    (Spec.structOffsets ws, Spec.structSize ws)
  | .union ms =>
    let ws := ms.toList.map fun e => e.2.1.width
    (Spec.unionOffsets ws, Spec.unionSize ws)
  | .array e n => (Spec.arrayOffsets e.width n, Spec.arraySize e.width n)
  | .flex sz fs => (fs.toList.map fun e => e.2.2, sz)

def handleLayout (l : Layout) : String :=
  let fs := l.fields
  let (soffs, ssize) := specPlacement l
  let iter := fs.map fun (k, f) => s!"{showKey k}:{f.offset}:{f.width}"
  let get := fs.map fun (k, _) => match l.get? k with
    | some f => s!"{f.offset}:{f.width}"
    | none => "none"
  s!"ok={if decide l.Ok then 1 else 0} deep={if l.deepOk then 1 else 0} size={l.size} iter={commas iter} get={commas get} " ++
  s!"ssize={ssize} soffs={commas (soffs.map toString)}"

def handleRead (l : Layout) (raws : List Nat) : String :=
  let fs := l.fields
  let per := raws.map fun raw =>
    let c : DConst := ⟨l, raw⟩
    let mc := fs.map fun (k, _) => match c.get k with | some x => showLifted x | none => "none"
    let mv := fs.map fun (k, _) => match viewGet l raw k with | some x => showLifted x | none => "none"
    let oc := fs.map fun (k, _) => match c.getOld k with | some x => showLifted x | none => "none"
    let ov := fs.map fun (k, _) => match viewGetOld l raw k with | some x => showLifted x | none => "none"
    let sp := fs.map fun (_, f) => showLifted (specLift f.shape raw f.offset)
    let fb := match l.fromBits raw with
      | .ok c => s!"ok:{c.asBits}:{c.asValue}"
      | .error e => s!"err:{showErr e}"
    let law := match l.fromBits raw with
      | .ok c => showExcept (l.const (.bits c.raw))
      | .error e => s!"err:{showErr e}"
    let lawOld := match l.fromBits raw with
      | .ok c => showExcept (l.constOld (.bits c.raw))
      | .error e => s!"err:{showErr e}"
    s!"mc={commas mc} mv={commas mv} oc={commas oc} ov={commas ov} sp={commas sp} fb={fb} law={law} lawold={lawOld}"
  " ; ".intercalate per

def handleReadPath (l : Layout) (path : List Key) (raws : List Nat) : String :=
  match resolve (.layout l) path 0 with
  | none => "error no-such-path"
  | some f =>
    let per := raws.map fun raw =>
      s!"m={showLifted (lift f.shape (evalSlice raw f.offset (f.offset + f.width)))} sp={showLifted (specLift f.shape raw f.offset)}"
    s!"off={f.offset} w={f.width} ; " ++ " ; ".intercalate per

def handleConst (l : Layout) (init : Init) : String :=
  let m := l.const init
  let old := l.constOld init
  let spec : String := match init with
    | .map kvs => match entriesOf l kvs with
        | .ok es => toString (Spec.constBits l.size (es.map fun e => (e.off, e.w, e.v)))
        | .error _ => "-"
    | .none => "0"
    | .bits raw => toString raw
    | .int _ => "-"
  s!"model={showExcept m} old={showExcept old} spec={spec}"

def handleWrite (l : Layout) (path : List Key) (cases : List (Nat × Int)) : String :=
  match resolve (.layout l) path 0 with
  | none => "error no-such-path"
  | some f =>
    let per := cases.map fun (raw, v) =>
      let m := assignBits raw l.size f.offset (f.offset + f.width) v
      let sp := Spec.assigned l.size raw f.offset f.width v
      s!"m={m} sp={sp}"
    s!"off={f.offset} w={f.width} ; " ++ " ; ".intercalate per

/-- Python's `~x` for a value of the class, by boundary (Spec side of the flag clause) -/
def specInvert (e : EnumTy) (a : Nat) : Nat × Bool :=
  let w := e.shape.width
  match e.flag with
  | some .keep => (Spec.complementIn e.allBits (bitLength e.flagMask) a, false)
  | some .eject =>
    if e.flagMask == e.allBits then (Spec.complementIn e.allBits (bitLength e.flagMask) a, false)
    else (Spec.complementIn (2 ^ w - 1) w a, true)   -- ejected: the plain integer `~a`, modulo 2^w
  | _ => (Spec.complementIn e.singlesMask w a, false)

def handleFlag (e : EnumTy) (op : String) (cases : List (Nat × Nat)) : Option String := do
  let w := e.shape.width
  let per ← cases.mapM fun (a, b) =>
    match op with
    | "and" => some s!"m={flagAnd e a b} sp={Spec.flagAnd w a b} v={if e.valid (flagAnd e a b : Nat) then 1 else 0}"
    | "or" => some s!"m={flagOr e a b} sp={Spec.flagOr w a b} v={if e.valid (flagOr e a b : Nat) then 1 else 0}"
    | "xor" => some s!"m={flagXor e a b} sp={Spec.flagXor w a b} v={if e.valid (flagXor e a b : Nat) then 1 else 0}"
    | "inv" =>
      let (sp, ej) := specInvert e a
      some s!"m={flagInvert e a} sp={sp} ej={if ej then 1 else 0} v={if e.valid (flagInvert e a : Nat) then 1 else 0}"
    | _ => none
  some (s!"mask={e.flagMask} singles={e.singlesMask} allbits={e.allBits} wf={if decide e.WF then 1 else 0} ; " ++
    " ; ".intercalate per)

def pairNatInt : Sexp → Option (Nat × Int)
  | .list [a, b] => do some (← Sexp.toNat? a, ← Sexp.toInt? b)
  | _ => none

def pairNatNat : Sexp → Option (Nat × Nat)
  | .list [a, b] => do some (← Sexp.toNat? a, ← Sexp.toNat? b)
  | _ => none

def handle : Sexp → Option String
  | .list [.atom "layout", l] => do some (handleLayout (← parseLayout l))
  | .list (.atom "read" :: l :: raws) => do some (handleRead (← parseLayout l) (← Sexp.nats? raws))
  | .list (.atom "readpath" :: l :: .list path :: raws) => do
      some (handleReadPath (← parseLayout l) (← path.mapM parseKey) (← Sexp.nats? raws))
  | .list [.atom "const", l, init] => do some (handleConst (← parseLayout l) (← parseInit init))
  | .list (.atom "write" :: l :: .list path :: cases) => do
      some (handleWrite (← parseLayout l) (← path.mapM parseKey) (← cases.mapM pairNatInt))
  | .list (.atom "enum" :: e :: .atom "const" :: vs) => do
      let e ← parseEnum e
      let vs ← Sexp.ints? vs
      some (s!"wf={if decide e.WF then 1 else 0} ; " ++ " ; ".intercalate (vs.map fun v => showExcept (e.const (some v))))
  | .list (.atom "enum" :: e :: .atom "frombits" :: vs) => do
      let e ← parseEnum e
      let vs ← Sexp.ints? vs
      some (s!"wf={if decide e.WF then 1 else 0} ; " ++ " ; ".intercalate (vs.map fun v =>
        let back := match e.fromBits v with
          | .member m => showExcept (e.const (some m))
          | .ejected _ => "-"
          | .invalid => "-"
        s!"{showEnumVal (e.fromBits v)}/{back}"))
  | .list (.atom "flag" :: e :: .atom op :: cases) => do
      handleFlag (← parseEnum e) op (← cases.mapM pairNatNat)
  | _ => none

def respond (line : String) : String :=
  match Sexp.parse line with
  | none => "error parse"
  | some sx =>
    match handle sx with
    | some r => r
    | none => "error bad-request"

partial def loop (h : IO.FS.Stream) (out : IO.FS.Stream) : IO Unit := do
  let line ← h.getLine
  if line.isEmpty then return ()
  out.putStrLn (respond line)
  loop h out

end C15Driver

def main : IO Unit := do
  let stdin ← IO.getStdin
  let stdout ← IO.getStdout
  C15Driver.loop stdin stdout
  stdout.flush
