import AmaranthVerif.Model.ShapeCast
import AmaranthVerif.Spec.ShapeCast
import AmaranthVerif.Driver.ExprIO

/-!
# Driver for C10 (`amodel_c10`): one S-expression request per line, one response line each

* `(range a b k)`            → `range model=W,sg spec=W,sg old=ok|overflow n=LEN mode=all|ends`
* `(enum v*)`                → `enum model=W,sg spec=W,sg`
* `(const v W sg)`           → `const model=V spec=V`
* `(constint v W)`           → `constint model=V,W,sg | model=TypeError`
* `(constauto v)`            → `constauto model=V,W,sg spec=V,W,sg`
* `(constrange v a b k)`     → `constrange model=V,W,sg,warn spec=V`
* `(cast EXPR)`              → `cast model=V,W,sg|TypeError spec=V,W,sg|TypeError`
* `(init ARG SHAPE)`         → `init model=ok,V,warn|TypeError|SyntaxError spec=…`
* `(mem DEPTH SHAPE ARG*)`   → `mem model=ValueError | model=r1;r2;…`
* `(bitsfor n rs)`           → `bitsfor model=N spec=N`
* `(ceillog2 n)`             → `ceillog2 model=N spec=N`
* `(pyops a b n)`            → `pyops and=.. or=.. shr=..`

`ARG ::= none | (int v) | (expr EXPR)`, `SHAPE ::= (shape W u|s) | (range a b k)`.
The Spec side never calls a Model function: narrowest shapes are found by search over
`Spec.rangeElems`/`Spec.enumFootprint`, constants by `Spec.constOf`, trees by `denote`.
-/

open Amaranth Amaranth.Sexp

def sh (s : Shape) : String := s!"{s.width},{if s.signed then "s" else "u"}"

/-- elements handed to the brute-force Spec search: all of them for ranges of at most 4096
elements, otherwise the two extreme elements (every element lies between them). -/
def specRangeElems (a b k : Int) : List Int × String :=
  -- element count by the mathematical definition, not by the model's `rangeLen`
  let d := if k > 0 then b - a else a - b
  let ak := k.natAbs
  if d ≤ 0 then ([], "all")
  else
    let cnt := (d.toNat + ak - 1) / ak
    if cnt ≤ 4096 then (Spec.rangeElems a b k, "all")
    else ([a, a + ((cnt : Int) - 1) * k], "ends")

def specRange (a b k : Int) : Shape × String :=
  let (xs, mode) := specRangeElems a b k
  (Spec.narrowest xs, mode)

def specRangeMem (a b k v : Int) : Bool :=
  let d := if k > 0 then b - a else a - b
  if d ≤ 0 then false
  else if d ≤ 100000 then (Spec.rangeElems a b k).contains v
  else
    -- large ranges: `v = a + i*k` for a natural `i`, strictly before `b`
    let q := (v - a) / k
    decide (0 ≤ q) && decide (a + q * k = v) && (if k > 0 then decide (v < b) else decide (b < v))

def parseShapeArg : Sexp → Option ShapeArg
  | .list [.atom "shape", w, sg] => do some (.shape (← parseShapeSx [w, sg]))
  | .list [.atom "range", a, b, k] => do some (.range (← toInt? a) (← toInt? b) (← toInt? k))
  | _ => none

def parseInitArg : Sexp → Option InitArg
  | .atom "none" => some .none
  | .list [.atom "int", v] => do some (.int (← toInt? v))
  | .list [.atom "expr", e] => do some (.expr (← parseExpr [] e))
  | _ => none

def showWarn : InitWarn → String
  | .none => "none" | .signedToUnsigned => "signed" | .truncated => "trunc"

def showInit : InitResult → String
  | .ok v w => s!"ok,{v},{showWarn w}"
  | .typeError => "TypeError"
  | .syntaxError => "SyntaxError"

def showCast : Option (Int × Shape) → String
  | some (v, s) => s!"{v},{sh s}"
  | none => "TypeError"

/-- Spec of an initial value: evaluate (`denote`), take the constant of the shape (`constOf`),
reject values outside a range shape; warnings are not part of the Spec. -/
def specInit (arg : InitArg) (sa : ShapeArg) : String :=
  let shape : Shape := match sa with
    | .shape s => s
    | .range a b k => (specRange a b k).1
  let val : Option Int := match arg with
    | .none => some 0
    | .int v => some v
    | .expr e => if e.isConstTree then some (denote [] [] e) else none
  match val with
  | none => "TypeError"
  | some v =>
    -- "a range-shaped signal rejects an initial value outside its range": whatever form the value was given in
    let rejected := match sa, arg with
      | .range _ _ _, .none => false
      | .range a b k, _ => !specRangeMem a b k v
      | _, _ => false
    if rejected then "SyntaxError" else s!"ok,{Spec.constOf shape v}"

def handle : Sexp → Option String
  | .list [.atom "range", a, b, k] => do
      let a ← toInt? a; let b ← toInt? b; let k ← toInt? k
      let (sp, mode) := specRange a b k
      let old := match castRangeOld a b k with | some _ => "ok" | none => "overflow"
      some s!"range model={sh (castRange a b k)} spec={sh sp} old={old} n={rangeLen a b k} mode={mode}"
  | .list (.atom "enum" :: vs) => do
      let vs ← ints? vs
      some s!"enum model={sh (castEnum vs)} spec={sh (Spec.narrowest (Spec.enumFootprint vs))}"
  | .list [.atom "const", v, w, sg] => do
      let v ← toInt? v
      let s ← parseShapeSx [w, sg]
      some s!"const model={constNorm v s} spec={Spec.constOf s v}"
  | .list [.atom "constint", v, w] => do
      let v ← toInt? v; let w ← toNat? w
      some s!"constint model={showCast (constInt v w)}"
  | .list [.atom "constauto", v] => do
      let v ← toInt? v
      let (mv, ms) := constAuto v
      some s!"constauto model={mv},{sh ms} spec={v},{sh (Spec.narrowest (Spec.enumFootprint [v]))}"
  | .list [.atom "constrange", v, a, b, k] => do
      let v ← toInt? v; let a ← toInt? a; let b ← toInt? b; let k ← toInt? k
      let (mv, ms, warn) := constRange v a b k
      some s!"constrange model={mv},{sh ms},{if warn then 1 else 0} spec={Spec.constOf (specRange a b k).1 v}"
  | .list [.atom "cast", e] => do
      let ex ← parseExpr [] e
      let spec := if ex.isConstTree then s!"{denote [] [] ex},{sh (shapeOf [] ex)}" else "TypeError"
      some s!"cast model={showCast (constCast ex)} spec={spec}"
  | .list [.atom "init", arg, sa] => do
      let arg ← parseInitArg arg
      let sa ← parseShapeArg sa
      some s!"init model={showInit (initValue arg sa)} spec={specInit arg sa}"
  | .list (.atom "mem" :: depth :: sa :: args) => do
      let depth ← toNat? depth
      let sa ← parseShapeArg sa
      let args ← args.mapM parseInitArg
      match memInit args sa depth with
      | none => some "mem model=ValueError"
      | some rows =>
        let spec := args.map (fun a => specInit a sa) ++ List.replicate (depth - args.length) "ok,0"
        some s!"mem model={";".intercalate (rows.map showInit)} spec={";".intercalate spec}"
  | .list [.atom "bitsfor", n, rs] => do
      let n ← toInt? n; let rs ← toNat? rs
      let rs := rs != 0
      let sg := decide (n < 0) || rs
      let spec := if n = 0 then 1
                  else Spec.searchWidth sg [n] (n.natAbs + 2) (if sg then 1 else 0)
      some s!"bitsfor model={bitsFor n rs} spec={spec}"
  | .list [.atom "ceillog2", n] => do
      let n ← toNat? n
      some s!"ceillog2 model={ceilLog2 n} spec={Spec.ceilLog2Search n n 0}"
  | .list [.atom "pyops", a, b, n] => do
      let a ← toInt? a; let b ← toInt? b; let n ← toNat? n
      some s!"pyops and={pyAnd a b} or={pyOr a b} shr={pyShr a n}"
  | _ => none

def respond (line : String) : String :=
  match Sexp.parse line with
  | none => "error parse"
  | some sx =>
    match handle sx with
    | some r => r
    | none => "error bad-request"

partial def loop (h : IO.FS.Stream) (out : IO.FS.Stream) : IO Unit := do
  let line ← h.getLine
  if line.isEmpty then return ()
  out.putStrLn (respond line)
  loop h out

def main : IO Unit := do
  let stdin ← IO.getStdin
  let stdout ← IO.getStdout
  loop stdin stdout
  stdout.flush
