import AmaranthVerif.Model.Sexp
import AmaranthVerif.Model.SyncFifo
import AmaranthVerif.Spec.Queue

/-!
# Driver for C12 (`amodel_c12`): one request per line, one response per line (unverified I/O glue)

* `(syncfifo <width> <depth> <buffered 0|1> (<w_en> <w_data> <r_en>)*)`
  runs the model from reset. Response
  `model=<c>;<c>;… spec=<q>;<q>;… monitor=<ok|fail:t:clauses>` with, per cycle,
  `c = w_rdy,w_level,r_rdy,r_data,r_level,level` (model outputs before the edge) and
  `q = len,head` (the Spec queue driven by `Queue.step` with the transfers of the model's trace; head −1 if empty).
* `(trace <width> <depth> <buffered> (<w_en> <w_data> <r_en> <w_rdy> <w_level> <r_rdy> <r_data> <r_level> <level>)*)`
  runs the Spec monitor `Queue.firstFail` on an *observed* trace (capacity `depth`, slack 1 / 2).
  Response `ok held=<n> pushed=<n> popped=<n>` or `fail t=<cycle> clauses=<a,b,…>`.
* `(fstep <width> <depth> <buffered> (<produce> <consume> <level> <r_rdy> <r_data> <level_reg>) (<row>*) (<w_en> <w_data> <r_en>))`
  one step of the model from an arbitrary state. For SyncFIFO `<level>` is the `level` register and the last
  three are 0; for SyncFIFOBuffered `<level>` is `inner_level`.
  Response `out=<6 ints> next=<6 regs>|<rows> inv=<0|1> abs=<entries>`.
* `(init <width> <depth> <buffered>)` → `state=<6 regs>|<rows>`.
* `(ctor <width|nonint> <depth|nonint>)` → `ok` or `TypeError`.
-/

open Amaranth Amaranth.SyncFifo

namespace C12Driver

def b2n (b : Bool) : Nat := if b then 1 else 0
def commas (xs : List Nat) : String := ",".intercalate (xs.map toString)

def outList (o : Outputs) : List Nat := [b2n o.w_rdy, o.w_level, b2n o.r_rdy, o.r_data, o.r_level, o.level]

def parseInput (width : Nat) : Sexp → Option Input
  | .list [a, d, r] => do
    let a ← a.toNat?; let d ← d.toNat?; let r ← r.toNat?
    if a ≤ 1 ∧ r ≤ 1 ∧ d < 2 ^ width then some ⟨a == 1, d, r == 1⟩ else none
  | _ => none

def parseObs (width : Nat) : Sexp → Option Queue.Obs
  | .list xs => do
    let v ← Sexp.nats? xs
    match v with
    | [we, wd, re, wr, wl, rr, rdat, rl, l] =>
      if we ≤ 1 ∧ re ≤ 1 ∧ wr ≤ 1 ∧ rr ≤ 1 ∧ wd < 2 ^ width then
        some ⟨we == 1, wd, re == 1, wr == 1, wl, rr == 1, rdat, rl, l⟩
      else none
    | _ => none
  | _ => none

/-- the Spec queue's view (length, head) before each cycle of a trace -/
def specView (q : Queue.Queue) : List Queue.Obs → List String
  | [] => []
  | o :: os =>
    let hd : Int := match q.head? with | some x => x | none => -1
    s!"{q.length},{hd}" :: specView (Queue.step q o.push o.pop) os

def slackOf (buffered : Bool) : Nat := if buffered then 2 else 1

def monitorStr (depth : Nat) (buffered : Bool) (tr : List Queue.Obs) : String :=
  match Queue.firstFail depth (slackOf buffered) Queue.Mon.init 0 tr with
  | none => "ok"
  | some (t, cs) => s!"fail:{t}:{",".intercalate cs}"

def handleRun (width depth : Nat) (buffered : Bool) (ins : List Input) : String :=
  let p : Params := ⟨width, depth⟩
  let tr := if buffered then btrace p (binit p) ins else trace p (init p) ins
  let cyc := tr.map fun o => commas [b2n o.w_rdy, o.w_level, b2n o.r_rdy, o.r_data, o.r_level, o.level]
  s!"model={";".intercalate cyc} spec={";".intercalate (specView [] tr)} monitor={monitorStr depth buffered tr}"

def handleTrace (depth : Nat) (buffered : Bool) (tr : List Queue.Obs) : String :=
  match Queue.firstFail depth (slackOf buffered) Queue.Mon.init 0 tr with
  | none =>
    let m := Queue.Mon.init.run tr
    s!"ok held={m.q.length} pushed={(Queue.pushedOf tr).length} popped={(Queue.poppedOf tr).length}"
  | some (t, cs) => s!"fail t={t} clauses={",".intercalate cs}"

def stateStr (regs : List Nat) (rows : List Nat) : String := s!"{commas regs}|{commas rows}"

def handleStep (width depth : Nat) (buffered : Bool) (regs rows : List Nat) (i : Input) : Option String :=
  let p : Params := ⟨width, depth⟩
  match regs with
  | [produce, consume, level, rrdy, rdata, levelReg] =>
    let ring : Ring := ⟨produce, consume, level, rows⟩
    if buffered then
      let s : BState := ⟨ring, rrdy == 1, rdata, levelReg⟩
      let n := bstep p s i
      some s!"out={commas (outList (boutputs p s))} next={stateStr [n.ring.produce, n.ring.consume, n.ring.level, b2n n.r_rdy, n.r_data, n.level] n.ring.storage} inv={b2n (decide (BInv p s))} abs={commas (babs p s)}"
    else
      let s : State := ⟨ring⟩
      let n := step p s i
      some s!"out={commas (outList (outputs p s))} next={stateStr [n.ring.produce, n.ring.consume, n.ring.level, 0, 0, 0] n.ring.storage} inv={b2n (decide (Inv p s))} abs={commas (abs p s)}"
  | _ => none

def handleInit (width depth : Nat) (buffered : Bool) : String :=
  let p : Params := ⟨width, depth⟩
  if buffered then
    let s := binit p
    s!"state={stateStr [s.ring.produce, s.ring.consume, s.ring.level, b2n s.r_rdy, s.r_data, s.level] s.ring.storage}"
  else
    let s := init p
    s!"state={stateStr [s.ring.produce, s.ring.consume, s.ring.level, 0, 0, 0] s.ring.storage}"

def header (w d b : Sexp) : Option (Nat × Nat × Bool) := do
  let w ← w.toNat?; let d ← d.toNat?; let b ← b.toNat?
  if b ≤ 1 then some (w, d, b == 1) else none

def respond (line : String) : String :=
  match Sexp.parse line with
  | some (.list (.atom "syncfifo" :: w :: d :: b :: rest)) =>
    match header w d b with
    | some (w, d, b) =>
      match rest.mapM (parseInput w) with
      | some ins => handleRun w d b ins
      | none => "error bad-input"
    | none => "error bad-header"
  | some (.list (.atom "trace" :: w :: d :: b :: rest)) =>
    match header w d b with
    | some (w, d, b) =>
      match rest.mapM (parseObs w) with
      | some tr => handleTrace d b tr
      | none => "error bad-obs"
    | none => "error bad-header"
  | some (.list [.atom "fstep", w, d, b, .list regs, .list rows, i]) =>
    match header w d b with
    | some (w, d, b) =>
      match Sexp.nats? regs, Sexp.nats? rows, parseInput w i with
      | some regs, some rows, some i => (handleStep w d b regs rows i).getD "error bad-state"
      | _, _, _ => "error bad-state"
    | none => "error bad-header"
  | some (.list [.atom "init", w, d, b]) =>
    match header w d b with
    | some (w, d, b) => handleInit w d b
    | none => "error bad-header"
  | some (.list [.atom "ctor", w, d]) =>
    if constructorAccepts w.toInt? d.toInt? then "ok" else "TypeError"
  | some _ => "error bad-request"
  | none => "error parse"

end C12Driver

partial def loop (h : IO.FS.Stream) (out : IO.FS.Stream) : IO Unit := do
  let line ← h.getLine
  if line.isEmpty then return ()
  out.putStrLn (C12Driver.respond line)
  loop h out

def main : IO Unit := do
  let stdin ← IO.getStdin
  let stdout ← IO.getStdout
  loop stdin stdout
  stdout.flush
