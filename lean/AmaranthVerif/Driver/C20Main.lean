import AmaranthVerif.Driver.StmtIO
import AmaranthVerif.Model.FormatDsl
import AmaranthVerif.Spec.Format
import AmaranthVerif.Model.PrintJoin

/-!
# Model driver of C20 (unverified I/O glue)

Strings travel as atoms `x<hex>.<hex>…` (code points); a result is such an atom or `!<ErrorName>`.

* `(fmt <spec> <w> <u|s> v*)` → `fmt rej=<ok|reason> ends=<0|1> ; m=… o=… tb=… s=… ; …` per value:
  compiled Print (repaired), compiled Print as found, `eval_format`, Spec text.
* `(chunks ctx (chunk*) env*)` → `chunks ; m=… o=… tb=… s=… ; …`
* `(pjoin ctx <sep> <end> (chunk*) ((chunk*)*))` → `pjoin built=<same|differs> clean=<0|1> n=<model chunks>`: the chunks
  `Print.__init__` built against `printChunks` of the per-argument chunks (structural comparison by `repr`).
* `(sim ctx (dom pos|neg rst|norst async|sync) <pstmt> (prog item*) (ev c0 c1 r0 r1 v*)*)` →
  `sim ; w=<woken> a=<active edge> m=… o=… s=… d=… ; … ; stop m=… o=… s=… d=…`
-/

open Amaranth Amaranth.Fmt Amaranth.Sexp

def hexDigit? (c : Char) : Option Nat :=
  if '0' ≤ c ∧ c ≤ '9' then some (c.toNat - 48)
  else if 'a' ≤ c ∧ c ≤ 'f' then some (c.toNat - 87)
  else none

def hexVal? (s : String) : Option Nat :=
  if s.isEmpty then none else
    s.toList.foldlM (fun acc c => do some (acc * 16 + (← hexDigit? c))) 0

def decodeStr? (a : String) : Option (List Char) :=
  match a.toList with
  | 'x' :: rest =>
    if rest.isEmpty then some [] else
      ((String.ofList rest).splitOn ".").mapM fun h => do some (Char.ofNat (← hexVal? h))
  | _ => none

def encodeStr (s : List Char) : String :=
  "x" ++ ".".intercalate (s.map fun c => String.ofList (Nat.toDigits 16 c.toNat))

def showRes : Except PyErr PyStr → String
  | .ok t => encodeStr t
  | .error e => "!" ++ e.name

def strOf? : Sexp → Option (List Char)
  | .atom a => decodeStr? a
  | _ => none

def parseChunk (ctx : Ctx) : Sexp → Option Chunk
  | .list [.atom "lit", s] => do some (.lit (← strOf? s))
  | .list [.atom "val", e, s] => do some (.val (← parseExpr ctx e) (← strOf? s))
  | _ => none

def parseLeaf (ctx : Ctx) : Sexp → Option Fmt.Leaf
  | .list (.atom "print" :: i :: cs) => do some (.print (← toNat? i) (← cs.mapM (parseChunk ctx)))
  | .list [.atom k, i, t] => do
      let kind ← if k == "assert" then some PKind.assert else if k == "assume" then some PKind.assume else none
      some (.prop (← toNat? i) kind (← parseExpr ctx t) none)
  | .list [.atom k, i, t, .list (.atom "msg" :: cs)] => do
      let kind ← if k == "assert" then some PKind.assert else if k == "assume" then some PKind.assume else none
      some (.prop (← toNat? i) kind (← parseExpr ctx t) (some (← cs.mapM (parseChunk ctx))))
  | _ => none

partial def parsePStmt (ctx : Ctx) : Sexp → Option PStmt
  | .list [.atom "skip"] => some .skip
  | .list (.atom "seq" :: ss) => do
      let xs ← ss.mapM (parsePStmt ctx)
      some (xs.foldr (fun s acc => .seq s acc) .skip)
  | .list [.atom "=", l, r] => do some (.assign (← parseExpr ctx l) (← parseExpr ctx r))
  | .list (.atom "switch" :: t :: cases) => do
      let te ← parseExpr ctx t
      let w := widthOf ctx te
      let cs ← cases.mapM fun c =>
        match c with
        | .list (.atom "default" :: body) => do
            let xs ← body.mapM (parsePStmt ctx)
            some ([Pat.dontCare w], xs.foldr (fun s acc => PStmt.seq s acc) .skip)
        | .list (.list ps :: body) => do
            let pats ← ps.mapM fun p => match p with | .atom s => parsePat s | _ => none
            let xs ← body.mapM (parsePStmt ctx)
            some (pats, xs.foldr (fun s acc => PStmt.seq s acc) .skip)
        | _ => none
      some (cs.foldr (fun (c : List Pat × PStmt) acc => .ite te c.1 c.2 acc) .skip)
  | sx => do some (.fx (← parseLeaf ctx sx))

partial def parsePProg (ctx : Ctx) : Sexp → Option PProg
  | .list [.atom "=", l, r] => do some (.assign (← parseExpr ctx l) (← parseExpr ctx r))
  | .list (.atom "if" :: rest) => do
      let brs := rest.filter fun b => match b with | .list (.atom "else" :: _) => false | _ => true
      let els := rest.filterMap fun b => match b with | .list (.atom "else" :: body) => some body | _ => none
      let branches ← brs.mapM fun b =>
        match b with
        | .list (c :: body) => do some (← parseExpr ctx c, ← body.mapM (parsePProg ctx))
        | _ => none
      let e ← match els with
        | [] => some []
        | body :: _ => body.mapM (parsePProg ctx)
      some (.ifs branches e)
  | .list (.atom "sw" :: t :: cases) => do
      let te ← parseExpr ctx t
      let cs ← cases.mapM fun c =>
        match c with
        | .list (.atom "default" :: body) => do some (none, ← body.mapM (parsePProg ctx))
        | .list (.list ps :: body) => do some (some (← ps.mapM parseUPat), ← body.mapM (parsePProg ctx))
        | _ => none
      some (.switch te cs)
  | sx => do some (.fx (← parseLeaf ctx sx))

def b01 (b : Bool) : String := if b then "1" else "0"

def bool? : Sexp → Option Bool
  | .atom "1" => some true
  | .atom "0" => some false
  | _ => none

def showStop : Option (Nat × Stop) → String
  | none => "none"
  | some (i, .assertion id t) => s!"{i}:A{id}:{encodeStr t}"
  | some (i, .pyError e) => s!"{i}:E{e.name}"

def fourTexts (ctx : Ctx) (env : Env) (cs : List Chunk) : String :=
  s!"m={showRes (render true ctx env cs)} o={showRes (render false ctx env cs)} tb={showRes (evalFormatTb ctx env cs)} s={showRes (specText ctx env cs)}"

def handleFmt : Sexp → Option String
  | .list (.atom "fmt" :: sp :: w :: sg :: vals) => do
      let spec ← strOf? sp
      let sh ← parseShapeSx [w, sg]
      let vs ← ints? vals
      let ctx : Ctx := [sh]
      let rej := match rejectL spec sh with | none => "ok" | some r => r.name
      let outs := vs.map fun v => fourTexts ctx [v] [.val (.sig 0) spec]
      some (" ; ".intercalate (s!"fmt rej={rej} ends={b01 (endsWithS spec)}" :: outs))
  | _ => none

def handleChunks : Sexp → Option String
  | .list (.atom "chunks" :: c :: .list cs :: envs) => do
      let ctx ← parseCtx c
      let chunks ← cs.mapM (parseChunk ctx)
      let es ← envs.mapM parseEnv
      some (" ; ".intercalate ("chunks" :: es.map fun env => fourTexts ctx env chunks))
  | _ => none

def handlePjoin : Sexp → Option String
  | .list [.atom "pjoin", c, sep, en, .list impl, .list args] => do
      let ctx ← parseCtx c
      let sepS ← strOf? sep
      let endS ← strOf? en
      let implC ← impl.mapM (parseChunk ctx)
      let argCs ← args.mapM fun a => match a with
        | .list cs => cs.mapM (parseChunk ctx)
        | _ => none
      let model := printChunks argCs sepS endS
      let same := toString (repr model) == toString (repr implC)
      some s!"pjoin built={if same then "same" else "differs"} clean={b01 (cleanForm implC)} n={model.length}"
  | _ => none

def parseEvent : Sexp → Option Event
  | .list (.atom "ev" :: c0 :: c1 :: r0 :: r1 :: vs) => do
      some ⟨← bool? c0, ← bool? c1, ← bool? r0, ← bool? r1, ← ints? vs⟩
  | _ => none

def handleSim : Sexp → Option String
  | .list (.atom "sim" :: c :: .list [.atom "dom", .atom edge, .atom rst, .atom asy] :: st ::
      .list (.atom "prog" :: items) :: evs) => do
      let ctx ← parseCtx c
      let d : Domain := ⟨edge == "pos", rst == "rst", asy == "async"⟩
      let body ← parsePStmt ctx st
      let prog ← items.mapM (parsePProg ctx)
      let events ← evs.mapM parseEvent
      let tm := simulate true d ctx body events 0
      let to := simulate false d ctx body events 0
      let ts := specSimulate d ctx body events 0
      let td := specSimulateWith d ctx (fun env => PProg.listActive ctx env prog) events 0
      let tl := simulate true d ctx (lowerListP ctx prog) events 0
      let rows := (List.range events.length).map fun i =>
        let ev := events.getD i default
        let g (t : Trace) : String := match t.outs[i]? with | some o => encodeStr o | none => "-"
        s!"w={b01 (wakes d ev)} a={b01 (activeEdge d ev)} f4={b01 (wakesAsFound d ev)} m={g tm} o={g to} s={g ts} d={g td} l={g tl}"
      let stop := s!"stop m={showStop tm.stop} o={showStop to.stop} s={showStop ts.stop} d={showStop td.stop} l={showStop tl.stop}"
      some (" ; ".intercalate ("sim" :: rows ++ [stop]))
  | _ => none

def handlers20 : List (Sexp → Option String) := [handleFmt, handleChunks, handlePjoin, handleSim]

def respond20 (line : String) : String :=
  match Sexp.parse line with
  | none => "error parse"
  | some sx =>
    match handlers20.findSome? (fun h => h sx) with
    | some r => r
    | none => "error bad-request"

partial def loop20 (h : IO.FS.Stream) (out : IO.FS.Stream) : IO Unit := do
  let line ← h.getLine
  if line.isEmpty then return ()
  out.putStrLn (respond20 line)
  loop20 h out

def main : IO Unit := do
  let stdin ← IO.getStdin
  let stdout ← IO.getStdout
  loop20 stdin stdout
  stdout.flush
