import AmaranthVerif.Model.Sexp
import AmaranthVerif.Model.Repro
import AmaranthVerif.Spec.Repro

/-!
# Driver `amodel_c09` (unverified I/O glue)

One request per line (S-expression), one JSON response per line.

```
(sort NAME*)                                   sorted() of the model and the ascending enumeration of the spec
(missing (order NAME*) CB FRAG (user PORT*))   domain propagation: repaired model, model of the code as it stands
                                               (iterating in the given order), specification
(plan SCRIPT (call NAME HEX)*)                 add_file calls -> digest input, archive members, extraction
(reset STATE)                                  reset / resetOld / initial (design STATE)
(run STATE OP*)                                the state after every operation and the observations

CB    = (cb (default rst|norst|none) (NAME ANSWER)*)     ANSWER = none | (dom NAME 0|1) | (frag FRAG)
FRAG  = (f NAME|- (doms (NAME 0|1)*) (pre NAME*) (uses NAME*) FRAG*)
PORT  = (NAME clk|rst)
STATE = (state (now N) (wakers (ID DEADLINE)*) (slots SLOT*) (pending I*) (procs PROC*) (tbs PROC*)
               (active T*) (delta N) (running 0|1))
SLOT  = (sig INIT CURR NEXT) | (mem (INIT*) (DATA*) ((ADDR VALUE)*))
PROC  = (rtl COMB RUNNABLE CRITICAL) | (clock SLOT PHASE PERIOD RUNNABLE CRITICAL INITIAL)
      | (coro TB BG RUNNABLE CRITICAL WAITS|- PC|- FIRST)
OP    = (update I V) | (memwrite I A V) | (commit) | (setwaker W IV) | (advance) | (runclock K W) | (runrtl K)
      | (wakeproc K) | (coroawait TB K T) | (corofinish TB K) | (triggerrun TB K) | (activate T) | (clearactive)
      | (setcritical TB K V) | (setrunning) | (get I) | (read I A) | (now)
```
-/

open Amaranth Amaranth.Repro

namespace C09IO

def jstr (s : String) : String :=
  "\"" ++ String.join (s.toList.map fun c =>
    if c == '"' then "\\\"" else if c == '\\' then "\\\\" else if c == '\n' then "\\n" else c.toString) ++ "\""
def jlist (xs : List String) : String := "[" ++ ",".intercalate xs ++ "]"
def jstrs (xs : List String) : String := jlist (xs.map jstr)
def jobj (kvs : List (String × String)) : String :=
  "{" ++ ",".intercalate (kvs.map fun (k, v) => jstr k ++ ":" ++ v) ++ "}"
def jbool (b : Bool) : String := if b then "true" else "false"
def jnat (n : Nat) : String := toString n

def str? : Sexp → Option String
  | .atom s => some s
  | _ => none
def strs? (xs : List Sexp) : Option (List String) := xs.mapM str?
def bool? : Sexp → Option Bool
  | .atom "0" => some false | .atom "1" => some true | _ => none

/-! ### fragments -/

def parseDom : Sexp → Option Dom
  | .list [.atom n, b] => do some ⟨n, ← bool? b⟩
  | _ => none

partial def parseFrag : Sexp → Option Frag
  | .list (.atom "f" :: .atom nm :: .list (.atom "doms" :: ds) :: .list (.atom "pre" :: pre)
      :: .list (.atom "uses" :: us) :: subs) => do
      let ds ← ds.mapM parseDom
      let pre ← strs? pre
      let us ← strs? us
      let subs ← subs.mapM parseFrag
      some (.mk (if nm == "-" then none else some nm) ds pre us subs)
  | _ => none

def parseAnswer : Sexp → Option Missing
  | .atom "none" => some .none
  | .list [.atom "dom", .atom n, b] => do some (.domain ⟨n, ← bool? b⟩)
  | .list [.atom "frag", f] => do some (.fragment (← parseFrag f))
  | _ => none

def parseCb : Sexp → Option (String → Missing)
  | .list (.atom "cb" :: .list [.atom "default", .atom d] :: entries) => do
      let table ← entries.mapM fun e =>
        match e with
        | .list [.atom n, a] => do some (n, ← parseAnswer a)
        | _ => none
      let dflt : String → Missing :=
        if d == "none" then fun _ => .none else fun n => .domain ⟨n, d == "rst"⟩
      some fun n => match table.lookup n with
        | some a => a
        | none => dflt n
  | _ => none

def parsePort : Sexp → Option (String × PortKind)
  | .list [.atom n, .atom "clk"] => some (n, .clk)
  | .list [.atom n, .atom "rst"] => some (n, .rst)
  | _ => none

def jdom (d : Dom) : String := jlist [jstr d.name, jbool d.hasRst]
def jport (p : String × PortKind) : String := jlist [jstr p.1, jstr (match p.2 with | .clk => "clk" | .rst => "rst")]

partial def jtree : Frag → String
  | .mk n ds _ _ subs =>
    jobj [("name", match n with | some s => jstr s | none => "null"),
          ("domains", jlist (ds.map jdom)), ("subs", jlist (subs.map jtree))]

def jerr : DomErr → String
  | .undefined n => jobj [("err", jstr "DomainError"), ("why", jstr "undefined"), ("name", jstr n)]
  | .notProvided n => jobj [("err", jstr "DomainError"), ("why", jstr "not-provided"), ("name", jstr n)]
  | .duplicate n => jobj [("err", jstr "AssertionError"), ("why", jstr "duplicate"), ("name", jstr n)]

def jresult (user : List (String × PortKind)) : Except DomErr (Frag × List Dom) → String
  | .error e => jerr e
  | .ok (f, new) => jobj [("new", jlist (new.map jdom)), ("tree", jtree f),
                          ("ports", jlist ((user ++ portsOf new).map jport))]

def isPerm (a b : List String) : Bool := sortNames a == sortNames b

def handleMissing (order : List String) (cb : String → Missing) (f : Frag) (user : List (String × PortKind)) : String :=
  let used := usedSet (propagateDown f)
  let allDefault := order.all fun n => match cb n with
    | .domain d => d.name == n
    | _ => false
  let specOk := allDefault && !order.contains "comb" && order.all (fun n => !f.domainNames.contains n)
    && order.eraseDups.length == order.length
  let hasRst : String → Bool := fun n => match cb n with | .domain d => d.hasRst | _ => false
  jobj [("used", jstrs used), ("order_is_enumeration", jbool (isPerm order used)),
        ("sorted", jstrs (sortNames order)),
        ("model", jresult user (propagateDomains cb order f)),
        ("old", jresult user (propagateDomainsOld cb order f)),
        ("spec_ports", if specOk then
            jlist ((user.map toSpec ++ Spec.expectedPorts order hasRst).map fun p =>
              jlist [jstr p.1, jstr (if p.2 then "rst" else "clk")])
          else "null")]
where toSpec (p : String × PortKind) : String × Bool := (p.1, p.2 == .rst)

/-! ### plans -/

def hexDigit (c : Char) : Option Nat :=
  if '0' ≤ c && c ≤ '9' then some (c.toNat - '0'.toNat)
  else if 'a' ≤ c && c ≤ 'f' then some (c.toNat - 'a'.toNat + 10)
  else none

def unhex : List Char → Option Bytes
  | [] => some []
  | a :: b :: rest => do
      let x ← hexDigit a
      let y ← hexDigit b
      let r ← unhex rest
      some (UInt8.ofNat (x * 16 + y) :: r)
  | _ => none

def hexOf (n : Nat) : Char := if n < 10 then Char.ofNat (48 + n) else Char.ofNat (87 + n)
def hex (bs : Bytes) : String := String.ofList (bs.flatMap fun b => [hexOf (b.toNat / 16), hexOf (b.toNat % 16)])

def parseCall : Sexp → Option (String × Bytes)
  | .list [.atom "call", .atom n, .atom h] => do some (n, ← unhex (if h == "-" then [] else h.toList))
  | _ => none

def jpath (p : List String) : String := jstrs p

def handlePlan (script : String) (calls : List (String × Bytes)) : String :=
  match Plan.ofCalls script calls with
  | .error (.duplicate n) => jobj [("err", jstr "AssertionError"), ("name", jstr n)]
  | .error (.absolute n) => jobj [("err", jstr "ValueError"), ("name", jstr n)]
  | .ok p =>
    let ext := match p.extract Tree.empty with
      | .error (.assertion n) => jobj [("err", jstr "AssertionError"), ("name", jstr n)]
      | .error (.isDirectory n) => jobj [("err", jstr "IsADirectoryError"), ("name", jstr n)]
      | .error (.notDirectory n) => jobj [("err", jstr "NotADirectoryError"), ("name", jstr n)]
      | .ok t => jobj [("dirs", jlist (t.dirs.map jpath)),
                       ("files", jlist (t.files.map fun f => jlist [jpath f.1, jstr (hex f.2)]))]
    jobj [("files", jlist (p.files.map fun f => jlist [jstr f.1, jstr (hex f.2)])),
          ("digest_input", jstr (hex p.digestInput)),
          ("spec_identity", jstr (hex (Spec.identity utf8 p.script p.files))),
          ("archive", jlist (p.archive.map fun m => jlist [jstr m.name, jstr (hex m.data),
              jlist [jnat m.dateTime.1, jnat m.dateTime.2.1, jnat m.dateTime.2.2.1, jnat m.dateTime.2.2.2.1,
                     jnat m.dateTime.2.2.2.2.1, jnat m.dateTime.2.2.2.2.2]])),
          ("spec_archive", jlist ((Spec.ascendingFiles p.files).map fun f => jlist [jstr f.1, jstr (hex f.2)])),
          ("extract", ext),
          ("spec_tree", jlist (p.files.map fun f => jlist [jpath (pathParts f.1), jstr (hex f.2)]))]

/-! ### engine states -/

def optNat? : Sexp → Option (Option Nat)
  | .atom "-" => some none
  | x => (Sexp.toNat? x).map some

def parseSlot : Sexp → Option Slot
  | .list [.atom "sig", i, c, n] => do some (.signal (← Sexp.toInt? i) (← Sexp.toInt? c) (← Sexp.toInt? n))
  | .list [.atom "mem", .list i, .list d, .list q] => do
      let q ← q.mapM fun e => match e with
        | .list [a, v] => do some ((← Sexp.toNat? a), (← Sexp.toInt? v))
        | _ => none
      some (.memory (← Sexp.ints? i) (← Sexp.ints? d) q)
  | _ => none

def parseProc : Sexp → Option Proc
  | .list [.atom "rtl", c, r, k] => do some (.rtl (← bool? c) (← bool? r) (← bool? k))
  | .list [.atom "clock", s, ph, pe, r, k, i] => do
      some (.clock (← Sexp.toNat? s) (← Sexp.toNat? ph) (← Sexp.toNat? pe) (← bool? r) (← bool? k) (← bool? i))
  | .list [.atom "coro", tb, bg, r, k, w, pc, fa] => do
      some (.coro (← bool? tb) (← bool? bg) (← bool? r) (← bool? k) (← optNat? w) (← optNat? pc) (← bool? fa))
  | _ => none

def parseState : Sexp → Option EngineState
  | .list [.atom "state", .list [.atom "now", now], .list (.atom "wakers" :: ws), .list (.atom "slots" :: sl),
           .list (.atom "pending" :: pe), .list (.atom "procs" :: ps), .list (.atom "tbs" :: ts),
           .list (.atom "active" :: ac), .list [.atom "delta", de], .list [.atom "running", ru]] => do
      let ws ← ws.mapM fun e => match e with
        | .list [a, b] => do some ((← Sexp.toNat? a), (← Sexp.toNat? b))
        | _ => none
      some { timeline := ⟨← Sexp.toNat? now, ws⟩, slots := ← sl.mapM parseSlot, pending := ← Sexp.nats? pe,
             procs := ← ps.mapM parseProc, tbs := ← ts.mapM parseProc, activeTriggers := ← Sexp.nats? ac,
             deltaCycles := ← Sexp.toNat? de, running := ← bool? ru }
  | _ => none

def b01 (b : Bool) : String := if b then "1" else "0"
def sp (xs : List String) : String := " ".intercalate xs
def tagged (tag : String) (xs : List String) : String := "(" ++ sp (tag :: xs) ++ ")"
def optNat (o : Option Nat) : String := match o with | some n => toString n | none => "-"

def showSlot : Slot → String
  | .signal i c n => tagged "sig" [toString i, toString c, toString n]
  | .memory i d q => tagged "mem" ["(" ++ sp (i.map toString) ++ ")", "(" ++ sp (d.map toString) ++ ")",
      "(" ++ sp (q.map fun e => "(" ++ toString e.1 ++ " " ++ toString e.2 ++ ")") ++ ")"]

def showProc : Proc → String
  | .rtl c r k => tagged "rtl" [b01 c, b01 r, b01 k]
  | .clock s ph pe r k i => tagged "clock" [toString s, toString ph, toString pe, b01 r, b01 k, b01 i]
  | .coro tb bg r k w pc fa => tagged "coro" [b01 tb, b01 bg, b01 r, b01 k, optNat w, optNat pc, b01 fa]

/-- `pending` and `_active_triggers` are sets: printed in ascending order -/
def sortNats (xs : List Nat) : List Nat := (xs.toArray.qsort (· < ·)).toList

def showState (s : EngineState) : String :=
  tagged "state" [tagged "now" [toString s.timeline.now],
    tagged "wakers" (s.timeline.wakers.map fun e => "(" ++ toString e.1 ++ " " ++ toString e.2 ++ ")"),
    tagged "slots" (s.slots.map showSlot), tagged "pending" ((sortNats s.pending).map toString),
    tagged "procs" (s.procs.map showProc), tagged "tbs" (s.tbs.map showProc),
    tagged "active" ((sortNats s.activeTriggers).map toString), tagged "delta" [toString s.deltaCycles],
    tagged "running" [b01 s.running]]

def parseOp : Sexp → Option Op
  | .list [.atom "update", i, v] => do some (.update (← Sexp.toNat? i) (← Sexp.toInt? v))
  | .list [.atom "memwrite", i, a, v] => do some (.memWrite (← Sexp.toNat? i) (← Sexp.toNat? a) (← Sexp.toInt? v))
  | .list [.atom "commit"] => some .commit
  | .list [.atom "setwaker", w, iv] => do some (.setWaker (← Sexp.toNat? w) (← Sexp.toNat? iv))
  | .list [.atom "advance"] => some .advance
  | .list [.atom "runclock", k, w] => do some (.runClock (← Sexp.toNat? k) (← Sexp.toNat? w))
  | .list [.atom "runrtl", k] => do some (.runRtl (← Sexp.toNat? k))
  | .list [.atom "wakeproc", k] => do some (.wakeProc (← Sexp.toNat? k))
  | .list [.atom "coroawait", tb, k, t] => do some (.coroAwait (← bool? tb) (← Sexp.toNat? k) (← Sexp.toNat? t))
  | .list [.atom "corofinish", tb, k] => do some (.coroFinish (← bool? tb) (← Sexp.toNat? k))
  | .list [.atom "triggerrun", tb, k] => do some (.triggerRun (← bool? tb) (← Sexp.toNat? k))
  | .list [.atom "activate", t] => do some (.activate (← Sexp.toNat? t))
  | .list [.atom "clearactive"] => some .clearActive
  | .list [.atom "setcritical", tb, k, v] => do some (.setCritical (← bool? tb) (← Sexp.toNat? k) (← bool? v))
  | .list [.atom "setrunning"] => some .setRunning
  | .list [.atom "get", i] => do some (.get (← Sexp.toNat? i))
  | .list [.atom "read", i, a] => do some (.read (← Sexp.toNat? i) (← Sexp.toNat? a))
  | .list [.atom "now"] => some .now
  | _ => none

def showObs : Obs → String
  | .value v => jlist [jstr "value", toString v]
  | .time t => jlist [jstr "time", toString t]
  | .nothing => jlist [jstr "nothing"]

def runStates (s : EngineState) : List Op → List String
  | [] => []
  | op :: ops => let s' := (step s op).1; jstr (showState s') :: runStates s' ops

def handle : Sexp → Option String
  | .list (.atom "sort" :: names) => do
      let ns ← strs? names
      some (jobj [("model", jstrs (sortNames ns)), ("spec", jstrs (Spec.ascending ns))])
  | .list [.atom "missing", .list (.atom "order" :: order), cb, f, .list (.atom "user" :: user)] => do
      some (handleMissing (← strs? order) (← parseCb cb) (← parseFrag f) (← user.mapM parsePort))
  | .list (.atom "plan" :: .atom script :: calls) => do
      some (handlePlan script (← calls.mapM parseCall))
  | .list [.atom "reset", st] => do
      let s ← parseState st
      some (jobj [("reset", jstr (showState s.reset)), ("old", jstr (showState s.resetOld)),
                  ("initial", jstr (showState (initial s.design))), ("echo", jstr (showState s))])
  | .list (.atom "run" :: st :: ops) => do
      let s ← parseState st
      let ops ← ops.mapM parseOp
      some (jobj [("states", jlist (runStates s ops)), ("trace", jlist ((trace (run s ops)).map showObs)),
                  ("reset", jstr (showState (run s ops).1.reset)),
                  ("initial", jstr (showState (initial s.design)))])
  | _ => none

end C09IO

def respond (line : String) : String :=
  match Sexp.parse line with
  | none => "{\"error\":\"parse\"}"
  | some sx =>
    match C09IO.handle sx with
    | some r => r
    | none => "{\"error\":\"bad-request\"}"

partial def loop (h : IO.FS.Stream) (out : IO.FS.Stream) : IO Unit := do
  let line ← h.getLine
  if line.isEmpty then return ()
  out.putStrLn (respond line)
  loop h out

def main : IO Unit := do
  let stdin ← IO.getStdin
  let stdout ← IO.getStdout
  loop stdin stdout
  stdout.flush
