import AmaranthVerif.Model.Sexp
import AmaranthVerif.Model.Expr
import AmaranthVerif.Spec.Denote
import AmaranthVerif.Model.Assign
import AmaranthVerif.Spec.AssignSpec
import AmaranthVerif.Model.DerivedBuild

/-! # Reading expressions from the line protocol (unverified I/O glue) -/

namespace Amaranth
open Sexp

def parseShapeSx : List Sexp → Option Shape
  | [w, .atom "u"] => do some ⟨← toNat? w, false⟩
  | [w, .atom "s"] => do some ⟨← toNat? w, true⟩
  | _ => none

def parsePat (s : String) : Option Pat :=
  s.toList.mapM fun c =>
    if c == '0' then some PatBit.zero else if c == '1' then some .one else if c == '-' then some .any else none

def op1Of : String → Option Op1
  | "~" => some .inv | "neg" => some .neg | "b" => some .bool | "r|" => some .rany
  | "r&" => some .rall | "r^" => some .rxor | "u" => some .u | "s" => some .s | _ => none

def op2Of : String → Option Op2
  | "+" => some .add | "-" => some .sub | "*" => some .mul | "//" => some .fdiv | "%" => some .mod
  | "==" => some .eq | "!=" => some .ne | "<" => some .lt | "<=" => some .le | ">" => some .gt
  | ">=" => some .ge | "&" => some .and | "|" => some .or | "^" => some .xor | "<<" => some .shl
  | ">>" => some .shr | _ => none

/-- `ctx` is needed to expand a default case into the all-don't-care pattern of the test's width -/
partial def parseExpr (ctx : Ctx) : Sexp → Option Expr
  | .list [.atom "c", v, w, sg] => do
      let s ← parseShapeSx [w, sg]
      some (.const (← toInt? v) s)
  | .list [.atom "sig", i] => do some (.sig (← toNat? i))
  | .list [.atom "slice", e, a, b] => do some (.slice (← parseExpr ctx e) (← toNat? a) (← toNat? b))
  | .list [.atom "part", e, off, w, st] => do
      some (.part (← parseExpr ctx e) (← parseExpr ctx off) (← toNat? w) (← toNat? st))
  | .list (.atom "cat" :: ps) => do
      let es ← ps.mapM (parseExpr ctx)
      some (es.foldr (fun e acc => .cat e acc) Expr.nil)
  | .list (.atom "sw" :: t :: cases) => do
      let te ← parseExpr ctx t
      let w := widthOf ctx te
      let cs ← cases.mapM fun c =>
        match c with
        | .list [.atom "default", v] => do some ([Pat.dontCare w], ← parseExpr ctx v)
        | .list [.list ps, v] => do
            let pats ← ps.mapM fun p => match p with | .atom s => parsePat s | _ => none
            some (pats, ← parseExpr ctx v)
        | _ => none
      some (cs.foldr (fun (c : List Pat × Expr) acc => .ite te c.1 c.2 acc) Expr.nil)
  | .list [.atom "-", a] => do some (.op1 .neg (← parseExpr ctx a))
  | .list [.atom o, a] => do some (.op1 (← op1Of o) (← parseExpr ctx a))
  | .list [.atom o, a, b] => do some (.op2 (← op2Of o) (← parseExpr ctx a) (← parseExpr ctx b))
  | _ => none

/-- `(ctx (w u|s)*)` -/
def parseCtx : Sexp → Option Ctx
  | .list (.atom "ctx" :: ss) => ss.mapM fun s => match s with | .list l => parseShapeSx l | _ => none
  | _ => none

/-- `(env int*)` -/
def parseEnv : Sexp → Option Env
  | .list (.atom "env" :: vs) => ints? vs
  | _ => none

def showShape (s : Shape) : String := s!"{s.width} {if s.signed then "s" else "u"}"

/-- Handlers of the expression family.
* `(shape ctx e)` → `shape <w> <u|s> wf=<0|1>`
* `(eval ctx e env*)` → one `rtl=<int> rtlraw=<int> old=<int> tb=<int> spec=<int>` group per env, `;`-separated
-/
def handleExpr : Sexp → Option String
  | .list [.atom "shape", c, e] => do
      let ctx ← parseCtx c
      let ex ← parseExpr ctx e
      some s!"shape {showShape (shapeOf ctx ex)} wf={if ex.wf ctx then 1 else 0}"
  | .list (.atom "eval" :: c :: e :: envs) => do
      let ctx ← parseCtx c
      let ex ← parseExpr ctx e
      let es ← envs.mapM parseEnv
      let sh := shapeOf ctx ex
      let outs := es.map fun env =>
        s!"rtl={norm sh (evalRtl ctx env ex)} old={norm sh (evalRtlUnfixed ctx env ex)} tb={evalTb ctx env ex} spec={denote ctx env ex}"
      some (s!"eval {showShape sh} wf={if ex.wf ctx then 1 else 0} ; " ++ " ; ".intercalate outs)
  | _ => none

def parseMPat : Sexp → Option MPat
  | .list [.atom "i", k] => do some (.int (← toInt? k))
  | .atom s => do some (.bits (← parsePat s))
  | _ => none

def parseDOp : Sexp → Option DOp
  | .list [.atom "abs"] => some .abs
  | .list [.atom "shl", n] => do some (.shiftLeft (← toInt? n))
  | .list [.atom "shr", n] => do some (.shiftRight (← toInt? n))
  | .list [.atom "rol", n] => do some (.rotateLeft (← toInt? n))
  | .list [.atom "ror", n] => do some (.rotateRight (← toInt? n))
  | .list [.atom "rep", k] => do some (.replicate (← toNat? k))
  | .list (.atom "matches" :: ps) => do some (.matches (← ps.mapM parseMPat))
  | .list [.atom "mux"] => some .mux
  | .list [.atom "array"] => some .arrayIndex
  | .list [.atom "index", i] => do some (.index (← toInt? i))
  | .list [.atom "slicestep", a, b, c] => do some (.sliceStep (← toInt? a) (← toInt? b) (← toInt? c))
  | _ => none

/-- `(derived op ctx (operands e*) env*)` → `derived <w> <u|s> ; v ; v …` (the Spec value per env), or `derived none` -/
def handleDerived : Sexp → Option String
  | .list (.atom "derived" :: o :: c :: .list (.atom "operands" :: es) :: rest) => do
      let op ← parseDOp o
      let ctx ← parseCtx c
      let exprs ← es.mapM (parseExpr ctx)
      -- `(built <expr>)`: what the Python method returned; compared structurally with the model's rewrite
      let (built, envs) ← match rest with
        | .list [.atom "built", b] :: envs => do some (some (← parseExpr ctx b), envs)
        | envs => some (none, envs)
      let same := match built, mkDerived ctx op exprs with
        | some b, some m => if reprStr b == reprStr m then "same" else s!"differs:{(reprStr m).replace "\n" " "}"
        | _, none => "na"
        | none, _ => "na"
      let envl ← envs.mapM parseEnv
      let outs := envl.map fun env => derived op (exprs.map fun e => (shapeOf ctx e, denote ctx env e))
      match outs with
      | [] => some "derived empty"
      | first :: _ =>
        match first with
        | none => some "derived none"
        | some (sh, _) =>
          some (s!"derived {showShape sh} built={same} ; " ++ " ; ".intercalate (outs.map fun r => match r with | some (_, v) => toString v | none => "none"))
  | _ => none

def showEnv (e : Env) : String := ",".intercalate (e.map toString)

/-- `(assign ctx target v env*)` → per env: `tb=<ints> old=<ints> rtl=<ints> spec=<ints>` -/
def handleAssign : Sexp → Option String
  | .list (.atom "assign" :: c :: t :: v :: envs) => do
      let ctx ← parseCtx c
      let tgt ← parseExpr ctx t
      let val ← toInt? v
      let es ← envs.mapM parseEnv
      let outs := es.map fun env =>
        s!"tb={showEnv (assignTb ctx env tgt val)} old={showEnv (assignTbUnfixed ctx env tgt val)} rtl={showEnv (assignRtl ctx env tgt val)} spec={showEnv (assignSpec ctx env tgt val)}"
      some (s!"assign ok={if tgt.assignable && tgt.wf ctx then 1 else 0} ; " ++ " ; ".intercalate outs)
  | _ => none

end Amaranth
