import AmaranthVerif.Driver.StmtIO
import AmaranthVerif.Driver.FsmIO

/-! # Model driver: one request per line on stdin, one response per line on stdout -/

open Amaranth

def handlers : List (Sexp → Option String) := [handleExpr, handleAssign, handleProc, handleDerived, handleFProc, handleFLower]

def respond (line : String) : String :=
  match Sexp.parse line with
  | none => "error parse"
  | some sx =>
    match handlers.findSome? (fun h => h sx) with
    | some r => r
    | none => "error bad-request"

partial def loop (h : IO.FS.Stream) (out : IO.FS.Stream) : IO Unit := do
  let line ← h.getLine
  if line.isEmpty then return ()
  out.putStrLn (respond line)
  loop h out

def main : IO Unit := do
  let stdin ← IO.getStdin
  let stdout ← IO.getStdout
  loop stdin stdout
  stdout.flush
