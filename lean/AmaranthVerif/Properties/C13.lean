import AmaranthVerif.Proofs.AsyncFifoBuf
import AmaranthVerif.Proofs.AsyncFifoCtor

/-!
# C13 — asynchronous FIFOs are safe under every interleaving of their clocks

Model: `Model/AsyncFifo.lean` (`AsyncFIFO`: `step/run/outputs/writes/reads`; `AsyncFIFOBuffered`:
`bstep/brun/boutputs/bwrites/breads`).  Spec: `Spec/Queue2.lean` (a bounded queue watched from both
sides by a monitor).  An *interleaving* is a `List Event`, every event being a write-clock edge, a
read-clock edge or a coincident edge together with the strobes/data present at that moment; all
theorems quantify over every such list, every counter width `ctrBits ≥ 1` (depth `2^(ctrBits-1)`,
resp. `2^(ctrBits-1)+1` buffered) and every data width.  The write-domain reset is held low; the
power-on transient of the reset synchroniser is part of the model.

`writes c init es` / `reads c init es` are the words accepted / delivered during `es` (defined on the
model's port signals only: `w_rdy ∧ w_en` at a write edge, `r_rdy ∧ r_en` at a read edge).
-/

namespace Amaranth.C13
open Amaranth.AsyncFifo

/-! ## Gray code, arbitrary width -/

/-- `_gray_encode` is linear over xor -/
theorem gray_xor (x y : Nat) : gray (x ^^^ y) = gray x ^^^ gray y := AsyncFifo.gray_xor x y

/-- `_gray_encode` is injective on `n`-bit values, for every `n` -/
theorem gray_inj (n x y : Nat) (hx : x < 2 ^ n) (hy : y < 2 ^ n) (h : gray x = gray y) : x = y :=
  AsyncFifo.gray_inj hx hy h

/-- `_gray_decode` inverts `_gray_encode` on `n`-bit values, for every `n` -/
theorem gray_decode (n x : Nat) (hx : x < 2 ^ n) : grayDecode n (gray x) = x := grayDecode_gray n x hx

/-- successive counter values have Gray codes that differ in exactly one bit (why the Gray-coded
pointers may be sampled by an unrelated clock) … -/
theorem gray_succ_one_bit (x : Nat) : ∃ k, gray x ^^^ gray (x + 1) = 2 ^ k := AsyncFifo.gray_succ_one_bit x

/-- … including the wrap-around of an `n = k+1`-bit counter from `2^n - 1` to `0` -/
theorem gray_wrap_one_bit (k : Nat) : gray (2 ^ (k + 1) - 1) ^^^ gray 0 = 2 ^ k := by
  rw [gray_ones, gray_zero, Nat.xor_zero]

/-- The full test the code relies on, on arbitrary `n`-bit Gray codes (`n ≥ 1`; for `n = 1` this is the
F6 repair): "top two bits differ and the rest agree" ⇔ the codes differ by the code of `2^(n-1)`. -/
theorem gray_full_test (n g h : Nat) (hn : 1 ≤ n) (hg : g < 2 ^ n) (hh : h < 2 ^ n) :
    wFull n g h = true ↔ g ^^^ h = gray (2 ^ (n - 1)) := wFull_iff_xor n g h hn hg hh

/-- … and in terms of unbounded counters `a` (written) and `b` (read, as seen by the writer) whose
residues the registers hold: with `b ≤ a ≤ b + depth`, full ⇔ exactly `depth = 2^(n-1)` apart. -/
theorem gray_full_test_counters (n a b : Nat) (hn : 1 ≤ n) (hba : b ≤ a) (hw : a ≤ b + 2 ^ (n - 1)) :
    wFull n (gray (a % 2 ^ n)) (gray (b % 2 ^ n)) = true ↔ a = b + 2 ^ (n - 1) := wFull_iff n a b hn hba hw

example : wFull 3 (gray 6) (gray 2) = true ∧ wFull 3 (gray 5) (gray 2) = false := by decide
/-- F6: the comparison of the current tree does not exist for 1-bit counters (`[-2]` → `IndexError`) -/
example : wFullOld 1 1 0 = none ∧ wFull 1 1 0 = true := by decide

/-! ## AsyncFIFO -/

/-- **Order, no loss, no duplication**: the words delivered so far are exactly the first words accepted,
in the same order. -/
theorem async_order (c : Cfg) (hc : 1 ≤ c.ctrBits) (es : List Event) :
    reads c init es = (writes c init es).take (reads c init es).length := by
  have h := reach_inv c hc es
  rw [← ghostOf_written, ← ghostOf_readLog, h.readLog_length]; exact h.log

/-- **`r_rdy` ⇒ `r_data` is the oldest unread word** (the next one in write order). -/
theorem async_r_data (c : Cfg) (hc : 1 ≤ c.ctrBits) (es : List Event) (hr : (run c init es).rRdy = true) :
    (writes c init es)[(reads c init es).length]? = some (run c init es).rData := by
  have h := reach_inv c hc es
  rw [← ghostOf_written, ← ghostOf_readLog, h.readLog_length]; exact h.rData_eq hc hr

/-- never more than `depth` words held … -/
theorem async_held_le_depth (c : Cfg) (hc : 1 ≤ c.ctrBits) (es : List Event) : held c es ≤ c.depth := by
  have h := reach_inv c hc es
  rw [held_eq c hc]; have := h.ord; omega

/-- … and **`w_rdy` is never asserted while `depth` words are held**. -/
theorem async_not_full_overrun (c : Cfg) (hc : 1 ≤ c.ctrBits) (es : List Event)
    (hw : (run c init es).wRdy c = true) : held c es < c.depth := by
  have h := reach_inv c hc es
  rw [held_eq c hc]; have := h.wRdy_lt hc hw; have := h.ord; omega

/-- **Both level outputs stay within `0..depth`**; `r_level` never exceeds the number of words held. -/
theorem levels_in_range (c : Cfg) (hc : 1 ≤ c.ctrBits) (es : List Event) :
    (outputs c (run c init es)).wLevel ≤ c.depth ∧ (outputs c (run c init es)).rLevel ≤ c.depth ∧
    (outputs c (run c init es)).rLevel ≤ held c es := by
  have h := reach_inv c hc es
  have ho := h.ord
  refine ⟨h.wlev, ?_, ?_⟩
  · show (run c init es).rLevel c ≤ c.depth
    rw [h.rLevel_eq hc]; omega
  · show (run c init es).rLevel c ≤ held c es
    rw [h.rLevel_eq hc, held_eq c hc]; omega

/-- **Drain bound.**  Once writing has stopped (`w_en` low in all of `post`), after **2 read-clock
edges** (no write-clock edge is needed; coincident edges count) the reader sees everything:
`r_rdy ⇔ something is held` and `r_level` is the exact number of words held — from then on, by
`async_r_data`, each held word is readable in turn. -/
theorem drains (c : Cfg) (hc : 1 ≤ c.ctrBits) (pre post : List Event)
    (hq : ∀ e ∈ post, e.inp.wEn = false) (h2 : 2 ≤ rEdges post) :
    ((run c init (pre ++ post)).rRdy = true ↔ 0 < held c (pre ++ post)) ∧
    (run c init (pre ++ post)).rLevel c = held c (pre ++ post) := by
  have h := reach_inv c hc (pre ++ post)
  have hquiet : 2 ≤ (ghostOf c (pre ++ post)).quiet := by
    unfold ghostOf; rw [grun_append]
    have := grun_quiet c post (grun c Ghost.init init pre) (run c init pre) hq
    omega
  have hp1 := (h.q2 hquiet).1
  rw [h.rRdy_iff hc, h.rLevel_eq hc, held_eq c hc, hp1]
  exact ⟨by omega, rfl⟩

/-- **Drain to empty.**  If the writer has stopped and the reader keeps `r_en` asserted, then after
`held + 2` read-clock edges (and no write-clock edge at all) every word ever written has been delivered. -/
theorem drains_all (c : Cfg) (hc : 1 ≤ c.ctrBits) (pre post : List Event)
    (hq : ∀ e ∈ post, e.inp.wEn = false ∧ e.inp.rEn = true) (hk : held c pre + 2 ≤ rEdges post) :
    reads c init (pre ++ post) = writes c init (pre ++ post) := by
  have h0 := reach_inv c hc pre
  have h := reach_inv c hc (pre ++ post)
  have ht := Inv.todo_run hc post h0 hq
  have hg : grun c (ghostOf c pre) (run c init pre) post = ghostOf c (pre ++ post) := by
    unfold ghostOf; rw [grun_append]
  rw [hg] at ht
  have hpre : (ghostOf c pre).todo ≤ held c pre + 2 := by
    unfold Ghost.todo; rw [held_eq c hc]; omega
  have hz : (ghostOf c (pre ++ post)).todo = 0 := by omega
  unfold Ghost.todo at hz
  have hle := h.nread_le
  rw [← ghostOf_written, ← ghostOf_readLog, h.log]
  apply List.take_of_length_le
  unfold Ghost.P at hz; omega

/-- **Refinement**: every run of the model from power-on is accepted by the two-sided bounded-queue
monitor of `Spec/Queue2` (all clauses at once, incl. the drain bound of 2 read edges). -/
theorem async_refines_queue2 (c : Cfg) (hc : 1 ≤ c.ctrBits) (es : List Event) :
    Queue2.accepts c.depth drainBound (toObs (outputs c init)) (specTrace c init es) = true := by
  unfold Queue2.accepts
  rw [async_accepts_from hc es 0 (inv_init c) gmon_init]; rfl

/- non-vacuity: a depth-4 FIFO (ctrBits 3), two writes, coincident edges, then reads -/
example :
    let c : Cfg := ⟨3, 8⟩
    let es := [Event.w ⟨true, 17, false⟩, .both ⟨true, 42, true⟩, .r ⟨false, 0, true⟩, .r ⟨false, 0, true⟩,
               .both ⟨false, 0, true⟩, .r ⟨false, 0, true⟩]
    writes c init es = [17, 42] ∧ reads c init es = [17, 42] ∧ (run c init es).rRdy = false := by decide
example : (run ⟨2, 4⟩ init [.w ⟨true, 1, false⟩, .w ⟨true, 2, false⟩]).wRdy ⟨2, 4⟩ = false := by decide

/-! ## AsyncFIFOBuffered -/

/-- order / no loss / no duplication through the output register -/
theorem buffered_order (c : Cfg) (hc : 1 ≤ c.ctrBits) (es : List Event) :
    breads c binit es = (bwrites c binit es).take (breads c binit es).length := by
  have h := breach_inv c hc es
  rw [← bghostOf_written, ← bghostOf_oLog, h.oLog_length]; exact h.olog

theorem buffered_r_data (c : Cfg) (hc : 1 ≤ c.ctrBits) (es : List Event) (hr : (brun c binit es).rRdy = true) :
    (bwrites c binit es)[(breads c binit es).length]? = some (brun c binit es).rData := by
  have h := breach_inv c hc es
  rw [← bghostOf_written, ← bghostOf_oLog, h.oLog_length]; exact h.rData_eq hr

/-- `w_rdy` ⇒ fewer than `depth = 2^(ctrBits-1) + 1` words held -/
theorem buffered_not_full_overrun (c : Cfg) (hc : 1 ≤ c.ctrBits) (es : List Event)
    (hw : (boutputs c (brun c binit es)).wRdy = true) : bheld c es < c.bdepth := by
  have h := breach_inv c hc es
  rw [bheld_eq c hc]; exact h.wRdy_lt hc hw

theorem buffered_held_le_depth (c : Cfg) (hc : 1 ≤ c.ctrBits) (es : List Event) : bheld c es ≤ c.bdepth := by
  have h := breach_inv c hc es
  rw [bheld_eq c hc]
  have ho := h.inner.ord
  have hb := h.buf
  unfold BGhost.nread Cfg.bdepth
  cases hr : (brun c binit es).rRdy
  · simp [b2n]; omega
  · have := (hb hr).1; simp [b2n]; omega

theorem buffered_levels_in_range (c : Cfg) (hc : 1 ≤ c.ctrBits) (es : List Event) :
    (boutputs c (brun c binit es)).wLevel ≤ c.bdepth ∧ (boutputs c (brun c binit es)).rLevel ≤ c.bdepth :=
  ⟨(breach_inv c hc es).wLevel_le, (breach_inv c hc es).rlev⟩

/-- drain bound of the buffered FIFO: **3 read-clock edges** after the last write -/
theorem buffered_drains (c : Cfg) (hc : 1 ≤ c.ctrBits) (pre post : List Event)
    (hq : ∀ e ∈ post, e.inp.wEn = false) (h3 : 3 ≤ rEdges post) :
    (brun c binit (pre ++ post)).rRdy = true ↔ 0 < bheld c (pre ++ post) := by
  have h := breach_inv c hc (pre ++ post)
  have hquiet : 3 ≤ (bghostOf c (pre ++ post)).g.quiet := by
    unfold bghostOf; rw [bgrun_append]
    have := bgrun_quiet c post (bgrun c BGhost.init binit pre) (brun c binit pre) hq
    omega
  have ho := h.inner.ord
  rw [bheld_eq c hc]
  unfold BGhost.nread
  cases hr : (brun c binit (pre ++ post)).rRdy
  · simp only [b2n, Bool.false_eq_true, if_false, false_iff]
    rcases h.q3 hquiet with hr' | he
    · rw [hr] at hr'; cases hr'
    · omega
  · have := (h.buf hr).1
    simp only [b2n, if_true, true_iff]; omega

/-- drain to empty through the output register: `held + 3` read-clock edges with `r_en` asserted -/
theorem buffered_drains_all (c : Cfg) (hc : 1 ≤ c.ctrBits) (pre post : List Event)
    (hq : ∀ e ∈ post, e.inp.wEn = false ∧ e.inp.rEn = true) (hk : bheld c pre + 3 ≤ rEdges post) :
    breads c binit (pre ++ post) = bwrites c binit (pre ++ post) := by
  have h0 := breach_inv c hc pre
  have h := breach_inv c hc (pre ++ post)
  have ht := BInv.todo_run hc post h0 hq
  have hg : bgrun c (bghostOf c pre) (brun c binit pre) post = bghostOf c (pre ++ post) := by
    unfold bghostOf; rw [bgrun_append]
  rw [hg, ← brun_append] at ht
  have hpre : (bghostOf c pre).todo (brun c binit pre) ≤ bheld c pre + 3 := by
    unfold BGhost.todo; rw [bheld_eq c hc]; omega
  have hz : (bghostOf c (pre ++ post)).todo (brun c binit (pre ++ post)) = 0 := by omega
  unfold BGhost.todo at hz
  have hle := h.nread_le
  rw [← bghostOf_written, ← bghostOf_oLog, h.olog]
  apply List.take_of_length_le
  unfold Ghost.P at hz; omega

theorem buffered_refines_queue2 (c : Cfg) (hc : 1 ≤ c.ctrBits) (es : List Event) :
    Queue2.accepts c.bdepth bdrainBound (toObs (boutputs c binit)) (bspecTrace c binit es) = true := by
  unfold Queue2.accepts
  rw [basync_accepts_from hc es 0 (binv_init c) bgmon_init]; rfl

example :
    let c : Cfg := ⟨2, 8⟩
    let es := [Event.w ⟨true, 17, false⟩, .w ⟨true, 42, false⟩, .w ⟨true, 43, false⟩, .r ⟨false, 0, false⟩,
               .r ⟨false, 0, false⟩, .r ⟨false, 0, true⟩, .r ⟨false, 0, true⟩, .both ⟨true, 43, true⟩, .r ⟨false, 0, true⟩]
    -- the third word is refused (the inner FIFO of depth 2 is full), the rest is delivered in order
    bwrites c binit es = [17, 42] ∧ breads c binit es = [17, 42] ∧ (brun c binit es).rRdy = false := by decide

/-! ## The monitor's queue is a FIFO (what "accepted by the monitor" buys) -/

/-- every monitor step keeps `popped ++ held = pushed` -/
theorem queue2_log (m : Queue2.Mon) (o : Queue2.Obs) (cl : Queue2.Clock) (st : Queue2.Strobes)
    (h : m.popped ++ m.held = m.pushed) :
    (m.step o cl st).popped ++ (m.step o cl st).held = (m.step o cl st).pushed := Mon.log_eq_step m o cl st h

/-! ## Depth 0 -/

/-- a FIFO of depth 0 (either class) drives `w_rdy = r_rdy = 0`: the monitor with capacity 0 accepts it forever -/
theorem zero_refines_queue2 (bound : Nat) (tr : List (Queue2.Clock × Queue2.Strobes)) :
    Queue2.accepts 0 bound (toObs zeroOutputs) (tr.map fun (cl, st) => (cl, st, toObs zeroOutputs)) = true := by
  unfold Queue2.accepts
  suffices h : ∀ (tr : List (Queue2.Clock × Queue2.Strobes)) (k q : Nat) (pu po : List Nat),
      Queue2.firstViolation 0 bound ⟨[], q, pu, po⟩ k (toObs zeroOutputs)
        (tr.map fun (cl, st) => (cl, st, toObs zeroOutputs)) = none by
    rw [show Queue2.Mon.init = ⟨[], 0, [], []⟩ from rfl, h]; rfl
  intro tr
  induction tr with
  | nil => intro k q pu po; simp [Queue2.firstViolation, Queue2.Mon.admits, Queue2.Mon.violated, toObs, zeroOutputs]
  | cons x tr ih =>
    intro k q pu po
    obtain ⟨cl, st⟩ := x
    simp only [List.map_cons, Queue2.firstViolation]
    have : (Queue2.Mon.admits 0 bound ⟨[], q, pu, po⟩ (toObs zeroOutputs)) = true := by
      simp [Queue2.Mon.admits, Queue2.Mon.violated, toObs, zeroOutputs]
    rw [this]
    simp only [if_true]
    have hs : (Queue2.Mon.step ⟨[], q, pu, po⟩ (toObs zeroOutputs) cl st) =
        ⟨[], if cl.isR then q + 1 else q, pu, po⟩ := by
      simp [Queue2.Mon.step, toObs, zeroOutputs]
    rw [hs]; exact ih _ _ _ _

/-! ## Constructors: rounding of `depth`, and elaboration -/

/-- `AsyncFIFO(depth=d)` (`d ≥ 1`) gets the least power of two `≥ d`, counters one bit wider than its
logarithm; this is the value the Spec's search `roundPow2` finds. -/
theorem depth_rounding (d : Nat) (hd : 1 ≤ d) :
    ∃ k, ctorAsync d false = .ok ⟨2 ^ k, k + 1⟩ ∧ d ≤ 2 ^ k ∧ (∀ j, d ≤ 2 ^ j → k ≤ j) ∧
      Queue2.roundPow2 d = 2 ^ k := by
  refine ⟨ceilLog2 d, ?_, (ceilLog2_spec d hd).1, (ceilLog2_spec d hd).2, roundPow2_eq d hd⟩
  have : (d != 0) = true := by simp; omega
  simp [ctorAsync, this, shiftLeft_one]

/-- with `exact_depth=True` a non-zero depth is accepted iff it is a power of two, and then kept -/
theorem depth_rounding_exact (d : Nat) (hd : 1 ≤ d) :
    (ctorAsync d true = .ok ⟨d, ceilLog2 d + 1⟩ ∧ d = 2 ^ ceilLog2 d) ∨
    (ctorAsync d true = .error .valueError ∧ ∀ k, d ≠ 2 ^ k) := by
  have hne : (d != 0) = true := by simp; omega
  by_cases h : d = 2 ^ ceilLog2 d
  · left
    refine ⟨?_, h⟩
    simp only [ctorAsync, hne, if_true, shiftLeft_one]
    rw [← h]; simp
  · right
    constructor
    · simp only [ctorAsync, hne, if_true, shiftLeft_one]
      simp [h]
    · intro k hk
      apply h
      have h1 := (ceilLog2_spec d hd).1
      have h2 := (ceilLog2_spec d hd).2 k (by omega)
      have : 2 ^ ceilLog2 d ≤ 2 ^ k := Nat.pow_le_pow_right (by decide) h2
      omega

/-- depth 0 is kept by both classes -/
theorem depth_rounding_zero (ex : Bool) : ctorAsync 0 ex = .ok ⟨0, 1⟩ ∧ ctorBuffered 0 ex = .ok ⟨0, 1⟩ := by
  cases ex <;> exact ⟨rfl, rfl⟩

/-- `AsyncFIFOBuffered(depth=d)` (`d ≥ 2`) gets the least `2^k + 1 ≥ d` with an inner FIFO of depth `2^k`;
`d = 1` gets 2 (`k = 0`). -/
theorem depth_rounding_buffered (d : Nat) (hd : 2 ≤ d) :
    ∃ k, ctorBuffered d false = .ok ⟨2 ^ k + 1, k + 1⟩ ∧ d ≤ 2 ^ k + 1 ∧ (∀ j, d ≤ 2 ^ j + 1 → k ≤ j) ∧
      Queue2.roundPow2Plus1 d = 2 ^ k + 1 := by
  obtain ⟨h1, h2⟩ := ceilLog2_spec (d - 1) (by omega)
  refine ⟨ceilLog2 (d - 1), ?_, by omega, fun j hj => h2 j (by omega), roundPow2Plus1_eq d hd⟩
  have hne : (d != 0) = true := by simp; omega
  have hp : (2 ^ ceilLog2 (d - 1) != 0) = true := by
    simp
  have hcl : ceilLog2 (2 ^ ceilLog2 (d - 1)) = ceilLog2 (d - 1) := by
    have hpos := Nat.two_pow_pos (ceilLog2 (d - 1))
    obtain ⟨a, b⟩ := ceilLog2_spec (2 ^ ceilLog2 (d - 1)) hpos
    apply Nat.le_antisymm
    · exact b _ (Nat.le_refl _)
    · exact (Nat.pow_le_pow_iff_right (by decide)).1 a
  simp [ctorBuffered, ctorAsync, hne, shiftLeft_one, hp, hcl]

example : ctorBuffered 1 false = .ok ⟨2, 1⟩ ∧ ctorBuffered 6 false = .ok ⟨9, 4⟩ ∧ ctorAsync 17 false = .ok ⟨32, 6⟩ ∧
    ctorAsync 5 true = .error .valueError ∧ ctorBuffered 5 true = .ok ⟨5, 3⟩ := ⟨rfl, rfl, rfl, rfl, rfl⟩

/-- every FIFO that can be constructed has counters of at least one bit, and a non-zero depth is the one
the queue theorems above are about (`Cfg.depth`, resp. `Cfg.bdepth`, of `⟨ctrBits, width⟩`) -/
theorem built_async (d : Nat) (ex : Bool) (b : Built) (h : ctorAsync d ex = .ok b) :
    1 ≤ b.ctrBits ∧ (b.depth ≠ 0 → b.depth = (Cfg.mk b.ctrBits 0).depth) := by
  unfold ctorAsync at h
  split at h
  · dsimp only at h
    split at h
    · cases h
    · cases h; simp [Cfg.depth, shiftLeft_one]
  · cases h; simp

theorem built_buffered (d : Nat) (ex : Bool) (b : Built) (h : ctorBuffered d ex = .ok b) :
    1 ≤ b.ctrBits ∧ (b.depth ≠ 0 → b.depth = (Cfg.mk b.ctrBits 0).bdepth) := by
  unfold ctorBuffered at h
  split at h
  · dsimp only at h
    split at h
    · cases h
    · have hp : ((1 <<< ceilLog2 (d - 1) + 1 - 1) != 0) = true := by
        simp [shiftLeft_one]
      simp only [ctorAsync, hp, if_true, Bool.false_and, Bool.false_eq_true, if_false] at h
      cases h
      simp only [Nat.add_sub_cancel, shiftLeft_one, Cfg.bdepth, Cfg.depth]
      have hpos := Nat.two_pow_pos (ceilLog2 (d - 1))
      have hcl : ceilLog2 (2 ^ ceilLog2 (d - 1)) = ceilLog2 (d - 1) := by
        obtain ⟨a, b⟩ := ceilLog2_spec (2 ^ ceilLog2 (d - 1)) hpos
        apply Nat.le_antisymm
        · exact b _ (Nat.le_refl _)
        · exact (Nat.pow_le_pow_iff_right (by decide)).1 a
      simp [hcl]
  · cases h; simp

/-- **Every constructible depth elaborates** (repaired model: no integer index of `elaborate` is out of
range whatever the constructor accepted). -/
theorem elaborates (d : Nat) (ex : Bool) (b : Built)
    (h : ctorAsync d ex = .ok b ∨ ctorBuffered d ex = .ok b) : elaborate b = .ok () := by
  have hb : 1 ≤ b.ctrBits := by
    rcases h with h | h
    · exact (built_async d ex b h).1
    · exact (built_buffered d ex b h).1
  unfold elaborate
  by_cases h0 : b.depth = 0
  · simp [h0]
  · by_cases h1 : b.ctrBits = 1
    · simp [h0, h1, indexOk]
    · have i1 : indexOk b.ctrBits (-1) = true := by simp [indexOk]; omega
      have i2 : indexOk b.ctrBits (-2) = true := by simp [indexOk]; omega
      simp [h0, h1, i1, i2]

/-- The current tree (F6): elaboration succeeds for every constructible FIFO *except* those with 1-bit
counters, i.e. requested depth 1 (`AsyncFIFO`) and 1, 2 (`AsyncFIFOBuffered`).
Full statement (false on the current tree): `ctorAsync d ex = .ok b ∨ ctorBuffered d ex = .ok b → elaborateOld b = .ok ()`. -/
theorem elaborates_old_partial (d : Nat) (ex : Bool) (b : Built)
    (h : (ctorAsync d ex = .ok b ∧ d ≠ 1) ∨ (ctorBuffered d ex = .ok b ∧ d ≠ 1 ∧ d ≠ 2)) :
    elaborateOld b = .ok () := by
  have key : b.depth = 0 ∨ 2 ≤ b.ctrBits := by
    rcases h with ⟨h, hd⟩ | ⟨h, hd1, hd2⟩
    · unfold ctorAsync at h
      split at h
      · dsimp only at h
        split at h
        · cases h
        · cases h
          right
          have hd0 : 1 ≤ d := by rename_i h0 _; simp at h0; omega
          have : ceilLog2 d ≠ 0 := by
            intro h0; have := (ceilLog2_spec d hd0).1; rw [h0] at this; simp at this; omega
          show 2 ≤ ceilLog2 d + 1
          omega
      · cases h; left; rfl
    · unfold ctorBuffered at h
      split at h
      · dsimp only at h
        split at h
        · cases h
        · rename_i h0 _
          have hd0 : 3 ≤ d := by simp at h0; omega
          have hp : ((1 <<< ceilLog2 (d - 1) + 1 - 1) != 0) = true := by
            simp [shiftLeft_one]
          simp only [ctorAsync, hp, if_true, Bool.false_and, Bool.false_eq_true, if_false] at h
          cases h
          right
          have hc : ceilLog2 (d - 1) ≠ 0 := by
            intro h0; have := (ceilLog2_spec (d - 1) (by omega)).1; rw [h0] at this; simp at this; omega
          have hpos := Nat.two_pow_pos (ceilLog2 (d - 1))
          have hcl : ceilLog2 (2 ^ ceilLog2 (d - 1)) = ceilLog2 (d - 1) := by
            obtain ⟨a, b⟩ := ceilLog2_spec (2 ^ ceilLog2 (d - 1)) hpos
            apply Nat.le_antisymm
            · exact b _ (Nat.le_refl _)
            · exact (Nat.pow_le_pow_iff_right (by decide)).1 a
          simp only [Nat.add_sub_cancel, shiftLeft_one, hcl]
          omega
      · cases h; left; rfl
  unfold elaborateOld
  rcases key with h0 | h2
  · simp [h0]
  · have i1 : indexOk b.ctrBits (-1) = true := by simp [indexOk]; omega
    have i2 : indexOk b.ctrBits (-2) = true := by simp [indexOk]; omega
    simp [i1, i2]

/-- F6 witnesses: these construct, and the current tree's `elaborate` raises `IndexError` -/
example : ctorAsync 1 false = .ok ⟨1, 1⟩ ∧ elaborateOld ⟨1, 1⟩ = .error .indexError ∧ elaborate ⟨1, 1⟩ = .ok () :=
  ⟨rfl, rfl, rfl⟩
example : ctorBuffered 2 true = .ok ⟨2, 1⟩ ∧ elaborateOld ⟨2, 1⟩ = .error .indexError ∧ elaborate ⟨2, 1⟩ = .ok () :=
  ⟨rfl, rfl, rfl⟩
example : ctorBuffered 3 false = .ok ⟨3, 2⟩ ∧ elaborateOld ⟨3, 2⟩ = .ok () := ⟨rfl, rfl⟩

end Amaranth.C13
