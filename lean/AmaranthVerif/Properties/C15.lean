import AmaranthVerif.Proofs.Data

/-!
# C15 — data layouts and shaped enumerations obey the shape-castable laws

Model: `Model/Data.lean` (follows `amaranth/lib/data.py`, `amaranth/lib/enum.py`).
Spec: `Spec/Data.lean` (placement sentences, bit slices, last-write-wins bits, mask algebra).

Every theorem quantifies over all layout trees (`Layout`, `FieldShape`, `Members` are mutually
inductive, so a field's shape is an arbitrary layout again), all widths, lengths, offsets, bit
patterns and initialisers. `example`s are non-vacuity tests on literals.
-/

namespace Amaranth.C15
open Amaranth.Data
open Amaranth.Data.Spec (structOffsets structSize IsLargest arrayOffsets arraySize sliceBits reinterpret
  constBits assigned lowBits BitsRoundTrip)

/-! ## Sample objects for the non-vacuity examples -/

/-- `Enum, shape=signed(3)`: N = -2, Z = 0, P = 3 -/
def ES : EnumTy := ⟨.s 3, [-2, 0, 3], none⟩
/-- `Flag, shape=4`: A = 1, B = 2 -/
def FK : EnumTy := ⟨.u 4, [1, 2], some .keep⟩
def FS : EnumTy := ⟨.u 4, [1, 2, 4], some .strict⟩
/-- `StructLayout({"a": signed(3), "e": ES, "u": UnionLayout({"x": 4, "y": ArrayLayout(2, 3)})})` -/
def L0 : Layout :=
  .struct (.cons (.name "a") (.plain (.s 3)) 0
          (.cons (.name "e") (.enum ES) 0
          (.cons (.name "u") (.layout (.union (.cons (.name "x") (.plain (.u 4)) 0
                                             (.cons (.name "y") (.layout (.array (.plain (.u 2)) 3)) 0 .nil)))) 0
          .nil)))

/-! ## Placement -/

/-- **struct**: the fields are the members in declaration order, each starting where the previous
ones end, and the size is the sum of the member sizes — for every member list and every nesting
(the width of a member that is itself a layout is that layout's size). -/
theorem struct_offsets (ms : Members) :
    (Layout.struct ms).fields.map (fun kf => (kf.1, kf.2.shape)) = ms.toList.map (fun e => (e.1, e.2.1)) ∧
    (Layout.struct ms).fields.map (fun kf => kf.2.offset) = structOffsets ms.widths ∧
    (Layout.struct ms).size = structSize ms.widths := by
  refine ⟨structFields_keys_shapes _ _, ?_, struct_size_eq ms⟩
  have := structFields_offsets ms.toList 0
  simpa [Layout.fields, Members.widths] using this

example : (L0.fields.map fun kf => kf.2.offset) = [0, 3, 6] ∧ L0.size = 12 := by decide

/-- **union**: every field starts at bit 0 and the size is that of the largest member. -/
theorem union_offsets (ms : Members) :
    (Layout.union ms).fields.map (fun kf => (kf.1, kf.2.shape)) = ms.toList.map (fun e => (e.1, e.2.1)) ∧
    (∀ kf ∈ (Layout.union ms).fields, kf.2.offset = 0) ∧
    IsLargest ms.widths (Layout.union ms).size := by
  refine ⟨?_, ?_, ?_⟩
  · simp [Layout.fields, List.map_map, Function.comp]
  · intro kf h
    simp only [Layout.fields, List.mem_map] at h
    obtain ⟨e, _, rfl⟩ := h
    rfl
  · simp only [Layout.size, unionSize_eq]
    exact isLargest_unionSize _

example : (Layout.union (.cons (.name "x") (.plain (.u 4)) 0
            (.cons (.name "y") (.layout (.array (.plain (.u 2)) 3)) 0 .nil))).size = 6 := by decide

/-- **array**: element `i` is at `i * width`, both for iteration (a running sum in the code) and
for indexing (a product in the code); the size is `length * width`. -/
theorem array_offsets (elem : FieldShape) (n : Nat) :
    (Layout.array elem n).fields =
      (List.range n).map (fun i => (Key.idx i, (⟨elem, i * elem.width⟩ : Field))) ∧
    (Layout.array elem n).fields.map (fun kf => kf.2.offset) = arrayOffsets elem.width n ∧
    (∀ i, i < n → (Layout.array elem n).get? (.idx i) = some ⟨elem, i * elem.width⟩) ∧
    (∀ k, (Layout.array elem n).get? k = lookup k (Layout.array elem n).fields) ∧
    (Layout.array elem n).size = arraySize elem.width n := by
  have h1 : (Layout.array elem n).fields =
      (List.range n).map (fun i => (Key.idx i, (⟨elem, i * elem.width⟩ : Field))) := by
    simp [Layout.fields, arrayFields_eq]
  refine ⟨h1, ?_, ?_, array_get_eq_lookup elem n, ?_⟩
  · rw [h1]; simp [arrayOffsets, List.map_map, Function.comp]
  · intro i hi; simp [Layout.get?, hi]
  · simp [Layout.size, arraySize, Nat.mul_comm]

example : ((Layout.array (.layout L0) 3).fields.map fun kf => kf.2.offset) = [0, 12, 24] := by decide

/-- every field of every layout lies inside the layout (flexible layouts: because the constructor
checks it), so a slice of a slice never clips -/
theorem field_in_bounds (l : Layout) (hok : l.Ok) (k : Key) (f : Field) (h : l.get? k = some f) :
    f.offset + f.width ≤ l.size :=
  get?_in_bounds hok h

/-- struct and array layouts never overlap two fields -/
theorem struct_array_nonoverlapping :
    (∀ ms, (Layout.struct ms).NonOverlapping) ∧ (∀ e n, (Layout.array e n).NonOverlapping) :=
  ⟨struct_nonoverlapping, array_nonoverlapping⟩

/-! ## Constants from field values -/

/-- **the bits of `Layout.const(init)`**: a value that starts as all zeros and has every field
assigned in the order of the initialiser; per bit, the last field covering it decides. Holds for
every layout kind, overlapping or not. -/
theorem const_bits (l : Layout) (hok : l.Ok) (kvs : Inits) (c : Nat) (hc : l.const (.map kvs) = .ok c) :
    ∃ es, entriesOf l kvs = .ok es ∧ c = constBits l.size (es.map Entry.toWrite) := by
  simp only [Layout.const, valueOf] at hc
  split at hc
  · rename_i v hv
    split at hv
    · cases hv
    · split at hv
      · rename_i es hes
        simp only [Except.ok.injEq] at hv hc
        refine ⟨es, hes, ?_⟩
        rw [← hc, ← hv, Int.toNat_natCast]
        exact pack_eq_constBits (entriesOf_inBounds hok hes)
      · cases hv
  · cases hc

/-- the value always fits the layout, so `Const(layout, value)` is accepted -/
theorem const_in_range (l : Layout) (hok : l.Ok) (init : Init) (c : Nat) (hc : l.const init = .ok c) :
    c < 2 ^ l.size := by
  cases init with
  | none =>
    simp only [Layout.const, valueOf, Except.ok.injEq] at hc
    subst hc; exact Nat.two_pow_pos _
  | int v => simp [Layout.const, valueOf] at hc
  | bits raw =>
    simp only [Layout.const, valueOf] at hc
    split at hc
    · rename_i v hv
      split at hv
      · rename_i hlt
        simp only [Except.ok.injEq] at hv hc
        subst hv; subst hc; simpa using hlt
      · cases hv
    · cases hc
  | map kvs =>
    obtain ⟨es, _, rfl⟩ := const_bits l hok kvs c hc
    exact ofBits_lt _ _

/-- **building a constant from field values and reading a field back**: the field named by entry
number `i` of the initialiser holds the low bits of that entry's value, provided no *later* entry
overlaps it (never the case in struct and array layouts; in a union or an overlapping flexible
layout the last assignment wins). -/
theorem const_field (l : Layout) (kvs : Inits) (c : Nat) (hc : l.const (.map kvs) = .ok c)
    (i : Nat) (k : Key) (v : Init) (hi : kvs.toList[i]? = some (k, v))
    (f : Field) (hf : l.get? k = some f)
    (hlater : ∀ j k' v' f', i < j → kvs.toList[j]? = some (k', v') → l.get? k' = some f' →
      Spec.Disjoint f.offset f.width f'.offset f'.width) :
    ∃ x, valueOf f.shape v = .ok x ∧ slice c f.offset f.width = pattern f.width x := by
  simp only [Layout.const, valueOf] at hc
  split at hc
  · rename_i vv hv
    split at hv
    · cases hv
    · split at hv
      · rename_i es hes
        simp only [Except.ok.injEq] at hv hc
        have hspec := entriesOf_spec l kvs es hes
        obtain ⟨f0, x, hf0, hx, hes_i⟩ := hspec.2 i k v hi
        rw [hf] at hf0
        simp only [Option.some.injEq] at hf0
        subst hf0
        refine ⟨x, hx, ?_⟩
        rw [← hc, ← hv, Int.toNat_natCast]
        have := slice_pack es i ⟨f.offset, f.width, x⟩ 0 hes_i ?_
        · exact this
        · intro j e' hj hej
          have hjl : j < kvs.toList.length := by
            have := (List.getElem?_eq_some_iff.1 hej).1
            omega
          obtain ⟨f', x', hf', _, hes_j⟩ :=
            hspec.2 j (kvs.toList[j]).1 (kvs.toList[j]).2 (by simp [hjl])
          rw [hej] at hes_j
          simp only [Option.some.injEq] at hes_j
          subst hes_j
          exact hlater j (kvs.toList[j]).1 (kvs.toList[j]).2 f' hj (by simp [hjl]) hf'
      · cases hv
  · cases hc

/-- reading back through `Const.__getitem__`: a plain field gives the value normalised to the
field's shape; an enumeration field gives the member; a nested layout gives the nested constant
(to which this theorem applies again: all depths). -/
theorem const_field_lifted (l : Layout) (kvs : Inits) (c : Nat) (hc : l.const (.map kvs) = .ok c)
    (i : Nat) (k : Key) (v : Init) (hi : kvs.toList[i]? = some (k, v))
    (f : Field) (hf : l.get? k = some f)
    (hlater : ∀ j k' v' f', i < j → kvs.toList[j]? = some (k', v') → l.get? k' = some f' →
      Spec.Disjoint f.offset f.width f'.offset f'.width) :
    (∀ s n, f.shape = .plain s → v = .int n → (DConst.mk l c).get k = some (.int (norm s n))) ∧
    (∀ e n, f.shape = .enum e → e.WF → e.valid n = true → v = .int n →
        (DConst.mk l c).get k = some (.member n)) ∧
    (∀ sub c', f.shape = .layout sub → sub.Ok → sub.const v = .ok c' →
        (DConst.mk l c).get k = some (.const sub c')) := by
  obtain ⟨x, hx, hs⟩ := const_field l kvs c hc i k v hi f hf hlater
  refine ⟨?_, ?_, ?_⟩
  · intro s n hsh hv
    subst hv
    have hw : f.width = s.width := by simp [Field.width, hsh, FieldShape.width]
    rw [hsh] at hx
    simp only [valueOf, Except.ok.injEq] at hx
    subst hx
    simp only [DConst.get, hf, lift, hsh]
    rw [hs, hw, norm_pattern, norm_norm]
  · intro e n hsh hwf hval hv
    subst hv
    have hw : f.width = e.shape.width := by simp [Field.width, hsh, FieldShape.width]
    rw [hsh] at hx
    by_cases hvalid : e.valid n = true
    · simp only [valueOf, EnumTy.const, Option.getD_some, EnumTy.call, hvalid, if_true, Except.ok.injEq] at hx
      subst hx
      simp only [DConst.get, hf, lift, hsh]
      rw [hs, hw, norm_pattern, norm_norm, norm_of_contains e.shape hwf.1 (valid_contains e hwf hvalid)]
      simp [EnumTy.fromBits, EnumTy.call, hvalid, EnumVal.lifted]
    · exact absurd hval hvalid
  · intro sub c' hsh hsub hc'
    have hw : f.width = sub.size := by simp [Field.width, hsh, FieldShape.width]
    rw [hsh] at hx
    simp only [Layout.const] at hc'
    rw [hx] at hc'
    simp only [Except.ok.injEq] at hc'
    have hlt := const_in_range sub hsub v c' (by simp [Layout.const, hx, hc'])
    have hx0 : x = (c' : Int) := by
      -- `valueOf` of a layout is never negative
      cases v with
      | none => simp only [valueOf, Except.ok.injEq] at hx; subst hx; simp at hc'; omega
      | int n => simp [valueOf] at hx
      | bits raw =>
        simp only [valueOf] at hx
        split at hx
        · simp only [Except.ok.injEq] at hx; subst hx; simp at hc'; omega
        · cases hx
      | map kvs' =>
        simp only [valueOf] at hx
        split at hx
        · cases hx
        · split at hx
          · simp only [Except.ok.injEq] at hx; subst hx; simp at hc'; omega
          · cases hx
    simp only [DConst.get, hf, lift, hsh]
    rw [hs, hw, hx0, pattern_of_nat_lt hlt]

example : L0.const (.map (.cons (.name "a") (.int (-3)) (.cons (.name "e") (.int (-2)) .nil))) = .ok 0b110101 ∧
    (DConst.mk L0 0b110101).get (.name "a") = some (.int (-3)) ∧
    (DConst.mk L0 0b110101).get (.name "e") = some (.member (-2)) := by decide

/-- in a layout whose fields never overlap (struct, array — `struct_array_nonoverlapping` —, a
flexible layout with disjoint fields), an initialiser with distinct keys (a Python `dict` or
sequence) gives back **every** field value. -/
theorem const_field_all (l : Layout) (hno : l.NonOverlapping) (kvs : Inits) (c : Nat)
    (hc : l.const (.map kvs) = .ok c) (hkeys : (kvs.toList.map (·.1)).Nodup)
    (i : Nat) (k : Key) (v : Init) (hi : kvs.toList[i]? = some (k, v)) :
    ∃ f x, l.get? k = some f ∧ valueOf f.shape v = .ok x ∧ slice c f.offset f.width = pattern f.width x := by
  -- the key resolves, because `const` succeeded
  have hres : ∃ f, l.get? k = some f := by
    simp only [Layout.const, valueOf] at hc
    split at hc
    · rename_i vv hv
      split at hv
      · cases hv
      · split at hv
        · rename_i es hes
          obtain ⟨f, _, hf, _, _⟩ := (entriesOf_spec l kvs es hes).2 i k v hi
          exact ⟨f, hf⟩
        · cases hv
    · cases hc
  obtain ⟨f, hf⟩ := hres
  obtain ⟨x, hx, hs⟩ := const_field l kvs c hc i k v hi f hf (by
    intro j k' v' f' hj hj' hf'
    apply hno k k' f f' _ hf hf'
    intro hkk
    have hp := List.pairwise_iff_getElem.1 hkeys
    have hil : i < kvs.toList.length := (List.getElem?_eq_some_iff.1 hi).1
    have hjl : j < kvs.toList.length := (List.getElem?_eq_some_iff.1 hj').1
    have := hp i j (by simpa using hil) (by simpa using hjl) hj
    apply this
    simp only [List.getElem_map]
    rw [(List.getElem?_eq_some_iff.1 hi).2, (List.getElem?_eq_some_iff.1 hj').2]
    exact hkk)
  exact ⟨f, x, hf, hx, hs⟩

/-! ## Bits round trips -/

/-- **`from_bits` then `as_bits` is the identity** on every bit pattern of the layout, and
`as_value()` is the unsigned constant with those bits -/
theorem bits_roundtrip (l : Layout) :
    BitsRoundTrip l.size (fun r => (l.fromBits r).toOption) DConst.asBits ∧
    ∀ raw : Nat, raw < 2 ^ l.size → (l.fromBits raw).toOption.map DConst.asValue = some (raw : Int) := by
  constructor
  · intro raw h
    have h' : (0 : Int) ≤ raw ∧ (raw : Int) < 2 ^ l.size := ⟨by omega, by exact_mod_cast h⟩
    simp [Layout.fromBits, h', Except.toOption, DConst.asBits]
  · intro raw h
    have h' : (0 : Int) ≤ raw ∧ (raw : Int) < 2 ^ l.size := ⟨by omega, by exact_mod_cast h⟩
    simp [Layout.fromBits, h', Except.toOption, DConst.asValue, norm_unsigned_of_lt h]

example : (L0.fromBits 0b110101).toOption.map DConst.asBits = some 0b110101 := by decide

/-- **the law documented on `ShapeCastable.from_bits`** for layouts:
`Const.cast(l.const(l.from_bits(raw))).value == raw` -/
theorem const_from_bits_law (l : Layout) (raw : Nat) (h : raw < 2 ^ l.size) :
    (match l.fromBits raw with
     | .ok c => l.const (.bits c.raw)
     | .error e => .error e) = .ok raw := by
  have h' : (0 : Int) ≤ raw ∧ (raw : Int) < 2 ^ l.size := ⟨by omega, by exact_mod_cast h⟩
  simp [Layout.fromBits, h', Layout.const, valueOf, h]

/-- F11: before the repair the law fails for every bare union layout (`TypeError`) -/
example : (Layout.union (.cons (.name "a") (.plain (.u 4)) 0 (.cons (.name "b") (.plain (.u 2)) 0 .nil))).constOld
    (.bits 5) ≠ .ok 5 := by decide
example : (Layout.union (.cons (.name "a") (.plain (.u 4)) 0 (.cons (.name "b") (.plain (.u 2)) 0 .nil))).const
    (.bits 5) = .ok 5 := by decide

/-! ## Views -/

/-- **a view's field is the bit slice of the underlying value, reinterpreted in the field's
shape**: the slice has exactly the bits `offset ≤ · < offset + width` of the target; a plain field
reads as the two's-complement value of those bits in the field's shape; enumeration and layout
fields are lifted from the same bits. -/
theorem view_is_slice (l : Layout) (raw : Nat) (k : Key) (f : Field) (hf : l.get? k = some f) :
    viewGet l raw k = some (lift f.shape (sliceBits raw f.offset f.width)) ∧
    (∀ s, f.shape = .plain s → s.WF →
      viewGet l raw k = some (.int (reinterpret s (sliceBits raw f.offset s.width)))) := by
  constructor
  · simp only [viewGet, hf, evalSlice_eq_slice, slice_eq_sliceBits]
  · intro s hsh hwf
    have hw : f.width = s.width := by simp [Field.width, hsh, FieldShape.width]
    simp only [viewGet, hf, evalSlice_eq_slice, hsh, lift, hw]
    rw [norm_eq_reinterpret s hwf (slice_lt _ _ _), slice_eq_sliceBits]

/-- `lib.data.Const` arithmetic and `View` slicing agree: a view over a signal holding `raw` reads
every field as the constant `from_bits(raw)` does -/
theorem view_eq_const (l : Layout) (raw : Nat) (k : Key) : viewGet l raw k = (DConst.mk l raw).get k := by
  simp only [viewGet, DConst.get]
  cases l.get? k with
  | none => rfl
  | some f => simp only [evalSlice_eq_slice]

/-- nested views: reading along a path of keys through well-formed nested layouts slices at the
*sum* of the offsets and never leaves the enclosing field — for paths of any length -/
theorem view_nested (sh : FieldShape) (path : List Key) (off : Nat) (f : Field)
    (hok : sh.deepOk = true) (h : resolve sh path off = some f) :
    off ≤ f.offset ∧ f.offset + f.width ≤ off + sh.width := by
  induction path generalizing sh off with
  | nil =>
    simp only [resolve, Option.some.injEq] at h
    subst h; simp [Field.width]
  | cons k ks ih =>
    cases sh with
    | plain s => simp [resolve] at h
    | enum e => simp [resolve] at h
    | layout l =>
      simp only [FieldShape.deepOk] at hok
      simp only [resolve] at h
      split at h
      · cases h
      · rename_i g hg
        have hb := get?_in_bounds (deepOk_ok l hok) hg
        have hg' := deepOk_field l hok (k, g) (get?_mem hg)
        obtain ⟨h1, h2⟩ := ih g.shape (off + g.offset) hg' h
        have hw : g.width = g.shape.width := rfl
        have hs : (FieldShape.layout l).width = l.size := by simp [FieldShape.width]
        rw [hs]
        omega

/-- a slice of a slice is the slice at the added offsets (what a nested view evaluates to) -/
theorem view_slice_slice (raw o₁ w₁ o₂ w₂ : Nat) (h : o₂ + w₂ ≤ w₁) :
    slice (slice raw o₁ w₁) o₂ w₂ = slice raw (o₁ + o₂) w₂ :=
  slice_slice raw o₁ w₁ o₂ w₂ h

example : viewGet L0 0b110101 (.name "e") = some (.member (-2)) ∧
    resolve (.layout L0) [.name "u", .name "y", .idx 2] 0 = some ⟨.plain (.u 2), 10⟩ := by decide

/-- F12: before the repair a signed enumeration field cannot be read: the view raises `TypeError`
and the constant hands the unsigned pattern 6 to `from_bits` (`ValueError`), where the member is -2 -/
example : viewGetOld L0 0b110101 (.name "e") = some .typeError ∧
    (DConst.mk L0 0b110101).getOld (.name "e") = some .invalid ∧
    (DConst.mk L0 0b110101).get (.name "e") = some (.member (-2)) := by decide

/-- **assigning through a view field changes only that field's bits**: after `view[k] = v` (in a
testbench or a circuit) bit `i` of the underlying value is bit `i - offset` of `v` inside
`[offset, offset + width)` and is unchanged outside; consequently the field reads back `v`
normalised to its shape and every field that does not overlap keeps its value. -/
theorem field_assign_local (l : Layout) (hok : l.Ok) (raw : Nat) (hraw : raw < 2 ^ l.size)
    (k : Key) (f : Field) (hf : l.get? k = some f) (v : Int) :
    viewSet l raw k v = some (assigned l.size raw f.offset f.width v) ∧
    (∀ i, (assigned l.size raw f.offset f.width v).testBit i =
        if f.offset ≤ i ∧ i < f.offset + f.width then (lowBits f.width v).testBit (i - f.offset)
        else raw.testBit i) ∧
    slice (assigned l.size raw f.offset f.width v) f.offset f.width = pattern f.width v ∧
    (∀ o w, Spec.Disjoint f.offset f.width o w →
        slice (assigned l.size raw f.offset f.width v) o w = slice raw o w) := by
  have hb := get?_in_bounds hok hf
  have hbit : ∀ i, (assigned l.size raw f.offset f.width v).testBit i =
      if f.offset ≤ i ∧ i < f.offset + f.width then (lowBits f.width v).testBit (i - f.offset)
      else raw.testBit i := by
    intro i
    rw [testBit_assigned]
    by_cases hi : i < l.size
    · simp [hi]
    · have h1 : ¬ (f.offset ≤ i ∧ i < f.offset + f.width) := by omega
      have h2 : raw < 2 ^ i := Nat.lt_of_lt_of_le hraw (Nat.pow_le_pow_right (by omega) (by omega))
      simp [hi, h1, Nat.testBit_lt_two_pow h2]
  refine ⟨?_, hbit, ?_, ?_⟩
  · simp only [viewSet, hf, assignBits_eq_assigned v hraw hb]
  · apply Nat.eq_of_testBit_eq; intro i
    rw [testBit_slice, hbit]
    by_cases hi : i < f.width
    · simp [hi, pattern_eq_lowBits]
    · have := pattern_lt f.width v
      have : pattern f.width v < 2 ^ i := Nat.lt_of_lt_of_le this (Nat.pow_le_pow_right (by omega) (by omega))
      simp [hi, Nat.testBit_lt_two_pow this]
  · intro o w hd
    apply Nat.eq_of_testBit_eq; intro i
    rw [testBit_slice, testBit_slice, hbit]
    by_cases hi : i < w
    · have : ¬ (f.offset ≤ o + i ∧ o + i < f.offset + f.width) := by
        rcases hd with hd | hd <;> omega
      simp [hi, this]
    · simp [hi]

example : viewSet L0 0b110101 (.name "e") 3 = some 0b011101 ∧
    viewGet L0 0b011101 (.name "e") = some (.member 3) ∧
    viewGet L0 0b011101 (.name "a") = viewGet L0 0b110101 (.name "a") := by decide

/-! ## Shaped enumerations -/

/-- **const / from_bits round trip of shaped enumerations**: for a class whose members fit its shape
and every member value (flag combination) `raw`: `E.from_bits(raw)` is the member with that value
and the constant `E.const` builds from that member has the value `raw` again — so
`Const.cast(E.const(E.from_bits(raw))).value == raw` and `E.from_bits(Const.cast(E.const(m)).value) == m`. -/
theorem enum_roundtrip (e : EnumTy) (hwf : e.WF) (raw : Int) (hv : e.valid raw = true) :
    e.fromBits raw = .member raw ∧ e.const (some raw) = .ok raw := by
  have hn := norm_of_contains e.shape hwf.1 (valid_contains e hwf hv)
  constructor
  · simp [EnumTy.fromBits, EnumTy.call, hv]
  · simp [EnumTy.const, EnumTy.call, hv, hn]

example : ES.WF ∧ ES.valid (-2) = true ∧ ES.const (some (-2)) = .ok (-2) ∧ ES.fromBits 1 = .invalid := by
  decide

/-! ## Flags -/

/-- **`&`, `|`, `^` of flag views are Python's `enum.Flag` operators**: intersection, union and
symmetric difference of the bit sets, and the result is again a value of the class (so Python does
not raise either). -/
theorem flag_ops (e : EnumTy) (b : Boundary) (hf : e.flag = some b) (x y : Nat)
    (hx : x < 2 ^ e.shape.width) (hy : y < 2 ^ e.shape.width) :
    flagAnd e x y = Spec.flagAnd e.shape.width x y ∧
    flagOr e x y = Spec.flagOr e.shape.width x y ∧
    flagXor e x y = Spec.flagXor e.shape.width x y ∧
    (e.valid x = true → e.valid y = true →
      e.valid (flagAnd e x y : Nat) = true ∧ e.valid (flagOr e x y : Nat) = true ∧
      e.valid (flagXor e x y : Nat) = true) := by
  have hbit : ∀ (z : Nat) (i : Nat), z < 2 ^ e.shape.width → ¬ i < e.shape.width → z.testBit i = false := by
    intro z i hz hi
    exact Nat.testBit_lt_two_pow (Nat.lt_of_lt_of_le hz (Nat.pow_le_pow_right (by omega) (by omega)))
  refine ⟨?_, ?_, ?_, ?_⟩
  · apply Nat.eq_of_testBit_eq; intro i
    simp only [flagAnd, Spec.flagAnd, testBit_ofBits, Nat.testBit_and]
    by_cases hi : i < e.shape.width
    · simp [hi]
    · simp [hi, hbit x i hx hi]
  · apply Nat.eq_of_testBit_eq; intro i
    simp only [flagOr, Spec.flagOr, testBit_ofBits, Nat.testBit_or]
    by_cases hi : i < e.shape.width
    · simp [hi]
    · simp [hi, hbit x i hx hi, hbit y i hy hi]
  · apply Nat.eq_of_testBit_eq; intro i
    simp only [flagXor, Spec.flagXor, testBit_ofBits, Nat.testBit_xor]
    by_cases hi : i < e.shape.width
    · simp [hi]
    · simp [hi, hbit x i hx hi, hbit y i hy hi]
  · intro vx vy
    simp only [EnumTy.valid, hf, Int.toNat_natCast, Bool.and_eq_true, decide_eq_true_eq, beq_iff_eq] at vx vy ⊢
    have sx := (subset_iff_testBit _ _).1 vx.2
    have sy := (subset_iff_testBit _ _).1 vy.2
    refine ⟨⟨by omega, ?_⟩, ⟨by omega, ?_⟩, ⟨by omega, ?_⟩⟩
    · apply (subset_iff_testBit _ _).2
      intro i hi
      simp only [flagAnd, Nat.testBit_and, Bool.and_eq_true] at hi
      exact sx i hi.1
    · apply (subset_iff_testBit _ _).2
      intro i hi
      simp only [flagOr, Nat.testBit_or, Bool.or_eq_true] at hi
      rcases hi with hi | hi
      · exact sx i hi
      · exact sy i hi
    · apply (subset_iff_testBit _ _).2
      intro i hi
      simp only [flagXor, Nat.testBit_xor] at hi
      cases hxi : x.testBit i
      · cases hyi : y.testBit i
        · simp [hxi, hyi] at hi
        · exact sy i hyi
      · exact sx i hxi

/-- **`~` of a flag view under `STRICT` and `CONFORM`** (the default is `STRICT`) is Python's: the
complement within the single-bit members, whatever the width of the shape; the result is a value
of the class. -/
theorem flag_invert (e : EnumTy) (b : Boundary) (hf : e.flag = some b) (hb : b = .strict ∨ b = .conform)
    (x : Nat) :
    flagInvert e x = Spec.complementIn e.singlesMask e.shape.width x ∧
    e.valid (flagInvert e x : Nat) = true := by
  have h1 : flagInvert e x = Spec.complementIn e.singlesMask e.shape.width x := by
    have : flagInvert e x = invW e.shape.width x &&& e.singlesMask := by
      rcases hb with rfl | rfl <;> simp [flagInvert, hf]
    rw [this]
    apply Nat.eq_of_testBit_eq; intro i
    simp only [Spec.complementIn, testBit_ofBits, Nat.testBit_and, testBit_invW]
    cases decide (i < e.shape.width) <;> cases x.testBit i <;> cases e.singlesMask.testBit i <;> rfl
  refine ⟨h1, ?_⟩
  simp only [EnumTy.valid, hf, Int.toNat_natCast, Bool.and_eq_true, decide_eq_true_eq, beq_iff_eq]
  refine ⟨by omega, ?_⟩
  apply (subset_iff_testBit _ _).2
  intro i hi
  rw [h1, Spec.complementIn, testBit_ofBits] at hi
  simp only [Bool.and_eq_true] at hi
  exact singles_subset_flagMask e i hi.2.1

example : flagInvert FS 0b0101 = 0b0010 ∧ FS.valid (0b0010 : Nat) = true := by decide

/- Full statement of the `~` clause for the two remaining boundaries (Python 3.11+: `cls(~value)`,
which `Flag._missing_` maps to `_all_bits_ - value` for `0 ≤ value ≤ _all_bits_`):

  theorem flag_invert_keep_eject (e) (hf : e.flag = some .keep ∨ e.flag = some .eject) (x) (hx : x ≤ e.allBits) :
      flagInvert e x = Spec.complementIn e.allBits (bitLength e.flagMask) x

It is false of the code when the shape is wider than `flag_mask.bit_length()` (the view complements
all bits of the shape): witness below. Proved here under the hypothesis that the shape is exactly as
wide as the flags need. -/
theorem flag_invert_keep_eject_partial (e : EnumTy) (b : Boundary) (hf : e.flag = some b)
    (hb : b = .keep ∨ b = .eject) (hw : e.shape.width = bitLength e.flagMask) (x : Nat) :
    flagInvert e x = Spec.complementIn e.allBits (bitLength e.flagMask) x := by
  have : flagInvert e x = invW e.shape.width x := by
    rcases hb with rfl | rfl <;> simp [flagInvert, hf]
  rw [this, hw]
  apply Nat.eq_of_testBit_eq; intro i
  simp only [Spec.complementIn, testBit_ofBits, testBit_invW, EnumTy.allBits, Nat.testBit_two_pow_sub_one]
  cases decide (i < bitLength e.flagMask) <;> cases x.testBit i <;> rfl

/-- witness: `Flag, shape=4, boundary=KEEP` with members 1, 2: Python's `~F(1)` is `F(2)`, the view
computes 14 -/
example : flagInvert FK 1 = 14 ∧ Spec.complementIn FK.allBits (bitLength FK.flagMask) 1 = 2 := by decide

example : flagInvert ⟨.u 2, [1, 2], some .keep⟩ 1 = 2 := by decide

end Amaranth.C15
