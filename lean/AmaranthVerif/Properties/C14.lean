import AmaranthVerif.Proofs.WiringConnect

/-!
# C14 — interface signatures, flipping and `connect()` preserve direction and data flow

Model: `Model/Wiring.lean` (follows `amaranth/lib/wiring.py`); Spec: `Spec/Wiring.lean`.
All statements are for arbitrary signature trees (any depth, any array dimensions, `In`/`Out` and
flipped sub-signatures at every level) and any number of `connect` arguments.

The model follows the *repaired* behaviour for two defects of the code as it stands; the old
behaviours are kept as `SigV.isCompliantOld` (F10) and `expandOld` (F13) with refuting witnesses below.
-/

namespace Amaranth.C14
open Amaranth.Wiring Amaranth.WiringSpec

/-! ## instances used by the non-vacuity examples (tests, not claims) -/

/-- `Signature({"x": Out(1), "y": In(signed(2), init=-1).array(2)})` -/
def inner : Sig := .cons "x" (.port .out ⟨1, false, 0⟩ []) (.cons "y" (.port .in ⟨2, true, -1⟩ [2]) .nil)
/-- `Signature({"arr": Out(inner).array(2), "z": In(inner.flip())})` -/
def mid : Sig := .cons "arr" (.iface .out false inner [2]) (.cons "z" (.iface .in true inner []) .nil)
/-- `Signature({"m": In(mid).array(1, 2), "d": Out(8, init=3)})` — depth 3, two levels of dimensions -/
def top : Sig := .cons "m" (.iface .in false mid [1, 2]) (.cons "d" (.port .out ⟨8, false, 3⟩ []) .nil)

def argA : Arg := ⟨0, (false, top), []⟩
def argB : Arg := ⟨1, (true, top), []⟩
/-- `Signature({"d": Out(8, init=3).array(2)})`, for the three-argument examples -/
def only : Sig := .cons "d" (.port .out ⟨8, false, 3⟩ [2]) .nil
def argO : Arg := ⟨0, (false, only), []⟩
def argOc : Arg := ⟨0, (false, only), [([.name "d", .idx 1], 3)]⟩
def argI : Arg := ⟨1, (true, only), []⟩
def argIc : Arg := ⟨2, (true, only), [([.name "d", .idx 1], 3)]⟩

/-! ## flipping -/

/-- Flipping twice gives back the original signature (every member, every depth, every dimension
is untouched; only the top-level flows are reversed twice). -/
theorem flip_flip (s : Sig) : s.flip.flip = s := Sig.flip_flip s

/-- The `FlippedSignature` proxy (the "seen flipped" flag) and the materialised flip are the same
signature as far as its leaves go. -/
theorem flip_view (fl : Bool) (pre : Path) (s : Sig) :
    Sig.leavesAux fl pre s.flip = Sig.leavesAux (!fl) pre s := Sig.leavesAux_flip fl pre s

/-- Flipping once reverses the effective direction of every leaf of `flatten` and keeps every
path, shape and initial value, in the same order — through the proxy and when materialised. -/
theorem flip_leaf (fl : Bool) (s : Sig) :
    SigV.flatten (!fl, s) = flipLeaves (SigV.flatten (fl, s)) ∧
    SigV.flatten (fl, s.flip) = flipLeaves (SigV.flatten (fl, s)) := by
  have h := Sig.leavesAux_not fl [] s
  refine ⟨h, ?_⟩
  simp only [SigV.flatten]
  rw [Sig.leavesAux_flip]
  exact h

example : (SigV.flatten (false, top)).length = 19 ∧ (SigV.flatten (true, top)).length = 19 := by decide
example : (SigV.flatten (false, top)).head? = some ([.name "m", .idx 0, .idx 0, .name "arr", .idx 0, .name "x"], ⟨.in, ⟨1, false, 0⟩⟩) := by
  decide

/-! ## create / is_compliant -/

/-- An interface object created from a signature (flipped or not) complies with it. `wf`: member
names are unique at every level (they are `dict` keys). -/
theorem create_compliant (sv : SigV) (hwf : sv.2.wf = true) : sv.isCompliant sv.create = .ok true :=
  SigV.create_compliant sv hwf

example : top.wf = true := by decide

/-- F10, the code as it stands: for a flipped signature with an array of sub-interfaces,
`is_compliant(create())` raises `TypeError` (`flipped()` applied to a list). -/
example : SigV.isCompliantOld (true, mid) (SigV.create (true, mid)) = .error .typeErr := by rfl
/-- … while the repaired accessor (flipped mapped over the dimensions) accepts it. -/
example : SigV.isCompliant (true, mid) (SigV.create (true, mid)) = .ok true := by rfl
/-- The old accessor is fine when no array of sub-interfaces is seen through a proxy. -/
example : SigV.isCompliantOld (false, mid) (SigV.create (false, mid)) = .ok true := by rfl

/-! ## flatten -/

/-- `flatten` visits every leaf exactly once, with its effective direction: the paths are pairwise
distinct, and `(p, l)` is listed iff navigating `p` from the root reaches the leaf `l`. -/
theorem flatten_once (sv : SigV) (hwf : sv.2.wf = true) :
    (sv.flatten.map (·.1)).Nodup ∧ ∀ p l, (p, l) ∈ sv.flatten ↔ leafAt sv p = some l := by
  refine ⟨?_, ?_⟩
  · rw [List.nodup_iff_pairwise_ne, List.pairwise_map]
    exact Sig.leavesAux_nodup sv.1 [] sv.2 hwf
  · intro p l
    have := Sig.mem_leavesAux sv.1 [] sv.2 hwf p l
    simp only [List.nil_append, exists_eq_left'] at this
    exact this

/-- Component metadata lists exactly the leaves of `flatten`, in order, each with its direction,
width, signedness and initial value. -/
theorem metadata_lists_leaves (sv : SigV) :
    sv.metadata.map (fun r => (r.dir, r.width, r.signed, r.init)) =
      sv.flatten.map (fun x => (x.2.flow, x.2.port.width, x.2.port.signed, x.2.port.init)) ∧
    sv.metadata.map (·.name) = sv.flatten.map (fun x => pathName x.1) := by
  simp [SigV.metadata, Function.comp_def]

/-! ## connect -/

/-- The lock-step walk of `connect` refines the declarative description: it succeeds exactly when
the description accepts the participants, and then returns exactly the described connections. -/
theorem connect_refines (args : List Arg) (hwf : ∀ a ∈ args, a.sv.2.wf = true) :
    ((∃ r, Wiring.connect args = .ok r) ↔ Accepts (args.map Arg.toPart)) ∧
    ∀ r, Wiring.connect args = .ok r → ∀ c, c ∈ r ↔ (2 ≤ args.length ∧ IsConn (args.map Arg.toPart) c) := by
  have := connectParts_spec (args.map Arg.toPart) (parts_nodup args hwf)
  simpa [Wiring.connect, okP] using this

/-- `connect` on compliant interfaces: when it succeeds, the connections made are exactly
`input leaf := the output leaf with the same path`, for every input leaf (of `flatten`) that is
not a constant and every output leaf (of `flatten`) of another argument at that path.  In
particular the left-hand side is never an output and never a constant. -/
theorem connect_sound (args : List Arg) (hwf : ∀ a ∈ args, a.sv.2.wf = true) (h2 : 2 ≤ args.length)
    (r : List Conn) (h : Wiring.connect args = .ok r) (c : Conn) :
    c ∈ r ↔ ∃ i ∈ args, ∃ o ∈ args, ∃ p li lo,
      (p, li) ∈ i.sv.flatten ∧ li.flow = .in ∧ (p, lo) ∈ o.sv.flatten ∧ lo.flow = .out ∧
      i.toPart.constAt p = none ∧ c = ((i.handle, p), (o.handle, p)) := by
  obtain ⟨hok, hmem⟩ := connect_refines args hwf
  have hacc : Accepts (args.map Arg.toPart) := hok.1 ⟨r, h⟩
  rw [hmem r h c]
  constructor
  · rintro ⟨_, pi, hpi, po, hpo, ei, hei, eo, heo, hpath, hin, hout, p, hp, hc, rfl⟩
    obtain ⟨ai, hai, rfl⟩ := List.mem_map.1 hpi
    obtain ⟨ao, hao, rfl⟩ := List.mem_map.1 hpo
    obtain ⟨pdi, hvi⟩ := isInE_iff.1 hin
    obtain ⟨pdo, hvo⟩ := isOutE_iff.1 hout
    -- the dimensions agree at this member, so `p` is also a leaf path of the input member
    have hrow : RowOk (rowAt (args.map Arg.toPart) eo.path) := by
      rcases hacc with hl | ⟨_, hr, _⟩
      · simp at hl; omega
      · apply hr
        simp only [allPaths, List.mem_flatMap]
        exact ⟨ao.toPart, hpo, List.mem_map.2 ⟨eo, heo, rfl⟩⟩
    have hseg : ei.segs = eo.segs :=
      hrow.2.2.2.2.1 (ai.toPart, ei) (mem_rowAt.2 ⟨hpi, hei, hpath⟩) (ao.toPart, eo) (mem_rowAt.2 ⟨hpo, heo, rfl⟩)
        hin hout
    refine ⟨ai, hai, ao, hao, p, ⟨.in, pdi⟩, ⟨.out, pdo⟩, ?_, rfl, ?_, rfl, hc, rfl⟩
    · exact (mem_flatten_iff ai p _).2 ⟨ei, hei, hvi, hseg ▸ hp⟩
    · exact (mem_flatten_iff ao p _).2 ⟨eo, heo, hvo, hp⟩
  · rintro ⟨ai, hai, ao, hao, p, li, lo, hli, hfi, hlo, hfo, hc, rfl⟩
    obtain ⟨ei, hei, hvi, hpi⟩ := (mem_flatten_iff ai p li).1 hli
    obtain ⟨eo, heo, hvo, hpo⟩ := (mem_flatten_iff ao p lo).1 hlo
    refine ⟨by simpa using h2, ai.toPart, List.mem_map.2 ⟨ai, hai, rfl⟩, ao.toPart, List.mem_map.2 ⟨ao, hao, rfl⟩,
      ei, hei, eo, heo, expand_path_eq hpi hpo, ?_, ?_, p, hpo, hc, rfl⟩
    · exact isInE_iff.2 ⟨li.port, by rw [hvi, hfi]⟩
    · exact isOutE_iff.2 ⟨lo.port, by rw [hvo, hfo]⟩

/-- … and the output is unique: an input leaf is never connected to two different arguments. -/
theorem connect_unique_output (args : List Arg) (hwf : ∀ a ∈ args, a.sv.2.wf = true)
    (r : List Conn) (h : Wiring.connect args = .ok r) (i o₁ o₂ : Nat × Path)
    (h₁ : (i, o₁) ∈ r) (h₂ : (i, o₂) ∈ r) : o₁ = o₂ := by
  obtain ⟨hok, hmem⟩ := connect_refines args hwf
  have hacc : Accepts (args.map Arg.toPart) := hok.1 ⟨r, h⟩
  obtain ⟨hlen, pi1, _, po1, hpo1, ei1, _, eo1, heo1, _, _, hout1, p1, hp1, _, hc1⟩ := (hmem r h _).1 h₁
  obtain ⟨_, pi2, _, po2, hpo2, ei2, _, eo2, heo2, _, _, hout2, p2, hp2, _, hc2⟩ := (hmem r h _).1 h₂
  simp only [Prod.mk.injEq] at hc1 hc2
  obtain ⟨hi1, rfl⟩ := hc1
  obtain ⟨hi2, rfl⟩ := hc2
  have hpp : p1 = p2 := by rw [hi1] at hi2; exact (Prod.mk.inj hi2).2
  subst hpp
  have hpath : eo1.path = eo2.path := expand_path_eq hp1 hp2
  have hrow : RowOk (rowAt (args.map Arg.toPart) eo1.path) := by
    rcases hacc with hl | ⟨_, hr, _⟩
    · simp at hl; omega
    · apply hr
      simp only [allPaths, List.mem_flatMap]
      exact ⟨po1, hpo1, List.mem_map.2 ⟨eo1, heo1, rfl⟩⟩
  have hone := hrow.2.2.2.1
  unfold OneOutput at hone
  have m1 : (po1, eo1) ∈ (rowAt (args.map Arg.toPart) eo1.path).filter isOutE :=
    List.mem_filter.2 ⟨mem_rowAt.2 ⟨hpo1, heo1, rfl⟩, hout1⟩
  have m2 : (po2, eo2) ∈ (rowAt (args.map Arg.toPart) eo1.path).filter isOutE :=
    List.mem_filter.2 ⟨mem_rowAt.2 ⟨hpo2, heo2, hpath.symm⟩, hout2⟩
  match hf : (rowAt (args.map Arg.toPart) eo1.path).filter isOutE, hone, m1, m2 with
  | [x], _, m1, m2 =>
    simp only [List.mem_singleton] at m1 m2
    have : po1 = po2 := by rw [Prod.ext_iff] at m1 m2; exact m1.1.trans m2.1.symm
    rw [this]
  | [], _, m1, _ => cases m1
  | _ :: _ :: _, hone, _, _ => simp at hone

/-- The order of the arguments does not matter: acceptance is the same, and so is the set of
connections made. -/
theorem connect_perm (args₁ args₂ : List Arg) (hp : args₁.Perm args₂)
    (hwf : ∀ a ∈ args₁, a.sv.2.wf = true) :
    ((∃ r, Wiring.connect args₁ = .ok r) ↔ (∃ r, Wiring.connect args₂ = .ok r)) ∧
    ∀ r₁ r₂, Wiring.connect args₁ = .ok r₁ → Wiring.connect args₂ = .ok r₂ → ∀ c, c ∈ r₁ ↔ c ∈ r₂ := by
  have hwf₂ : ∀ a ∈ args₂, a.sv.2.wf = true := fun a ha => hwf a (hp.mem_iff.2 ha)
  obtain ⟨hok₁, hmem₁⟩ := connect_refines args₁ hwf
  obtain ⟨hok₂, hmem₂⟩ := connect_refines args₂ hwf₂
  have hpp : (args₁.map Arg.toPart).Perm (args₂.map Arg.toPart) := hp.map _
  refine ⟨?_, ?_⟩
  · rw [hok₁, hok₂]
    exact ⟨accepts_perm hpp, accepts_perm hpp.symm⟩
  · intro r₁ r₂ h₁ h₂ c
    rw [hmem₁ r₁ h₁ c, hmem₂ r₂ h₂ c, hp.length_eq]
    exact ⟨fun ⟨hl, hc⟩ => ⟨hl, isConn_perm hpp c hc⟩, fun ⟨hl, hc⟩ => ⟨hl, isConn_perm hpp.symm c hc⟩⟩

/-- With equal array dimensions `connect` never fails its internal assertion (`AssertionError`,
`ConnErr.dims`): every refusal is a `ConnectionError`.  With `connect_perm`: the order of the
arguments changes neither acceptance, nor the connections, nor the class of the exception. -/
theorem connect_error_class (args₁ args₂ : List Arg) (hp : args₁.Perm args₂)
    (hd : EqualDims (args₁.map Arg.toPart)) :
    Wiring.connect args₁ ≠ .error .dims ∧ Wiring.connect args₂ ≠ .error .dims := by
  refine ⟨connectParts_not_dims _ hd, connectParts_not_dims _ ?_⟩
  have hpp : (args₂.map Arg.toPart).Perm (args₁.map Arg.toPart) := (hp.map _).symm
  exact fun a ha b hb => hd a (hpp.mem_iff.1 ha) b (hpp.mem_iff.1 hb)

/-- `connect` refuses (raises) exactly for: a missing member, a port against an interface, a width
mismatch, an initial-value mismatch, several outputs on one member, a mismatched constant, or
"inputs only" — for two or more arguments whose matching members have equal array dimensions.
(With unequal dimensions the real code raises `AssertionError`, modelled as `ConnErr.dims`;
see `connect_refines`, whose `Accepts` includes `DimsAgree`.) -/
theorem connect_errors (args : List Arg) (hwf : ∀ a ∈ args, a.sv.2.wf = true) (h2 : 2 ≤ args.length)
    (hd : EqualDims (args.map Arg.toPart)) :
    (∃ e, Wiring.connect args = .error e) ↔ Refused (args.map Arg.toPart) := by
  obtain ⟨hok, _⟩ := connect_refines args hwf
  have herr : (∃ e, Wiring.connect args = .error e) ↔ ¬ Accepts (args.map Arg.toPart) := by
    rw [← hok]
    cases hc : Wiring.connect args with
    | ok r => simp
    | error e => simp
  rw [herr]
  have hlen : ¬ (args.map Arg.toPart).length ≤ 1 := by simp; omega
  have hdims : ∀ np, DimsAgree (rowAt (args.map Arg.toPart) np) := by
    intro np i hi o ho _ _
    obtain ⟨hi1, hi2, hi3⟩ := mem_rowAt.1 hi
    obtain ⟨ho1, ho2, ho3⟩ := mem_rowAt.1 ho
    exact hd i.1 hi1 o.1 ho1 i.2 hi2 o.2 ho2 (hi3.trans ho3.symm)
  unfold Refused
  constructor
  · intro hna
    by_cases hs : SameMembers (args.map Arg.toPart)
    · by_cases ho : (conns (args.map Arg.toPart) = [] ∧ AnyIn (args.map Arg.toPart) ∧ ¬ AnyOut (args.map Arg.toPart))
      · exact Or.inr (Or.inr (Or.inr (Or.inr (Or.inr (Or.inr ho)))))
      · have hex : ∃ np ∈ allPaths (args.map Arg.toPart), ¬ RowOk (rowAt (args.map Arg.toPart) np) := by
          apply Classical.byContradiction
          intro hne
          apply hna
          refine Or.inr ⟨hs, ?_, ho⟩
          intro np hnp
          apply Classical.byContradiction
          intro hr
          exact hne ⟨np, hnp, hr⟩
        obtain ⟨np, hnp, hr⟩ := hex
        by_cases hk : KindsAgree (rowAt (args.map Arg.toPart) np)
        · by_cases hw : WidthsAgree (rowAt (args.map Arg.toPart) np)
          · by_cases hi : InitsAgree (rowAt (args.map Arg.toPart) np)
            · by_cases hoo : OneOutput (rowAt (args.map Arg.toPart) np)
              · by_cases hc : ConstsAgree (rowAt (args.map Arg.toPart) np)
                · exact absurd ⟨hk, hw, hi, hoo, hdims np, hc⟩ hr
                · exact Or.inr (Or.inr (Or.inr (Or.inr (Or.inr (Or.inl ⟨np, hnp, hc⟩)))))
              · exact Or.inr (Or.inr (Or.inr (Or.inr (Or.inl ⟨np, hnp, hoo⟩))))
            · exact Or.inr (Or.inr (Or.inr (Or.inl ⟨np, hnp, hi⟩)))
          · exact Or.inr (Or.inr (Or.inl ⟨np, hnp, hw⟩))
        · exact Or.inr (Or.inl ⟨np, hnp, hk⟩)
    · exact Or.inl hs
  · intro href hacc
    rcases hacc with hl | ⟨hs, hr, ho⟩
    · exact hlen hl
    · rcases href with h | ⟨np, hnp, h⟩ | ⟨np, hnp, h⟩ | ⟨np, hnp, h⟩ | ⟨np, hnp, h⟩ | ⟨np, hnp, h⟩ | h
      · exact h hs
      · exact h (hr np hnp).1
      · exact h (hr np hnp).2.1
      · exact h (hr np hnp).2.2.1
      · exact h (hr np hnp).2.2.2.1
      · exact h (hr np hnp).2.2.2.2.2
      · exact ho h

/-! ### non-vacuity of the `connect` theorems (tests on concrete instances) -/

/-- a 3-level signature and its flip connect (so `connect_sound`'s hypotheses are satisfiable) … -/
example : ∃ r, Wiring.connect [argA, argB] = .ok r :=
  (connect_refines [argA, argB] (by decide)).1.2 (by decide)
/-- … three arguments with a constant input that matches the initial value: accepted … -/
example : Accepts ([argOc, argI, argIc].map Arg.toPart) ∧ ¬ Accepts ([argO, argI, argIc].map Arg.toPart) ∧
    conns ([argOc, argI, argIc].map Arg.toPart) =
      [((1, [.name "d", .idx 0]), (0, [.name "d", .idx 0])), ((1, [.name "d", .idx 1]), (0, [.name "d", .idx 1])),
       ((2, [.name "d", .idx 0]), (0, [.name "d", .idx 0]))] := by decide
/-- … two outputs on every leaf: refused, and `connect_errors` applies (equal dimensions). -/
example : ¬ Accepts ([argA, argA].map Arg.toPart) ∧ EqualDims ([argA, argA].map Arg.toPart) := by decide
example : (conns ([argA, argB].map Arg.toPart)).length = 19 := by decide
example : EqualDims ([argA, argB].map Arg.toPart) := by decide

/-- F13, the code as it stands: the leaf paths `connect` traverses for a member below an array of
sub-interfaces have no index for the array (`getattr(<list>, "x")` → `AttributeError`), so they are
not leaf paths of `flatten`; the repaired `expand` gives exactly the `flatten` paths. -/
example : expandOld [("arr", [2]), ("x", [])] = [[.name "arr", .name "x"]] ∧
    expand [("arr", [2]), ("x", [])] = [[.name "arr", .idx 0, .name "x"], [.name "arr", .idx 1, .name "x"]] ∧
    ((SigV.flatten (false, mid)).map (·.1)).contains [Item.name "arr", .name "x"] = false := by decide

end Amaranth.C14
