import AmaranthVerif.Proofs.RtlilWF
import AmaranthVerif.Model.Rtlil.SrcAttr
import AmaranthVerif.Proofs.RtlilPrint
import AmaranthVerif.Proofs.RtlilEmit

/-!
# C07 — every emitted RTLIL document is structurally well-formed

The property is decided per document by a **proved validator** (translation validation):
`check d exp = .ok () → WellFormed d exp` (`wf_sound`), where `d` is the document read by
`Model/Rtlil/Parse` and `exp` the expected foreign instances.  Universality over designs is
sampled by `harness/checks/c07.py`; it is not a theorem.

Also here: the corollary that inputs are never driven from inside (`inputs_not_driven`), the
reader/printer round trip for the lexically delicate parts (`parse_print_partial`; the document
level round trip is evaluated on every checked document by the driver), and three emitter-side
lemmas about small models of `_add_name`, the port counter and `sigspec()`.
-/

namespace Amaranth.C07
open Amaranth.Rtlil

/-- **Soundness of the validator.** A document accepted by `check` satisfies every sentence of the
property (`Spec/RtlilWF.WellFormed`). -/
theorem wf_sound (d : Doc) (exp : List Foreign) (h : check d exp = .ok ()) : WellFormed d exp := by
  obtain ⟨hn, hm⟩ := check_ok h
  refine ⟨nodupB_sound _ hn, ?_⟩
  intro m hmd
  have hc := hm m hmd
  simp only [moduleClauses, List.mem_cons, List.not_mem_nil, or_false, forall_eq_or_imp, forall_eq] at hc
  obtain ⟨h1, h2, h3, h4, h5, h6, h7, h8, h9⟩ := hc
  simp only [List.all_eq_true] at h2 h3 h4 h5 h6 h8
  exact {
    names_unique := nodupB_sound _ h1
    wires_exist := fun c hc => chunkRefOkB_sound (h2 c hc)
    in_bounds := fun c hc => chunkInBoundsB_sound (h3 c hc)
    connect_widths := fun lr hlr => sameWidthB_sound (h4 lr hlr)
    assign_widths := fun p hp lr hlr => sameWidthB_sound (h5 p hp lr hlr)
    case_widths := fun p hp sw hsw => caseWidthB_sound (h6 p hp sw hsw)
    ports_dense := portIds_sound h7
    cells := fun c hc => cellOkB_sound (h8 c hc)
    one_driver := driversOkB_sound h9 }

/-- non-vacuity (test): a two-module document with a submodule cell, a `$not` cell, a process and a
`connect` is accepted, hence well-formed -/
def demoDoc : Doc :=
  [ { attrs := [⟨"\\top", .int 1⟩], name := "\\top"
      wires := [⟨[], "\\a", 2, some (.input, 0), false⟩, ⟨[], "\\o", 2, some (.output, 1), false⟩,
                ⟨[], "$1", 2, none, false⟩, ⟨[], "\\z", 0, none, false⟩]
      memories := []
      cells := [⟨[], "\\top.sub", "\\sub", [], [("\\x", .one (.slice "\\a" 1 0)), ("\\y", .one (.slice "$1" 1 0))]⟩]
      procs := [⟨[], "$2", .assign (.one (.slice "\\o" 1 0)) (.one (.const [.b0, .b0]))
                  (.switch (.one (.bit "\\a" 0)) (.case [[.b1]] (.assign (.one (.bit "\\o" 1)) (.one (.bit "$1" 0)) .done)
                    (.case [] .done .nil)) .done)⟩]
      connects := [(.one (.wire "\\z"), .cat [])] },
    { attrs := [], name := "\\top.sub"
      wires := [⟨[], "\\x", 2, some (.input, 0), false⟩, ⟨[], "\\y", 2, some (.output, 1), false⟩]
      memories := []
      cells := [⟨[], "$not", "$1", [⟨.plain, "\\A_SIGNED", .int 0⟩, ⟨.plain, "\\A_WIDTH", .int 2⟩, ⟨.plain, "\\Y_WIDTH", .int 2⟩],
                 [("\\A", .one (.slice "\\x" 1 0)), ("\\Y", .one (.wire "\\y"))]⟩]
      procs := [], connects := [] } ]

/-- the verdict of `check` as an `Option` (decidable equality for the tests below) -/
def verdict (d : Doc) (exp : List Foreign) : Option (String × Clause) :=
  match check d exp with
  | .ok _ => none
  | .error e => some e

theorem check_of_verdict {d : Doc} {exp : List Foreign} (h : verdict d exp = none) : check d exp = .ok () := by
  unfold verdict at h
  split at h
  · rename_i u hu; cases u; exact hu
  · cases h

example : verdict demoDoc [] = none := by decide +kernel
example : WellFormed demoDoc [] := wf_sound _ _ (check_of_verdict (by decide +kernel))
/-- test: driving the module input from inside is rejected with the driver clause -/
example : verdict (demoDoc.map fun m => if m.name = "\\top.sub" then
    { m with connects := [(.one (.bit "\\x" 0), .one (.const [.b0]))] } else m) [] = some ("\\top.sub", .driverCount) := by
  decide +kernel

/-- **Soundness of the validator with given `src` attributes.** The harness states the expected foreign instances with
*all* their attributes, one literally named `src` included.  A document accepted by `checkAll` is well-formed with
respect to the expected instances without their `\src` attributes (a generated source location on a cell is no
part of the design), and every foreign cell for which the design itself gives a `\src` attribute carries exactly
that one (`Spec/RtlilSrcAttr.GivenSrcKept`). -/
theorem wf_src_sound (d : Doc) (exp : List Foreign) (h : checkAll d exp = .ok ()) :
    WellFormed d (exp.map Foreign.design) ∧ GivenSrcKept d exp := by
  unfold checkAll at h
  split at h
  · cases h
  · rename_i hc
    split at h
    · cases h
    · rename_i hf
      refine ⟨wf_sound _ _ hc, ?_⟩
      intro m hm c hc' f hf' ht hne
      have h1 := List.find?_eq_none.mp hf m hm
      simp only [Bool.not_eq_true, Bool.not_eq_false', List.all_eq_true] at h1
      have h2 := h1 c hc'
      simp only [cellSrcKeptB, List.all_eq_true] at h2
      have h3 := h2 f hf'
      simp only [Bool.or_eq_true, Bool.not_eq_true', beq_eq_false_iff_ne, ne_eq, List.isEmpty_iff, beq_iff_eq] at h3
      rcases h3 with (h3 | h3) | h3
      · exact absurd ht h3
      · exact absurd h3 hne
      · exact h3

/-- the demo document with a foreign cell that carries the given `\src` and one more attribute -/
def demoSrcDoc : Doc :=
  demoDoc.map fun m => if m.name = "\\top.sub" then
    { m with cells := m.cells ++ [⟨[⟨"\\src", .str "vendor.v:317"⟩, ⟨"\\keep", .int 1⟩], "\\BLK", "\\u", [], [("\\I", .one (.wire "\\x"))]⟩] }
  else m

def demoSrcExp : List Foreign :=
  [⟨"\\BLK", [], [⟨"\\keep", .int 1⟩, ⟨"\\src", .str "vendor.v:317"⟩], [⟨"\\I", .input, 2, none⟩]⟩]

def verdictAll (d : Doc) (exp : List Foreign) : Option (String × String) :=
  match checkAll d exp with
  | .ok _ => none
  | .error e => some e

theorem checkAll_of_verdict {d : Doc} {exp : List Foreign} (h : verdictAll d exp = none) : checkAll d exp = .ok () := by
  unfold verdictAll at h
  split at h
  · rename_i u hu; cases u; exact hu
  · cases h

/-- non-vacuity (tests): the hypothesis holds on a document with a foreign cell carrying a given `\src`; a cell that
carries a generated location instead is rejected by the new clause, and only by it -/
example : verdictAll demoSrcDoc demoSrcExp = none := by decide +kernel
example : GivenSrcKept demoSrcDoc demoSrcExp := (wf_src_sound _ _ (checkAll_of_verdict (by decide +kernel))).2
example : verdictAll (demoSrcDoc.map fun m => { m with cells := m.cells.map fun c =>
    { c with attrs := c.attrs.map fun a => if a.name = "\\src" then ⟨a.name, .str "/home/u/design.py:252"⟩ else a } }) demoSrcExp
    = some ("\\top.sub", "given-src-attribute-kept") := by decide +kernel
example : verdictAll demoSrcDoc [] = some ("\\top.sub", "cell-ports-params-widths-directions") := by decide +kernel

/-- **Inputs are never driven from inside**: in a well-formed document no cell output, connect or
process drives any bit of a module input. -/
theorem inputs_not_driven (d : Doc) (exp : List Foreign) (h : WellFormed d exp) :
    ∀ m ∈ d, ∀ w ∈ m.wires, w.isInput = true → ∀ i, i < w.width → innerDriverCount d exp m w.name i = 0 := by
  intro m hm w hw hin i hi
  have hio : w.isInout = false := by
    unfold Wire.isInput at hin
    unfold Wire.isInout
    split at hin <;> simp_all
  have h1 := (h.modules m hm).one_driver w hw hio i hi
  have hpos : 0 < m.wires.countP (fun w' => w'.name == w.name && w'.isInput) :=
    List.countP_pos_iff.mpr ⟨w, hw, by simp [hin]⟩
  unfold driverCount at h1
  unfold innerDriverCount
  omega

example : innerDriverCount demoDoc [] (demoDoc.getD 1 default) "\\x" 0 = 0 := by decide +kernel

/-! ## Reader / printer -/

/-- **Round trip, partial.** Proved: (1) decimal numbers, (2) bit constants, (3) any sequence of printable
sigspecs printed one after the other is read back as exactly that sequence — this is the lexically
delicate part of the grammar (`name [hi:lo]` vs. two chunks, `{ … }`, constants vs. identifiers).
Missing for the full statement `parse (render (printDoc d)) = .ok d`: the composition over lines
(attributes, wire options, cell and process bodies with the fuel of `parseBody`/`parseItems`) and
the lexer (`lexLine (lineChars toks) = toks`).  The full statement is *evaluated* by the driver on
every document it reads (`roundtrip=ok`), and a failure is reported as `not_shown`. -/
theorem parse_print_partial :
    (∀ n : Nat, parseNat (natChars n) = some n) ∧
    (∀ bs : List Bit, parseBits (bitsWord bs).toList = some bs) ∧
    (∀ specs : List SigSpec, (∀ s ∈ specs, SpecPrintable s) → parseSpecs (specs.flatMap specToks) = some specs) :=
  ⟨parseNat_natChars, parseBits_bitsWord, parseSpecs_print⟩

example : SpecPrintable (.cat [.slice "\\a" 3 0, .const [.b1, .dc], .wire "$1", .bit "\\b" 7]) := by decide
example : parseSpecs ([SigSpec.one (.slice "\\a" 3 0), .cat [], .one (.wire "\\a")].flatMap specToks)
    = some [.one (.slice "\\a" 3 0), .cat [], .one (.wire "\\a")] := by decide +kernel

/-! ## Emitter-side lemmas (small models of three mechanisms of the emitter) -/

/-- **`_add_name` assigns pairwise distinct names**, provided no de-duplicated name `mk n k`
(`f"{n}${k}"`) equals a user name and `mk` separates different counters — the hypothesis the
`assert` in `_add_name` relies on; finding F19 is a design violating it (`a`, `a$3`, `a`). -/
theorem add_name_unique {α : Type} [DecidableEq α] (mk : α → Nat → α) (users : List α)
    (hfresh : ∀ u ∈ users, ∀ n k, mk n k ≠ u)
    (hsep : ∀ n n' k k', k ≠ k' → mk n k ≠ mk n' k') :
    (assignAll mk [] users).1.Nodup :=
  assignAll_nodup mk users hfresh hsep

/-- test: with names that contain no `$`, three signals named `a` get distinct names -/
example : (assignAll mkStr [] ["o", "a", "a", "b", "a"]).1 = ["o", "a", "a$2", "b", "a$4"] := by decide +kernel
/-- refuting witness of the unconditional statement (F19): `o`, `a`, `a$3`, `a` assigns `a$3` twice -/
example : ¬ (assignAll mkStr [] ["o", "a", "a$3", "a"]).1.Nodup := by decide +kernel

/-- **Port indices are dense**: a counter reset at the start of a module and advanced after every
port wire numbers the ports `0, 1, …, n-1` in order of emission. -/
theorem port_ids_dense (ws : List Bool) (start : Nat) :
    (emitPortIds ws start).filterMap id = List.range' start (ws.filter id).length :=
  emitPortIds_dense ws start

example : (emitPortIds [true, false, true, true] 0).filterMap id = [0, 1, 2] := by decide

/-- **Sigspec chunking**: the chunks `sigspec()` prints (maximal runs of constants and of consecutive bits of
one wire, most significant first) denote exactly the value, bit for bit, and their widths add up. -/
theorem sigspec_chunks (v : List Net) :
    (emitSpec v).bitRefs = v.map Net.ref ∧ (emitSpec v).width = v.length :=
  ⟨emitSpec_bits v, emitSpec_width v⟩

example : emitSpec [.wire "\\a" 0, .wire "\\a" 1, .const true, .const false, .wire "\\b" 3, .wire "\\a" 2]
    = .cat [.bit "\\a" 2, .bit "\\b" 3, .const [.b0, .b1], .slice "\\a" 1 0] := by decide +kernel

end Amaranth.C07
