import AmaranthVerif.Proofs.Cdc
import AmaranthVerif.Proofs.CdcShape

/-!
# C17 — clock-domain-crossing primitives meet their latency and pulse contracts

Every theorem is about the register-level model of `amaranth/lib/cdc.py` (`Model/Cdc.lean`) and
holds for **every** schedule `evs : List Ev` (any interleaving of input-clock edges, output-clock
edges, coincident edges and input changes), every stage count `n ≥ 1` (the constructors accept
`n ≥ 2`), every width, initial value and edge polarity.  The contract side is `Spec/Cdc.lean`.
The `example`s after the theorems are tests: they show that the hypotheses are satisfiable and the
statements non-trivial on a concrete schedule.
-/

namespace Amaranth.C17
open Amaranth.Cdc

/-! ## FFSynchronizer -/

/-- **Delay line.**  After any schedule the output of the flop chain is the `n`-th most recent
sample of the input taken at an output edge — the input sampled at output edge `k - n + 1` when
`k` edges have occurred — and the (truncated) initial value while `k < n`. -/
theorem ff_latency (n w : Nat) (init : Int) (i0 : Nat) (evs : List Ev) (hn : 1 ≤ n) :
    Model.ffOut n w init i0 evs = ffOut n w init i0 evs :=
  ffRel_out n w init hn _ _ (ffRel_run n w init i0 evs)

/-- the record has one sample per output edge, so "`n`-th most recent" above is edge `k - n + 1` -/
theorem ff_one_sample_per_edge (w i0 : Nat) (evs : List Ev) :
    (ffObserve w i0 evs).samples.length = outEdges evs := by
  have := ff_samples_from w (FFObs.start w i0) evs
  simpa [ffObserve, FFObs.start] using this

/-- the output shows the initial value until the `n`-th output edge -/
theorem ff_initial_until_stages (n w : Nat) (init : Int) (i0 : Nat) (evs : List Ev) (hn : 1 ≤ n)
    (hk : outEdges evs < n) : Model.ffOut n w init i0 evs = initValue w init := by
  rw [ff_latency n w init i0 evs hn]
  have hl := ff_one_sample_per_edge w i0 evs
  unfold ffOut FFObs.out
  rw [List.getD_eq_getElem?_getD]
  have : (ffObserve w i0 evs).samples[n - 1]? = none := by simp; omega
  rw [this]; rfl

/-- **The property's sentence.**  A change of the input to `v` (after any history `evs`), followed
by a schedule `tail` that does not drive the input again, is visible at the output exactly from the
`n`-th subsequent output edge on; before that edge the output is what the history determines
(its `(n - j)`-th most recent sample after `j` edges, or the initial value). -/
theorem ff_change_visible_at_stages (n w : Nat) (init : Int) (i0 : Nat) (evs tail : List Ev)
    (v : Nat) (hn : 1 ≤ n) (ht : noSet tail = true) :
    Model.ffOut n w init i0 (evs ++ Ev.set v :: tail) =
      if n ≤ outEdges tail then v % 2 ^ w
      else (ffObserve w i0 evs).samples.getD (n - 1 - outEdges tail) (initValue w init) := by
  rw [ff_latency n w init i0 _ hn]
  unfold ffOut ffObserve
  rw [List.foldl_append, List.foldl_cons, ff_noSet_from w _ tail ht]
  unfold FFObs.out
  simp only [FFObs.step]
  rw [List.getD_eq_getElem?_getD, List.getD_eq_getElem?_getD]
  by_cases h : n ≤ outEdges tail
  · rw [if_pos h, List.getElem?_append_left (by simp; omega), List.getElem?_replicate,
      if_pos (by omega)]
    rfl
  · rw [if_neg h, List.getElem?_append_right (by simp; omega)]
    simp only [List.length_replicate]

/-- test: the hypotheses of `ff_change_visible_at_stages` are satisfiable, and the value appears
at the third edge of a 3-stage synchroniser, not at the second -/
example :
    noSet [Ev.oedge, .iedge, .both, .oedge] = true ∧
    Model.ffOut 3 4 9 0 ([.set 5, .oedge] ++ Ev.set 7 :: [.oedge, .iedge, .both]) = 5 ∧
    Model.ffOut 3 4 9 0 [.set 5, .oedge, .set 7, .oedge] = 9 ∧
    Model.ffOut 3 4 9 0 ([.set 5, .oedge] ++ Ev.set 7 :: [.oedge, .iedge, .both, .oedge]) = 7 := by
  decide

/-! ## FFSynchronizer: shapes of input and output, reset of the output domain -/

/-- **The output carries the input's value.**  Whatever the widths of `i` and `o` and the
signedness of `i`, the assignment of the last stage (which has the input's shape) to the output
shows the two's-complement value of the `w`-bit pattern, reduced to the output's width: a signed
input is sign-extended into a wider output, never zero-extended. -/
theorem ff_output_carries_value (sg : Bool) (w wo p : Nat) :
    Model.extendTo sg w wo p = delivered sg w wo p :=
  extendTo_eq_delivered sg w wo p

/-- **Delay line, any shapes, output-domain reset driven.**  For every schedule that also drives
the output domain's reset, every `reset_less` / `async_reset` combination, the output shows the
value of the input sampled at the `n`-th most recent output edge since the line was last reset
(never, for a reset-less line), or the value of `init`. -/
theorem ffr_refines (n w : Nat) (sg : Bool) (wo : Nat) (init : Int) (rl ad : Bool) (i0 : Nat)
    (evs : List REv) (hn : 1 ≤ n) :
    Model.ffrOut n w sg wo init rl ad i0 evs = ffrOut n w sg wo init (!rl) ad i0 evs := by
  unfold Model.ffrOut ffrOut
  rw [ffrRel_last n w init hn _ _ (ffrRel_run n w init rl ad i0 evs), extendTo_eq_delivered]

/-- **A reset-less synchroniser is unaffected by the reset of its output domain**, synchronous or
asynchronous: its output after any schedule is the delay-line contract (`ff_latency`) applied to
the schedule with the reset events taken out. -/
theorem ff_reset_less_unaffected (n w : Nat) (sg : Bool) (wo : Nat) (init : Int) (ad : Bool)
    (i0 : Nat) (evs : List REv) (hn : 1 ≤ n) :
    Model.ffrOut n w sg wo init true ad i0 evs
      = delivered sg w wo (ffOut n w init i0 (eraseRst evs)) := by
  unfold Model.ffrOut
  rw [ffr_resetless_last, ff_latency n w init i0 _ hn, extendTo_eq_delivered]

/-- without reset events the general model is the plain delay line of `ff_latency` -/
theorem ffr_no_reset (n w : Nat) (sg : Bool) (wo : Nat) (init : Int) (rl ad : Bool) (i0 : Nat)
    (evs : List Ev) (hn : 1 ≤ n) :
    Model.ffrOut n w sg wo init rl ad i0 (evs.map REv.ev)
      = delivered sg w wo (ffOut n w init i0 evs) := by
  rw [ffr_refines n w sg wo init rl ad i0 _ hn]
  unfold ffrOut ffOut
  congr 1
  have key : ∀ (r : FFRObs) (t : FFObs), r.inp = t.inp → r.rst = false → r.samples = t.samples →
      ((evs.map REv.ev).foldl (FFRObs.step w (!rl) ad) r).samples
        = (evs.foldl (FFObs.step w) t).samples := by
    induction evs with
    | nil => intro r t _ _ hs; exact hs
    | cons e es ih =>
      intro r t hi hr hs
      rw [List.map_cons, List.foldl_cons, List.foldl_cons]
      cases e with
      | set v => exact ih _ _ rfl hr hs
      | iedge => exact ih _ _ hi hr hs
      | oedge =>
        apply ih <;> simp [FFRObs.step, FFObs.step, hr, hi, hs]
      | both =>
        apply ih <;> simp [FFRObs.step, FFObs.step, hr, hi, hs]
  unfold FFRObs.out FFObs.out ffrObserve ffObserve
  rw [key _ (FFObs.start w i0) rfl rfl rfl]

/-- tests: `-1` on a `signed(4)` input arrives as `-1` (pattern 255) on an 8-bit output, not as 15;
a negative `init` likewise; narrowing truncates; an unsigned input is zero-extended.  Reset: a
reset-less 2-stage line keeps the 1 in flight across a reset (sync or async); a resettable line
shows `init` again at the next edge (sync) or at once (async). -/
example :
    Model.ffrOut 2 4 true 8 0 true false 0 [.ev (.set 15), .ev .oedge, .ev .oedge] = 255 ∧
    Model.ffrOut 3 4 true 8 (-3) true false 0 [] = 253 ∧
    Model.ffrOut 2 8 true 4 0 true false 0 [.ev (.set 0x9c), .ev .oedge, .ev .oedge] = 12 ∧
    Model.ffrOut 2 4 false 8 0 true false 0 [.ev (.set 15), .ev .oedge, .ev .oedge] = 15 ∧
    Model.ffrOut 2 1 false 1 0 true true 0 [.ev (.set 1), .ev .oedge, .rst 1, .ev .oedge] = 1 ∧
    Model.ffrOut 2 1 false 1 0 false true 0 [.ev (.set 1), .ev .oedge, .ev .oedge, .rst 1] = 0 ∧
    Model.ffrOut 2 1 false 1 0 false false 0 [.ev (.set 1), .ev .oedge, .ev .oedge, .rst 1] = 1 ∧
    Model.ffrOut 2 1 false 1 0 false false 0 [.ev (.set 1), .ev .oedge, .ev .oedge, .rst 1, .ev .oedge] = 0 := by
  decide

/-! ## AsyncFFSynchronizer / ResetSynchronizer -/

/-- the flop chain in the private asynchronous-reset domain shows, after every schedule, what the
assert/release contract says -/
theorem async_refines (n : Nat) (pos : Bool) (i0 : Nat) (evs : List Ev) (hn : 1 ≤ n) :
    Model.asyncOut n pos i0 evs = asyncOut n pos i0 evs :=
  asyncRel_out n pos hn _ _ (asyncRel_run n pos i0 evs)

/-- **Immediate assert.**  Whenever the input is at its asserting level — in particular directly
after the event that drove it there, with no clock edge at all — the output is asserted. -/
theorem async_assert_immediate (n : Nat) (pos : Bool) (i0 : Nat) (evs : List Ev) (hn : 1 ≤ n)
    (h : asserted pos (asyncInput pos i0 evs) = true) : Model.asyncOut n pos i0 evs = true := by
  rw [async_refines n pos i0 evs hn]
  unfold asyncOut AsyncObs.out
  unfold asyncInput at h
  rw [h]; rfl

/-- **Release after exactly `n` output edges.**  If the input is asserted after `evs`, is then
driven to its released level, and `tail` never re-asserts it, the output stays asserted while fewer
than `n` output edges have occurred in `tail` and is released from the `n`-th on. -/
theorem async_release_after_stages (n : Nat) (pos : Bool) (i0 : Nat) (evs tail : List Ev) (v : Nat)
    (hn : 1 ≤ n) (ha : asserted pos (asyncInput pos i0 evs) = true)
    (hv : asserted pos (level v) = false) (ht : ∀ e ∈ tail, e.noAssert pos = true) :
    Model.asyncOut n pos i0 (evs ++ Ev.set v :: tail) = decide (outEdges tail < n) := by
  rw [async_refines n pos i0 _ hn]
  have hq : (asyncObserve pos i0 evs).quiet = 0 := (asyncRel_run n pos i0 evs).2.2 ha
  unfold asyncOut asyncObserve
  rw [List.foldl_append, List.foldl_cons]
  have h0 : asserted pos (AsyncObs.step pos (asyncObserve pos i0 evs) (.set v)).inp = false := hv
  obtain ⟨h1, h2⟩ := async_quiet_from pos _ tail h0 ht
  unfold asyncObserve at h0 h1 h2 hq
  unfold AsyncObs.out
  rw [h1, h2]
  simp [AsyncObs.step, hv, hq]

/-- test: both polarities; release at the third edge of a 3-stage synchroniser -/
example :
    asserted true (asyncInput true 0 [.oedge, .set 1, .oedge]) = true ∧
    asserted false (asyncInput false 1 [.oedge, .set 0]) = true ∧
    Model.asyncOut 3 true 0 ([.oedge, .set 1, .oedge] ++ Ev.set 0 :: [.oedge, .both]) = true ∧
    Model.asyncOut 3 true 0 ([.oedge, .set 1, .oedge] ++ Ev.set 0 :: [.oedge, .both, .oedge]) = false ∧
    Model.asyncOut 3 false 1 ([.oedge, .set 0] ++ Ev.set 1 :: [.oedge, .oedge, .iedge, .oedge]) = false := by
  decide

/-! ## PulseSynchronizer -/

/-- the output is a function of output-domain registers: it can change only at an output edge -/
theorem pulse_changes_only_at_output_edges (n : Nat) (evs : List Ev) (e : Ev)
    (he : e.isOut = false) : Model.pulseOut n (evs ++ [e]) = Model.pulseOut n evs := by
  unfold Model.pulseOut
  rw [pulseRun_snoc]
  cases e with
  | set v => rfl
  | iedge => rfl
  | oedge => simp [Ev.isOut] at he
  | both => simp [Ev.isOut] at he

/-- **One single-cycle output pulse per input pulse, with its position.**  When an output edge
falls between consecutive input pulses, the output is high after a schedule exactly if the `n`-th
most recent output edge captured an input pulse: every input pulse makes the output high during
the one output cycle that starts at the `n`-th output edge after it, and at no other time. -/
theorem pulse_single_cycle (n : Nat) (evs : List Ev) (hn : 1 ≤ n) (hs : Spaced evs) :
    Model.pulseOut n evs = pulseOut n evs := by
  unfold Model.pulseOut pulseOut PulseObs.out
  rw [pulseRel_out n hn _ _ (pulseRel_run n hn evs)]
  have hw := (spacedInv_run evs hs).2
  rw [List.getD_eq_getElem?_getD]
  cases hg : (pulseObserve evs).wins[n - 1]? with
  | none => rfl
  | some x =>
    have : x ≤ 1 := hw x (List.mem_of_getElem? hg)
    have : x = 0 ∨ x = 1 := by omega
    rcases this with h | h <;> subst h <;> rfl

/-- **Pulse conservation.**  For every interleaving of the two clocks in which an output edge
falls between consecutive input pulses (`Spaced`: strictly after the earlier pulse, at the latest
coincident with the later one), once `n` output edges have fallen after the last input pulse
(needed for the last pulse to have come out), the number of output cycles in which the output was
high equals the number of input pulses; and at every moment of the schedule the output is high
exactly in the single cycle assigned to a pulse by `pulse_single_cycle`. -/
theorem pulse_conservation (n : Nat) (evs : List Ev) (hn : 1 ≤ n) (hs : Spaced evs)
    (hq : n ≤ idleEdges evs) :
    highCycles (Model.pulseOut n) evs = inputPulses evs ∧
    ∀ p q, evs = p ++ q → Model.pulseOut n p = pulseOut n p := by
  constructor
  · obtain ⟨lost, hc, h1, _⟩ := conserved_run n hn evs
    have h0 := h1 hs
    have hf := idleRel_flushed (idleRel_run n evs) hq
    unfold inputPulses
    omega
  · intro p q h
    exact pulse_single_cycle n p hn (spaced_prefix p q (h ▸ hs))

/-- in-flight form, no flushing needed: under the spacing hypothesis the output never shows more
high cycles than there were input pulses, and the deficit is at most the `n` pulses in flight -/
theorem pulse_never_spurious (n : Nat) (evs : List Ev) (hn : 1 ≤ n) :
    highCycles (Model.pulseOut n) evs ≤ inputPulses evs := by
  obtain ⟨lost, hc, _, _⟩ := conserved_run n hn evs
  unfold inputPulses; omega

/-- **The hypothesis is necessary.**  If two input pulses are not separated by an output edge, a
pair of pulses is lost for good: even after flushing, fewer high cycles than input pulses. -/
theorem pulse_loss_without_spacing (n : Nat) (evs : List Ev) (hn : 1 ≤ n) (hs : ¬ Spaced evs) :
    highCycles (Model.pulseOut n) evs < inputPulses evs := by
  obtain ⟨lost, hc, _, h0⟩ := conserved_run n hn evs
  have : (pulseObserve evs).spaced = false := by
    unfold Spaced at hs; simpa using hs
  have := h0 this
  unfold inputPulses; omega

/-- test: a spaced, flushed schedule with three pulses (one on a coincident edge, two in adjacent
windows) and three high cycles; and an unspaced one that loses both of its pulses -/
example :
    Spaced [.set 1, .iedge, .oedge, .both, .oedge, .set 0, .iedge, .oedge, .set 1, .iedge, .oedge, .oedge, .oedge] ∧
    3 ≤ idleEdges [.set 1, .iedge, .oedge, .both, .oedge, .set 0, .iedge, .oedge, .set 1, .iedge, .oedge, .oedge, .oedge] ∧
    inputPulses [.set 1, .iedge, .oedge, .both, .oedge, .set 0, .iedge, .oedge, .set 1, .iedge, .oedge, .oedge, .oedge] = 3 ∧
    highCycles (Model.pulseOut 3) [.set 1, .iedge, .oedge, .both, .oedge, .set 0, .iedge, .oedge, .set 1, .iedge, .oedge, .oedge, .oedge, .oedge, .oedge] = 3 ∧
    ¬ Spaced [.set 1, .both, .iedge, .oedge, .oedge, .oedge] ∧
    inputPulses [.set 1, .both, .iedge, .oedge, .oedge, .oedge] = 2 ∧
    highCycles (Model.pulseOut 2) [.set 1, .both, .iedge, .oedge, .oedge, .oedge] = 0 := by
  decide

/-! ## Constructors -/

/-- `_check_stages` accepts exactly the integer stage counts from 2 upwards -/
theorem ctor_stages (s : Option Int) : Model.checkStages s = stagesCtor s := rfl

theorem ctor_async (s : Option Int) (wi wo : Nat) (e : Bool) :
    Model.asyncCtor s wi wo e = asyncCtor s wi wo e := by
  unfold Model.asyncCtor asyncCtor
  rw [ctor_stages]
  cases stagesCtor s <;> simp only []
  by_cases h1 : wi = 1 <;> by_cases h2 : wo = 1 <;> cases e <;> simp [h1, h2]

/-! ## Elaboration -/

/-- **Which primitives refuse a falling-edge output domain.**  The `RequirePosedge` fragments left
by `elaborate` make `AsyncFFSynchronizer` (for *either* `async_edge`) and `ResetSynchronizer` fail
with `DomainRequirementFailed` exactly on a `clk_edge="neg"` output domain; `FFSynchronizer` and
`PulseSynchronizer` elaborate on both. -/
theorem elab_posedge_requirement (p : Prim) (asyncEdgePos negDomain : Bool) :
    Model.elaborate p asyncEdgePos negDomain = elabContract p negDomain := by
  cases p <;> cases asyncEdgePos <;> cases negDomain <;> rfl

/-- test: the requirement does not depend on the asynchronous edge -/
example :
    Model.elaborate .asyncFFSync false true = .domainRequirementFailed ∧
    Model.elaborate .asyncFFSync false false = .ok ∧
    Model.elaborate .ffSync true true = .ok := by
  decide

end Amaranth.C17
