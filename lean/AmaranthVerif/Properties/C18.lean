import AmaranthVerif.Proofs.IoBufSim
import AmaranthVerif.Proofs.IoBufBuffer
import AmaranthVerif.Proofs.IoBufUse
import AmaranthVerif.Proofs.IoBufReal

/-!
# C18 — I/O buffers apply direction, inversion and registering exactly per bit

Model: `Model/IoBuf.lean` (what `amaranth/lib/io.py` and `NetlistEmitter.emit_io_use` do).
Spec: `Spec/IoBuf.lean` (wires with polarity, XOR / replicate sentences, one-stage registers,
single use). Abstraction functions (`SEPort.den` … : the wires of a model port as pairs of identity
and polarity; `obsOf`: a value as its list of bits) and `Refines` are in `Proofs/IoBuf*.lean`.

Every theorem is for all widths (including 0), all inversion tuples, all directions, all port
expressions, all input values and all event / placement sequences. The `example`s are tests on
literals that show the hypotheses are satisfiable and the statements non-trivial.

Real ports. The model follows the vendor-neutral lowering in `lib/io.py` (`Buffer.elaborate` /
`FFBuffer.elaborate` without a platform `get_io_buffer`; `build/plat.py` defines none):
* `buffer_real_single`, `buffer_real_diff` (all three directions, `i` included), `buffer_real_diff_input`:
  which `IOBufferInstance`s there are, on which pads, what they drive and what `i` shows; the inversion is
  an XOR between the buffer's signals and the cell, in both directions;
* `buffer_real_single_use`, `buffer_real_diff_use`: on a port whose pads are pairwise different, every pad of a
  single-ended port and every `p` pad of a differential port is claimed by exactly one cell; every `n` pad by
  exactly one cell (an output cell carrying the complement) when the buffer drives, and by **no** cell when it
  is an input buffer — the generic lowering listens on the true half only. For those pads the property's
  "used by exactly one buffer cell" holds as "at most one"; this is what the code does, the netlist
  comparison of the check sees exactly these cells, and it is stated here rather than hidden;
* `ffbuffer_real_registers(_diff)`, `ffbuffer_real_one_stage(_diff)`, `ffbuffer_real_no_edge`,
  `ffbuffer_real_cells`: `FFBuffer` on a
  real port — the cells are those of the inner `Buffer` (no others; the registers are fabric flip-flops), the
  pads show `o`/`oe` of the most recent `o_domain` edge, `i` shows the pads (XOR the inversion) as they were at
  the most recent `i_domain` edge; with one clock: exactly one stage each way. (There is no loop-back on
  pads: `i` of a bidirectional buffer is whatever is on the pad.) What is *not* modelled for real ports is the
  netlist itself (flip-flop cells, their clock nets): that `FlipFlop` cells sit where `realStep` says is
  correspondence only, checked by evaluating the elaborated netlist at power-on and after one edge.
-/

namespace Amaranth.C18
open Amaranth.IoBuf
open Spec (select positions toBits)

/-! ## port algebra -/

/-- **Port algebra, whole expressions.** For every expression tree built from subscripting, `+` and
`~` over well-formed `SingleEndedPort`s (as many inversion flags as wires — what the constructor
enforces), evaluating with the code's two parallel structures gives exactly what the Spec's
wire-by-wire reading gives: the same exception kind, or a well-formed port with the same direction
whose `k`-th wire and `k`-th inversion flag are the Spec's `k`-th (identity, polarity) pair. -/
theorem port_algebra {β : Type} (e : PExpr (SEPort β)) (h : e.AllLeaves SEPort.WF) :
    Refines SEPort.WF SEPort.den (e.eval SEPort.ops) ((e.map SEPort.den).eval (Spec.ops fun _ w => w)) :=
  eval_refines SEPort.ops (Spec.ops fun _ w => w) SEPort.WF SEPort.den
    SEPort.getItem_refines SEPort.add_refines SEPort.invert_refines e h

/-- the same for `DifferentialPort` (a wire is a pair of pads; both halves are subscripted alike) -/
theorem port_algebra_diff {β : Type} (e : PExpr (DiffPort β)) (h : e.AllLeaves DiffPort.WF) :
    Refines DiffPort.WF DiffPort.den (e.eval DiffPort.ops) ((e.map DiffPort.den).eval (Spec.ops fun _ w => w)) :=
  eval_refines DiffPort.ops (Spec.ops fun _ w => w) DiffPort.WF DiffPort.den
    DiffPort.getItem_refines DiffPort.add_refines DiffPort.invert_refines e h

/-- the same for `SimulationPort` (a wire is a triple of optional signal bits `i`, `o`, `oe`; `+`
drops the signals that the combined direction does not have) -/
theorem port_algebra_sim {β : Type} (e : PExpr (SimPort β)) (h : e.AllLeaves SimPort.WF) :
    Refines SimPort.WF SimPort.den (e.eval SimPort.ops) ((e.map SimPort.den).eval (Spec.ops SimPort.restrict)) :=
  eval_refines SimPort.ops (Spec.ops SimPort.restrict) SimPort.WF SimPort.den
    SimPort.getItem_refines SimPort.add_refines SimPort.invert_refines e h

/-- `(p[key]).invert = p.invert[key]` and likewise for the wires, for every accepted key -/
theorem port_algebra_getitem {β : Type} (p : SEPort β) (h : p.WF) (key : Key) (ps : List Nat)
    (hpos : positions p.len key = .ok ps) :
    p.getItem key = .ok ⟨select ps p.io, select ps p.inv, p.dir⟩ :=
  SEPort.getItem_ok p key h hpos

/-- `(p[a:b]).invert = p.invert[a:b]`, width `b - a`, same direction (`0 ≤ a ≤ b ≤ len p`) -/
theorem port_algebra_slice {β : Type} (p : SEPort β) (h : p.WF) (a b : Nat) (hab : a ≤ b) (hb : b ≤ p.len) :
    p.getItem (.slc (some a) (some b) none)
      = .ok ⟨(p.io.drop a).take (b - a), (p.inv.drop a).take (b - a), p.dir⟩ := by
  have h' : p.io.length = p.inv.length := h
  rw [SEPort.getItem_ok p _ h (positions_plain hab hb)]
  rw [select_range' p.io a (b - a) (by simp only [SEPort.len] at hb; omega)]
  rw [select_range' p.inv a (b - a) (by simp only [SEPort.len] at hb; omega)]

/-- `(p+q).invert = p.invert ++ q.invert`, the wires likewise, widths add, directions combine by
`Direction.__and__` (equal stays, bidirectional adapts, input with output is a `ValueError`) -/
theorem port_algebra_add {β : Type} (p q : SEPort β) (hp : p.WF) (hq : q.WF) :
    p.add q = (Spec.dirMeet p.dir q.dir).map fun d => ⟨p.io ++ q.io, p.inv ++ q.inv, d⟩ := by
  have hp : p.io.length = p.inv.length := hp
  have hq : q.io.length = q.inv.length := hq
  have hl : ¬ (p.inv ++ q.inv).length ≠ (p.io ++ q.io).length := by simp [hp, hq]
  simp only [SEPort.add, meet_eq, bind, Except.bind]
  cases Spec.dirMeet p.dir q.dir with
  | error e => rfl
  | ok d => simp only [SEPort.new, normInvert, hl, if_false, bind, Except.bind, pure, Except.pure, Except.map]

theorem port_algebra_add_len {β : Type} (p q r : SEPort β) (hp : p.WF) (hq : q.WF) (h : p.add q = .ok r) :
    r.len = p.len + q.len ∧ r.inv = p.inv ++ q.inv := by
  rw [port_algebra_add p q hp hq] at h
  cases hd : Spec.dirMeet p.dir q.dir with
  | error e => simp [hd, Except.map] at h
  | ok d =>
    simp only [hd, Except.map, Except.ok.injEq] at h
    subst h
    simp [SEPort.len]

/-- `(~p).invert = map not p.invert`; wires and direction unchanged -/
theorem port_algebra_invert {β : Type} (p : SEPort β) (hp : p.WF) :
    p.invert = .ok ⟨p.io, p.inv.map not, p.dir⟩ := by
  have hp : p.io.length = p.inv.length := hp
  have hl : ¬ (p.inv.map not).length ≠ p.io.length := by simp [hp]
  simp only [SEPort.invert, SEPort.new, normInvert, hl, if_false, bind, Except.bind, pure, Except.pure]

/-- directions combine as the code defines (`Direction.__and__` = the Spec's table) -/
theorem port_algebra_direction (a b : Dir) : a.meet b = Spec.dirMeet a b := meet_eq a b

-- non-vacuity (tests on literals): `(~(p+q))[1:4]`, a reversed slice, an input/output clash
example :
    (PExpr.getItem (.invert (.add (.leaf ⟨[10, 11, 12], [true, false, true], .io⟩)
        (.leaf ⟨[20, 21], [false, true], .i⟩))) (.slc (some 1) (some 4) none)).eval (SEPort.ops (β := Nat))
      = .ok ⟨[11, 12, 20], [true, false, true], .i⟩ := by decide
example : (SEPort.getItem (⟨[10, 11, 12], [true, false, true], .io⟩ : SEPort Nat) (.slc (some 2) (some 1) none))
      = .error .indexError := by decide
example : (SEPort.add (⟨[1], [true], .i⟩ : SEPort Nat) ⟨[2], [false], .o⟩) = .error .valueError := by decide
example : (PExpr.leaf (⟨[10, 11, 12], [true, false, true], .io⟩ : SEPort Nat)).AllLeaves SEPort.WF := rfl
example : (SimPort.add (⟨some [1, 2], some [3, 4], some [5, 6], [true, false], .io⟩ : SimPort Nat)
      ⟨some [7], none, none, [true], .i⟩) = .ok ⟨some [1, 2, 7], none, none, [true, false, true], .i⟩ := by decide

/-! ## which buffer on which port -/

/-- `Buffer(direction, port)` is accepted iff `port.direction in (direction, Bidir)` -/
theorem buffer_legal (bdir pdir : Dir) : bufferNew bdir pdir = .ok () ↔ Spec.legal bdir pdir = true := by
  cases bdir <;> cases pdir <;> decide

theorem ffbuffer_legal (bdir pdir : Dir) (iDom oDom : Bool) :
    ffBufferNew bdir pdir iDom oDom = .ok () ↔
      (Spec.legal bdir pdir = true ∧ Spec.domainsOk bdir iDom oDom = true) := by
  cases bdir <;> cases pdir <;> cases iDom <;> cases oDom <;> decide

/-! ## the combinational buffer on a simulation port -/

/-- all observables of `Buffer(bdir, port)` at once, bit list by bit list -/
theorem buffer_all (bdir : Dir) (inv : List Bool) (x : BufIn) :
    obsOf inv.length (Buffer.comb bdir inv x) =
      Spec.buffer bdir inv (toBits inv.length x.o) x.oe (toBits inv.length x.pi) :=
  buffer_refines bdir inv x

/-- `port.o = o ^ mask`: bit `k` of the port's output is `o[k] XOR invert[k]` -/
theorem buffer_o (bdir : Dir) (hb : bdir ≠ .i) (inv : List Bool) (x : BufIn) :
    (Buffer.comb bdir inv x).portO.map (toBits inv.length) =
      some (List.zipWith xor (toBits inv.length x.o) inv) := by
  have := congrArg Spec.Obs.portO (buffer_refines bdir inv x)
  simp only [obsOf, Spec.buffer, hb, if_false, Spec.portO] at this
  exact this

/-- the same, bit by bit, with the value itself -/
theorem buffer_o_bit (bdir : Dir) (hb : bdir ≠ .i) (inv : List Bool) (x : BufIn) :
    ∃ v, (Buffer.comb bdir inv x).portO = some v ∧
      ∀ k (hk : k < inv.length), v.testBit k = (x.o.testBit k ^^ inv[k]) := by
  cases bdir with
  | i => exact absurd rfl hb
  | o =>
    refine ⟨_, rfl, fun k hk => ?_⟩
    rw [testBit_xorInv inv x.o k hk]
    simp [List.getD_eq_getElem?_getD, List.getElem?_eq_getElem hk]
  | io =>
    refine ⟨_, rfl, fun k hk => ?_⟩
    rw [testBit_xorInv inv x.o k hk]
    simp [List.getD_eq_getElem?_getD, List.getElem?_eq_getElem hk]

/-- the same as one word: `port.o = o ^ mask` with `mask = Σ invert[k]·2^k` (for `o` within the width) -/
theorem buffer_o_word (bdir : Dir) (hb : bdir ≠ .i) (inv : List Bool) (x : BufIn) (ho : x.o < 2 ^ inv.length) :
    (Buffer.comb bdir inv x).portO = some (x.o ^^^ Spec.ofBits inv) := by
  have hx : (if invertMask inv ≠ 0 then trunc inv.length (x.o ^^^ invertMask inv) else x.o)
      = x.o ^^^ Spec.ofBits inv := by
    rw [← invertMask_eq]
    split
    · exact Nat.mod_eq_of_lt (Nat.xor_lt_two_pow ho (invertMask_lt inv))
    · rename_i h0
      have : invertMask inv = 0 := by omega
      rw [this, Nat.xor_zero]
  cases bdir with
  | i => exact absurd rfl hb
  | o => simp only [Buffer.comb, hx]
  | io => simp only [Buffer.comb, hx]

/-- every output-enable bit of the port equals the buffer's one `oe` bit -/
theorem buffer_oe (bdir : Dir) (hb : bdir ≠ .i) (inv : List Bool) (x : BufIn) :
    (Buffer.comb bdir inv x).portOe.map (toBits inv.length) = some (List.replicate inv.length x.oe) := by
  have := congrArg Spec.Obs.portOe (buffer_refines bdir inv x)
  simp only [obsOf, Spec.buffer, hb, if_false, Spec.portOe] at this
  exact this

/-- an input buffer shows `port.i ^ mask`: bit `k` of `i` is `port.i[k] XOR invert[k]` -/
theorem buffer_i (inv : List Bool) (x : BufIn) :
    (Buffer.comb .i inv x).i.map (toBits inv.length) =
      some (List.zipWith xor (toBits inv.length x.pi) inv) := by
  have := congrArg Spec.Obs.i (buffer_refines .i inv x)
  simp only [obsOf, Spec.buffer, Spec.bufI] at this
  exact this

/-- the same as one word: `i = port.i ^ mask` -/
theorem buffer_i_word (inv : List Bool) (x : BufIn) (hpi : x.pi < 2 ^ inv.length) :
    (Buffer.comb .i inv x).i = some (x.pi ^^^ Spec.ofBits inv) := by
  have hx : (if invertMask inv ≠ 0 then trunc inv.length (x.pi ^^^ invertMask inv) else x.pi)
      = x.pi ^^^ Spec.ofBits inv := by
    rw [← invertMask_eq]
    split
    · exact Nat.mod_eq_of_lt (Nat.xor_lt_two_pow hpi (invertMask_lt inv))
    · rename_i h0
      have : invertMask inv = 0 := by omega
      rw [this, Nat.xor_zero]
  simp only [Buffer.comb, hx]

/-- a bidirectional buffer loops the driven value back while enabled — `i = o`, the two inversions
cancel — and otherwise shows `port.i ^ mask` -/
theorem bidir_loopback (inv : List Bool) (x : BufIn) :
    (Buffer.comb .io inv x).i.map (toBits inv.length) =
      some (if x.oe then toBits inv.length x.o else List.zipWith xor (toBits inv.length x.pi) inv) := by
  have := congrArg Spec.Obs.i (buffer_refines .io inv x)
  simp only [obsOf, Spec.buffer, Spec.bufIBidir, Spec.bufI] at this
  exact this

/-- nothing sticks out above the port width -/
theorem buffer_width (bdir : Dir) (inv : List Bool) (x : BufIn) (ho : x.o < 2 ^ inv.length)
    (hpi : x.pi < 2 ^ inv.length) :
    (∀ v, (Buffer.comb bdir inv x).portO = some v → v < 2 ^ inv.length) ∧
    (∀ v, (Buffer.comb bdir inv x).portOe = some v → v < 2 ^ inv.length) ∧
    (∀ v, (Buffer.comb bdir inv x).i = some v → v < 2 ^ inv.length) :=
  buffer_bounded bdir inv x ho hpi

-- non-vacuity: width 4, inversion flags (F,T,F,T) i.e. mask 0b1010
example : Buffer.comb .io [false, true, false, true] ⟨0b1010, true, 0b0110⟩ = ⟨some 0, some 15, some 0b1010⟩ := by decide
example : Buffer.comb .io [false, true, false, true] ⟨0b1010, false, 0b0110⟩ = ⟨some 0, some 0, some 0b1100⟩ := by decide
example : Buffer.comb .i [] ⟨0, false, 0⟩ = ⟨none, none, some 0⟩ := by decide

/-! ## the registered buffer -/

/-- **Two named domains, arbitrary event sequences.** After every event the port shows what the
combinational buffer makes of the `o`/`oe` captured at the most recent `o_domain` edge, and `i` shows
what the combinational buffer showed just before the most recent `i_domain` edge (`Spec.ffRun`) —
from any initial register contents. -/
theorem ffbuffer_registers (bdir : Dir) (inv : List Bool) (s : FFState) (es : List FFEvent) :
    (FFBuffer.run bdir inv s es).map (obsOf inv.length) =
      Spec.ffRun bdir inv (toBits inv.length s.oFf) s.oeFf (toBits inv.length s.iFf)
        (es.map (evOf inv.length)) :=
  ff_refines bdir inv s es

/-- **Exactly one stage.** With one clock, for every input sequence: the observation after edge `t`
is the combinational buffer's answer to the inputs applied before edge `t` (`o`, `oe` of cycle `t`
on the port; on `i` the port input of cycle `t`, looped back under `o`, `oe` of cycle `t-1` for a
bidirectional buffer) — `Spec.ffTrace`, which mentions no earlier input. -/
theorem ffbuffer_one_stage (bdir : Dir) (inv : List Bool) (s : FFState) (es : List FFEvent)
    (h : ∀ e ∈ es, e.tickI = true ∧ e.tickO = true) :
    (FFBuffer.run bdir inv s es).map (obsOf inv.length) =
      Spec.ffTrace bdir inv (toBits inv.length s.oFf) s.oeFf
        (es.map fun e => (toBits inv.length e.x.o, e.x.oe, toBits inv.length e.x.pi)) := by
  rw [ff_refines, ffRun_single]
  · simp [List.map_map, Function.comp_def, evOf]
  · intro e he
    rw [List.mem_map] at he
    obtain ⟨e', he', rfl⟩ := he
    exact h e' he'

/-- not zero stages, and each register in its own domain: without an edge nothing changes; an edge
of one domain leaves the other domain's registers alone -/
theorem ffbuffer_domains (bdir : Dir) (inv : List Bool) (s : FFState) (e : FFEvent) :
    (e.tickO = false → (FFBuffer.step bdir inv s e).oFf = s.oFf ∧ (FFBuffer.step bdir inv s e).oeFf = s.oeFf) ∧
    (e.tickI = false → (FFBuffer.step bdir inv s e).iFf = s.iFf) ∧
    (e.tickO = true → (FFBuffer.step bdir inv s e).oFf = e.x.o ∧ (FFBuffer.step bdir inv s e).oeFf = e.x.oe) := by
  refine ⟨?_, ?_, ?_⟩ <;> intro h <;> simp [FFBuffer.step, h]

-- non-vacuity: input change without an edge is invisible; one edge later it is there
example : FFBuffer.run .o [true] FFState.init [⟨⟨1, true, 0⟩, false, false⟩, ⟨⟨1, true, 0⟩, true, true⟩]
    = [⟨some 1, some 0, none⟩, ⟨some 0, some 1, none⟩] := by decide
example : FFBuffer.run .i [true, false] FFState.init [⟨⟨0, false, 0b10⟩, true, true⟩, ⟨⟨0, false, 0b01⟩, true, true⟩]
    = [⟨none, none, some 0b11⟩, ⟨none, none, some 0b00⟩] := by decide

/-! ## buffers on real ports: fabric-side inversion, which pads carry a cell -/

/-- `Buffer` on a `SingleEndedPort`: one cell on exactly the port's pads, in the buffer's
direction; the pads carry `o[k] XOR invert[k]`, `i[k]` is `pad[k] XOR invert[k]` — the inversion
is logic between the buffer's signals and the cell, never a property of the pad -/
theorem buffer_real_single {β : Type} (bdir : Dir) (p : SEPort β) (o : Nat) (oe : Bool) (pad : Nat) :
    ∃ c iv, Buffer.single bdir p o oe pad = ([c], iv) ∧ c.port = p.io ∧ c.dir = bdir ∧
      c.o.map (toBits p.inv.length) = (if bdir = .i then none else some (Spec.padO p.inv (toBits p.inv.length o))) ∧
      c.oe = (if bdir = .i then none else some oe) ∧
      iv.map (toBits p.inv.length) = (if bdir = .o then none else some (Spec.padI p.inv (toBits p.inv.length pad))) := by
  cases bdir <;>
    exact ⟨_, _, rfl, rfl, rfl, by simp only [Option.map, toBits_xorInv, Spec.padO]; simp, by simp,
      by simp only [Option.map, toBits_xorInv, Spec.padI]; simp⟩

/-- … and, when the pads of the port are pairwise different, each of them is claimed by exactly one cell, which
the netlist builder accepts -/
theorem buffer_real_single_use {β : Type} [DecidableEq β] (bdir : Dir) (p : SEPort β) (o : Nat) (oe : Bool) (pad : Nat)
    (hnd : p.io.Nodup) :
    claimsOf (Buffer.single bdir p o oe pad) = [(p.io, bdir)] ∧
    (∀ b ∈ p.io, ((Buffer.single bdir p o oe pad).1.map (·.port)).flatten.count b = 1) ∧
    emitAll [] ((Buffer.single bdir p o oe pad).1.map (·.port)) = .ok p.io.reverse := by
  have hn : (Buffer.single bdir p o oe pad).1.map (·.port) = claimNets bdir p.io none := by cases bdir <;> rfl
  have h := claims_exactly_once_single bdir p.io hnd
  rw [hn]
  refine ⟨by rw [single_claims]; rfl, h.1, ?_⟩
  rw [h.2, claimNets_flatten, List.append_nil]

/-- `Buffer` on a `DifferentialPort`, **every** direction. Which cells: one on the `p` half in the buffer's
direction, and — only when the buffer drives — an output cell on the `n` half (`Spec.padClaims`). What they
carry: the `p` pads `o[k] XOR invert[k]`, the `n` pads the complement of that, every driving cell the buffer's
`oe`; `i[k]` is `p_pad[k] XOR invert[k]` whenever the buffer has an `i` (input *and* bidirectional): the
fabric-side inversion of the input path. The `n` pads are never read. -/
theorem buffer_real_diff {β : Type} (bdir : Dir) (p : DiffPort β) (o : Nat) (oe : Bool) (pad : Nat) :
    claimsOf (Buffer.diff bdir p o oe pad) = Spec.padClaims bdir p.p (some p.n) ∧
    padObsOf p.inv.length (Buffer.diff bdir p o oe pad) =
      { padO := if bdir = .i then none else some (Spec.padO p.inv (toBits p.inv.length o))
        padN := if bdir = .i then none else some (Spec.padON p.inv (toBits p.inv.length o))
        oe := if bdir = .i then none else some oe
        i := if bdir = .o then none else some (Spec.padI p.inv (toBits p.inv.length pad)) } ∧
    (∀ c ∈ (Buffer.diff bdir p o oe pad).1, c.oe = (if bdir = .i then none else some oe)) := by
  refine ⟨diff_claims bdir p o oe pad, ?_, fun c hc => (diff_cells_oe bdir p o oe pad c hc).1⟩
  rw [diff_refines]
  cases bdir <;> simp [Spec.padBuffer]

/-- the same for a driving buffer, cell by cell -/
theorem buffer_real_diff_driving {β : Type} (bdir : Dir) (hb : bdir ≠ .i) (p : DiffPort β) (o : Nat) (oe : Bool) (pad : Nat) :
    ∃ c cn iv, Buffer.diff bdir p o oe pad = ([c, cn], iv) ∧ c.port = p.p ∧ c.dir = bdir ∧
      cn.port = p.n ∧ cn.dir = .o ∧
      c.o.map (toBits p.inv.length) = some (Spec.padO p.inv (toBits p.inv.length o)) ∧
      cn.o.map (toBits p.inv.length) = some (Spec.padON p.inv (toBits p.inv.length o)) ∧
      c.oe = some oe ∧ cn.oe = some oe ∧
      iv.map (toBits p.inv.length) = (if bdir = .o then none else some (Spec.padI p.inv (toBits p.inv.length pad))) := by
  cases bdir with
  | i => exact absurd rfl hb
  | o => exact ⟨_, _, _, rfl, rfl, rfl, rfl, rfl, by simp only [Option.map, toBits_xorInv, Spec.padO],
      by simp only [Option.map, toBits_notBits, toBits_xorInv, Spec.padON, Spec.padO], rfl, rfl, rfl⟩
  | io => exact ⟨_, _, _, rfl, rfl, rfl, rfl, rfl, by simp only [Option.map, toBits_xorInv, Spec.padO],
      by simp only [Option.map, toBits_notBits, toBits_xorInv, Spec.padON, Spec.padO], rfl, rfl,
      by simp only [Option.map, toBits_xorInv, Spec.padI]; simp⟩

/-- **The differential input path.** An input buffer on a differential port is exactly one cell: on the `p`
half, listening only (it drives neither `o` nor `oe`); there is no cell on the `n` half; and `i[k]` is
`p_pad[k] XOR invert[k]` — the inversion is applied in the fabric, after the cell. -/
theorem buffer_real_diff_input {β : Type} (p : DiffPort β) (o : Nat) (oe : Bool) (pad : Nat) :
    ∃ c iv, Buffer.diff .i p o oe pad = ([c], some iv) ∧ c.port = p.p ∧ c.dir = .i ∧ c.o = none ∧ c.oe = none ∧
      toBits p.inv.length iv = Spec.padI p.inv (toBits p.inv.length pad) ∧
      (∀ k (hk : k < p.inv.length), iv.testBit k = (pad.testBit k ^^ p.inv[k])) := by
  refine ⟨_, _, rfl, rfl, rfl, rfl, rfl, by simp only [toBits_xorInv, Spec.padI], fun k hk => ?_⟩
  rw [testBit_xorInv p.inv pad k hk]
  simp [List.getD_eq_getElem?_getD, List.getElem?_eq_getElem hk]

/-- **Every pad of a differential port, `p` and `n`.** On a port whose pads are pairwise different: every `p`
pad is claimed by exactly one cell; every `n` pad by exactly one cell when the buffer drives (direction `o` or
`io`) and by none when it is an input buffer; the netlist builder accepts the cells. -/
theorem buffer_real_diff_use {β : Type} [DecidableEq β] (bdir : Dir) (p : DiffPort β) (o : Nat) (oe : Bool) (pad : Nat)
    (hnd : (p.p ++ p.n).Nodup) :
    (∀ b ∈ p.p, ((Buffer.diff bdir p o oe pad).1.map (·.port)).flatten.count b = 1) ∧
    (∀ b ∈ p.n, ((Buffer.diff bdir p o oe pad).1.map (·.port)).flatten.count b = if bdir = .i then 0 else 1) ∧
    emitAll [] ((Buffer.diff bdir p o oe pad).1.map (·.port)) =
      .ok ((Buffer.diff bdir p o oe pad).1.map (·.port)).flatten.reverse := by
  have hn : (Buffer.diff bdir p o oe pad).1.map (·.port) = claimNets bdir p.p (some p.n) := by cases bdir <;> rfl
  rw [hn]
  exact claims_exactly_once bdir p.p p.n hnd

-- non-vacuity: a 2-bit pair, inversion flags (T,F): input buffer → one cell on the `p` pads, `i = pad ^ 0b01`;
-- bidirectional → two cells, the `n` half carries the complement
example : Buffer.diff .i (⟨[10, 11], [20, 21], [true, false], .io⟩ : DiffPort Nat) 3 true 0b10
    = ([⟨[10, 11], .i, none, none⟩], some 0b11) := by decide
example : Buffer.diff .io (⟨[10, 11], [20, 21], [true, false], .io⟩ : DiffPort Nat) 0b11 true 0b10
    = ([⟨[10, 11], .io, some 0b10, some true⟩, ⟨[20, 21], .o, some 0b01, some true⟩], some 0b11) := by decide
example : ([10, 11] ++ [20, 21] : List Nat).Nodup := by decide
example : emitAll ([] : List Nat) ((Buffer.diff .i (⟨[10, 11], [20, 21], [true, false], .io⟩ : DiffPort Nat) 0 false 0).1.map (·.port))
    = .ok [11, 10] := by decide

/-! ## the registered buffer on real ports -/

/-- the `IOBufferInstance`s of `FFBuffer(direction, port)` are those of `Buffer(direction, port)`: same pads, same
directions, in every state (the registers add no cell), so `buffer_real_single_use` / `buffer_real_diff_use` hold
for it unchanged -/
theorem ffbuffer_real_cells {β : Type} (bdir : Dir) (s : FFState) (pad : Nat) :
    (∀ p : SEPort β, claimsOf (FFBuffer.realOut (Buffer.single bdir p) bdir s pad) = Spec.padClaims bdir p.io none) ∧
    (∀ p : DiffPort β, claimsOf (FFBuffer.realOut (Buffer.diff bdir p) bdir s pad) = Spec.padClaims bdir p.p (some p.n)) :=
  ⟨fun p => by rw [ff_real_claims, single_claims], fun p => by rw [ff_real_claims, diff_claims]⟩

/-- **Two named domains, arbitrary event sequences, single-ended port.** After every event the pads carry what the
combinational buffer makes of the `o`/`oe` captured at the most recent `o_domain` edge, and `i` shows what the
combinational buffer showed (pads XOR inversion) just before the most recent `i_domain` edge — from any initial
register contents (`Spec.ffRunPads`). -/
theorem ffbuffer_real_registers {β : Type} (bdir : Dir) (p : SEPort β) (s : FFState) (es : List FFEvent) :
    (FFBuffer.realRun (Buffer.single bdir p) bdir s es).map (padObsOf p.inv.length) =
      Spec.ffRunPads false bdir p.inv (toBits p.inv.length s.oFf) s.oeFf (toBits p.inv.length s.iFf)
        (es.map (evOf p.inv.length)) :=
  ff_real_refines false bdir p.inv _ (single_refines bdir p) s es

/-- the same on a differential port (the `n` half follows the `p` half, complemented) -/
theorem ffbuffer_real_registers_diff {β : Type} (bdir : Dir) (p : DiffPort β) (s : FFState) (es : List FFEvent) :
    (FFBuffer.realRun (Buffer.diff bdir p) bdir s es).map (padObsOf p.inv.length) =
      Spec.ffRunPads true bdir p.inv (toBits p.inv.length s.oFf) s.oeFf (toBits p.inv.length s.iFf)
        (es.map (evOf p.inv.length)) :=
  ff_real_refines true bdir p.inv _ (diff_refines bdir p) s es

/-- **Exactly one stage on real ports.** With one clock, for every input sequence: what is on the pads and on `i`
after edge `t` is the combinational buffer's answer to the `o`, `oe` and pad values applied before edge `t`, and
to nothing earlier. -/
theorem ffbuffer_real_one_stage {β : Type} (bdir : Dir) (p : SEPort β) (s : FFState) (es : List FFEvent)
    (h : ∀ e ∈ es, e.tickI = true ∧ e.tickO = true) :
    (FFBuffer.realRun (Buffer.single bdir p) bdir s es).map (padObsOf p.inv.length) =
      es.map fun e => Spec.padBuffer false bdir p.inv (toBits p.inv.length e.x.o) e.x.oe (toBits p.inv.length e.x.pi) := by
  rw [ffbuffer_real_registers, ffRunPads_single]
  · simp [List.map_map, Function.comp_def, evOf]
  · intro e he
    rw [List.mem_map] at he
    obtain ⟨e', he', rfl⟩ := he
    exact h e' he'

theorem ffbuffer_real_one_stage_diff {β : Type} (bdir : Dir) (p : DiffPort β) (s : FFState) (es : List FFEvent)
    (h : ∀ e ∈ es, e.tickI = true ∧ e.tickO = true) :
    (FFBuffer.realRun (Buffer.diff bdir p) bdir s es).map (padObsOf p.inv.length) =
      es.map fun e => Spec.padBuffer true bdir p.inv (toBits p.inv.length e.x.o) e.x.oe (toBits p.inv.length e.x.pi) := by
  rw [ffbuffer_real_registers_diff, ffRunPads_single]
  · simp [List.map_map, Function.comp_def, evOf]
  · intro e he
    rw [List.mem_map] at he
    obtain ⟨e', he', rfl⟩ := he
    exact h e' he'

/-- not zero stages: without an edge the pads and `i` keep showing the registers (every port kind) -/
theorem ffbuffer_real_no_edge {β : Type} (inner : RealBuf β) (s : FFState) (e : FFEvent)
    (h : e.tickI = false ∧ e.tickO = false) : FFBuffer.realStep inner s e = s := by
  simp [FFBuffer.realStep, h.1, h.2]

-- non-vacuity: a bidirectional registered buffer on a 2-bit pair, flags (T,F): power-on (registers 0), an input
-- change without an edge (invisible), then an edge of both domains
example : FFBuffer.realRun (Buffer.diff .io (⟨[10, 11], [20, 21], [true, false], .io⟩ : DiffPort Nat)) .io FFState.init
      [⟨⟨0b11, true, 0b10⟩, false, false⟩, ⟨⟨0b11, true, 0b10⟩, true, true⟩]
    = [([⟨[10, 11], .io, some 0b01, some false⟩, ⟨[20, 21], .o, some 0b10, some false⟩], some 0),
       ([⟨[10, 11], .io, some 0b10, some true⟩, ⟨[20, 21], .o, some 0b01, some true⟩], some 0b11)] := by decide
example : FFBuffer.realRun (Buffer.single .i (⟨[10, 11], [true, false], .i⟩ : SEPort Nat)) .i FFState.init
      [⟨⟨0, false, 0b10⟩, true, false⟩, ⟨⟨0, false, 0b01⟩, false, true⟩]
    = [([⟨[10, 11], .i, none, none⟩], some 0b11), ([⟨[10, 11], .i, none, none⟩], some 0b11)] := by decide

/-! ## single use across buffers -/

/-- **Single use, any sequence of buffer cells.** The netlist builder accepts a sequence of cells
iff no pad bit is claimed twice (within one cell or across cells); it then has recorded exactly the
claimed bits; otherwise it raises `DriverConflict`. -/
theorem single_use {β : Type} [DecidableEq β] (cells : List (List β)) :
    emitAll [] cells =
      if Spec.accepts cells = true then .ok cells.flatten.reverse else .error .driverConflict := by
  rw [emitAll_eq]
  simp [Spec.accepts]

/-- one more cell on a table `used`: a bit that is already there ⇒ `DriverConflict`; -/
theorem single_use_conflict {β : Type} [DecidableEq β] (used nets : List β) (b : β) (hb : b ∈ nets) (hu : b ∈ used) :
    emitIoUse used nets = .error .driverConflict := by
  rw [emitIoUse_eq, if_neg]
  intro h
  exact h.2 b hb hu

/-- … otherwise (fresh, pairwise different bits) accepted, and the bits are entered -/
theorem single_use_accept {β : Type} [DecidableEq β] (used nets : List β) (hn : nets.Nodup)
    (hd : ∀ x ∈ nets, x ∉ used) : emitIoUse used nets = .ok (nets.reverse ++ used) := by
  rw [emitIoUse_eq, if_pos ⟨hn, hd⟩]

/-- in an accepted design every claimed pad bit belongs to exactly one cell position -/
theorem single_use_exactly_one {β : Type} [DecidableEq β] (cells : List (List β)) (u : List β)
    (h : emitAll [] cells = .ok u) : ∀ b ∈ cells.flatten, cells.flatten.count b = 1 ∧ u.count b = 1 := by
  rw [emitAll_eq] at h
  split at h
  · rename_i hc
    simp only [List.append_nil, Except.ok.injEq] at h
    subst h
    intro b hb
    have := List.Nodup.count (a := b) hc.1
    simp only [hb, if_true] at this
    exact ⟨this, by rw [List.count_reverse]; exact this⟩
  · cases h

-- non-vacuity
example : emitAll ([] : List (Nat × Nat)) [[(0, 0), (0, 1)], [(0, 2)], [(1, 0)]] = .ok [(1, 0), (0, 2), (0, 1), (0, 0)] := by decide
example : emitAll ([] : List (Nat × Nat)) [[(0, 0), (0, 1)], [(0, 1)]] = .error .driverConflict := by decide
example : emitAll ([] : List (Nat × Nat)) [[(0, 0), (0, 0)]] = .error .driverConflict := by decide

end Amaranth.C18
